# attribute.py
# Contact: Jacob Schreiber <jmschreiber91@gmail.com>

import torch
import torch.nn.functional as F

import warnings

from typing import cast
from tqdm import trange
from .ersatz import dinucleotide_shuffle


def hypothetical_attributions(multipliers, X, references):
	"""A function for aggregating contributions into hypothetical attributions.

	When handling categorical data, like one-hot encodings, the gradients
	returned by a method like DeepLIFT/SHAP may need to be modified because
	the choice of one character at a position explicitly means that the other
	characters are not there. So, one needs to account for each character change 
	actually being the addition of one character AND the subtraction of another 
	character. Basically, once you've calculated the multipliers, you need to 
	subtract out the contribution of the nucleotide actually present and then 
	add in the contribution of the nucleotide you are becomming.

	Each element in the tensor is considered an independent example 

	As an implementation note: to be compatible with Captum, each input must
	be a tuple of length 1 and the returned value will be a tuple of length 1.
	I know this sounds silly but it's the most convenient implementation choice 
	to make the function compatible across DeepLiftShap implementations.


	Parameters
	----------
	multipliers: tuple of one torch.tensor, shape=(n_baselines, 4, length)
		The multipliers/gradient calculated by a method like DeepLIFT/SHAP.
		These should include values for both the observed characters and the
		unobserved characters at each position

	X: tuple of one torch.tensor, shape=(n_baselines, 4, length)
		The one-hot encoded sequence being explained

	references: tuple of one torch.tensor, shape=(n_baselines, 4, length)
		The one-hot encoded reference sequences, usually a shuffled version
		of the corresponding sequence in X.


	Returns
	-------
	projected_contribs: tuple of one torch.tensor, shape=(1, 4, length)
		The attribution values for each nucleotide in the input.
	"""

	for val in multipliers, X, references:
		if not isinstance(val, tuple) or len(val) != 1:
			raise ValueError("All inputs must be one-element tuples.")

		if not isinstance(val[0], torch.Tensor):
			raise ValueError("The first element of each input must be a "
				"tensor.")

		if val[0].shape != multipliers[0].shape:
			raise ValueError("Shape of all tensors must match.") 


	projected_contribs = torch.zeros_like(references[0], dtype=X[0].dtype, 
		device=X[0].device)
	
	for i in range(X[0].shape[1]):
		hypothetical_input = torch.zeros_like(X[0], dtype=X[0].dtype, 
			device=X[0].device)
		hypothetical_input[:, i] = 1.0
		hypothetical_diffs = hypothetical_input - references[0]
		hypothetical_contribs = hypothetical_diffs * multipliers[0]

		projected_contribs[:, i] = torch.sum(hypothetical_contribs, dim=1)

	return (projected_contribs,)


def _register_hooks(module): 
	if len(module._backward_hooks) > 0:
		return
	if not isinstance(module, tuple(module._NON_LINEAR_OPS.keys())):
		return

	module.handles = []
	module.handles.append(module.register_forward_hook(_f_hook))
	module.handles.append(module.register_forward_pre_hook(_fp_hook))
	module.handles.append(module.register_full_backward_hook(_b_hook))


def _clear_hooks(module):
	if hasattr(module, "handles") and len(module.handles) > 0:
		for handle in module.handles:
			handle.remove()

		del module.handles


def _fp_hook(module, inputs): 
	module.input = inputs[0].clone().detach()


def _f_hook(module, inputs, outputs):
	module.output = outputs.clone().detach()


def _b_hook(module, grad_input, grad_output):
	return module._NON_LINEAR_OPS[type(module)](module, grad_input, 
		grad_output)


def _nonlinear(module, grad_input, grad_output):
	"""An internal function implementing a general-purpose nonlinear correction.

	This function, copied and slightly modified from Captum, is meant to be
	the `rescale` rule applied to general non-linear functions such as
	activations.
	"""

	delta_in_ = torch.sub(*module.input.chunk(2))
	delta_out_ = torch.sub(*module.output.chunk(2))

	delta_in = torch.cat([delta_in_, delta_in_])
	delta_out = torch.cat([delta_out_, delta_out_])

	delta = delta_out / delta_in
	idxs = torch.abs(delta_in) < 1e-6

	return (torch.where(idxs, grad_input[0], grad_output[0] * delta),)


def _softmax(module, grad_input, grad_output):
	"""An internal function implementing a correction for softmax activations.

	This function, copied and slightly modified from Captum, is meant to be
	the `rescale` rule applied specifically to softmax activations without
	needing to remove them and operate on the underlying logits.
	"""

	delta_in_ = torch.sub(*module.input.chunk(2))
	delta_out_ = torch.sub(*module.output.chunk(2))

	delta_in = torch.cat([delta_in_, delta_in_])
	delta_out = torch.cat([delta_out_, delta_out_])

	delta = delta_out / delta_in
	idxs = torch.abs(delta_in) < 1e-6

	grad_input_unnorm = torch.where(idxs, grad_input[0], grad_output[0] * delta)

	# The batch holds the examples in its first half and their references in its
	# second half. Normalize each example-reference pair on its own so that the
	# result does not depend on which other pairs happen to share the batch.
	b = grad_input_unnorm.shape[0] // 2
	n = 2 * grad_input_unnorm[0].numel()
	pair_mean = grad_input_unnorm.reshape(2, b, -1).sum(dim=(0, 2)) / n
	new_grad_inp = grad_input_unnorm - pair_mean.repeat(2).reshape(-1, 
		*([1] * (grad_input_unnorm.dim() - 1)))
	return (new_grad_inp,)


def _maxpool(module, grad_input, grad_output):
	"""An internal function implementing a 1D max-pooling correction.

	This function, copied and slightly modified from Captum, is meant to be
	the `rescale` rule applied to max pooling layers given their nature of
	aggregating values across multiple positions.
	"""

	if isinstance(module, torch.nn.MaxPool1d):
		pool_func, unpool_func = F.max_pool1d, F.max_unpool1d
	elif isinstance(module, torch.nn.MaxPool2d):
		pool_func, unpool_func = F.max_pool2d, F.max_unpool2d
	else:
		raise ValueError("module must be either MaxPool1d or MaxPool2d")


	with torch.no_grad():
		delta_in_ = torch.sub(*module.input.chunk(2))
		delta_in = torch.cat([delta_in_, delta_in_])

		output, output_ref = module.output.chunk(2)
		delta_out_xmax = torch.max(output, output_ref)
		delta_out = torch.cat([delta_out_xmax - output_ref, 
			output - delta_out_xmax])

		_, indices = pool_func(module.input, module.kernel_size, module.stride, 
			module.padding, module.dilation, module.ceil_mode, True)

		unpool_ = unpool_func(grad_output[0] * delta_out, indices, 
			module.kernel_size, module.stride, module.padding, 
			list(module.input.shape))
		unpool_delta, unpool_ref_delta = torch.chunk(unpool_, 2)

	unpool_delta_ = unpool_delta + unpool_ref_delta
	unpool_delta = torch.cat([unpool_delta_, unpool_delta_])
	idxs = torch.abs(delta_in) < 1e-7

	new_grad_inp = torch.where(idxs, grad_input[0], unpool_delta / delta_in)
	return (new_grad_inp,)


def deep_lift_shap(model, X, args=None, target=0,  batch_size=32,
	references=dinucleotide_shuffle, n_shuffles=20, return_references=False, 
	hypothetical=False, warning_threshold=0.001, additional_nonlinear_ops=None,
	print_convergence_deltas=False, raw_outputs=False, device='cuda', 
	random_state=None, verbose=False):
	"""Calculate attributions for a set of sequences using DeepLIFT/SHAP.

	This function will calculate the DeepLIFT/SHAP attributions on a set of
	sequences given a model. These attributions have the additive property that
	the sum of the attributions is ~equal to the difference in prediction
	between the original sequence and the reference sequences.

	As an implementation note, the batch size refers to the number of
	example-reference pairs that are being run simultaneously. When the batch
	size is smaller than the number of references, multiple batches will be
	run per example and the attributions will only be averaged only the
	references after they have all been covered. You may want to do this if the
	model or examples are so large that only a few can fit in memory at a time.
	The result will be identical to if all examples could fit in memory and
	each batch contained all the references.

	Convergence deltas are calculated automatically for each example-reference
	pair. Theoretically, these should be zero, but may in practice just be a
	small number due to machine precision issues with non-linear models. If
	these deltas exceed a warning threshold, a non-terminating warning will be 
	issued to let you know that the deltas have been exceeded.

	NOTE: predictions MUST yield a `(batch_size, n_targets)` tensor, even if
	n_targets is 1. If your model yields something more complicated you must
	wrap the model in a small class that operates on the outputs in a manner
	that yields such a tensor, e.g., by slicing the output or summing along
	a relevant axis.


	Parameters
	----------
	model: torch.nn.Module
		A PyTorch model to use for making predictions. These models can take in
		any number of inputs and make any number of outputs. The additional
		inputs must be specified in the `args` parameter.

	X: torch.tensor, shape=(-1, len(alphabet), length)
		A set of one-hot encoded sequences to calculate attribution values
		for. 

	args: tuple or None, optional
		An optional set of additional arguments to pass into the model. If
		provided, each element in the tuple or list is one input to the model
		and the element must be formatted to be the same batch size as `X`. If
		None, no additional arguments are passed into the forward function.
		Default is None.

	target: int, optional
		The output of the model to calculate gradients/attributions for. This
		will index the last dimension of the predictions. Default is 0.

	batch_size: int, optional
		The number of sequence-reference pairs to pass through DeepLiftShap at
		a time. Importantly, this is not the number of elements in `X` that
		are processed simultaneously (alongside ALL their references) but the
		total number of `X`-`reference` pairs that are processed. This means
		that if you are in a memory-limited setting where you cannot process
		all references for even a single sequence simultaneously that the
		work is broken down into doing only a few references at a time. Default
		is 32.

	references: func or torch.Tensor, optional
		If a function is passed in, this function is applied to each sequence
		with the provided random state and number of shuffles. This function
		should serve to transform a sequence into some form of signal-null
		background, such as by shuffling it. If a torch.Tensor is passed in,
		that tensor must have shape `(len(X), n_shuffles, *X.shape[1:])`, in
		that for each sequence a number of shuffles are provided. Default is
		the function `dinucleotide_shuffle`. 

	n_shuffles: int, optional
		The number of shuffles to use if a function is given for `references`.
		If a torch.Tensor is provided, this number is ignored. Default is 20.

	return_references: bool, optional
		Whether to return the references that were generated during this
		process. Only use if `references` is not a torch.Tensor. Default is 
		False. 

	hypothetical: bool, optional
		Whether to return attributions for all possible characters at each
		position or only for the character that is actually at the sequence.
		Practically, whether to return the returned attributions from captum
		with the one-hot encoded sequence. Default is False.

	warning_threshold: float, optional
		A threshold on the convergence delta that will always raise a warning
		if the delta is larger than it. Normal deltas are in the range of
		1e-6 to 1e-8. Note that convergence deltas are calculated on the
		gradients prior to the aggr_func being applied to them. Default 
		is 0.001. 

	additional_nonlinear_ops: dict or None, optional
		If additional nonlinear ops need to be added to the dictionary of
		operations that can be handled by DeepLIFT/SHAP, pass a dictionary here
		where the keys are class types and the values are the name of the
		function that handle that sort of class. Make sure that the signature
		matches those of `_nonlinear` and `_maxpool` above. This can also be
		used to overwrite the hard-coded operations by passing in a dictionary
		with overlapping key names. If None, do not add any additional 
		operations. Default is None.

	print_convergence_deltas: bool, optional
		Whether to print the convergence deltas for each example when using
		DeepLiftShap. Default is False.

	raw_outputs: bool, optional
		Whether to return the raw outputs from the method -- in this case,
		the multipliers for each example-reference pair -- or the processed
		attribution values. Default is False.

	device: str or torch.device, optional
		The device to move the model and batches to when making predictions. If
		set to 'cuda' without a GPU, this function will crash and must be set
		to 'cpu'. Default is 'cuda'. 

	random_state: int or None or numpy.random.RandomState, optional
		The random seed to use to ensure determinism. If None, the
		process is not deterministic. Default is None. 

	verbose: bool, optional
		Whether to display a progress bar. Default is False.


	Returns
	-------
	attributions: torch.tensor
		If `raw_outputs=False` (default), the attribution values with shape
		equal to `X`. If `raw_outputs=True`, the multipliers for each example-
		reference pair with shape equal to `(X.shape[0], n_shuffles, X.shape[1],
		X.shape[2])`. 

	references: torch.tensor, optional
		The references used for each input sequence, with the shape
		(n_input_sequences, n_shuffles, 4, length). Only returned if
		`return_references = True`. 
	"""

	_NON_LINEAR_OPS = {
		torch.nn.ReLU: _nonlinear,
		torch.nn.ReLU6: _nonlinear,
		torch.nn.RReLU: _nonlinear,
		torch.nn.SELU: _nonlinear,
		torch.nn.CELU: _nonlinear,
		torch.nn.GELU: _nonlinear,
		torch.nn.SiLU: _nonlinear,
		torch.nn.Mish: _nonlinear,
		torch.nn.GLU: _nonlinear,
		torch.nn.ELU: _nonlinear,
		torch.nn.LeakyReLU: _nonlinear,
		torch.nn.Sigmoid: _nonlinear,
		torch.nn.Tanh: _nonlinear,
		torch.nn.Softplus: _nonlinear,
		torch.nn.Softshrink: _nonlinear,
		torch.nn.LogSigmoid: _nonlinear,
		torch.nn.PReLU: _nonlinear,
		torch.nn.MaxPool1d: _maxpool,
		torch.nn.MaxPool2d: _maxpool,
		torch.nn.Softmax: _softmax
	}

	if additional_nonlinear_ops is not None:
		for key, value in additional_nonlinear_ops.items():
			_NON_LINEAR_OPS[key] = value

	model = model.to(device).eval()
	for module in model.modules():
		module._NON_LINEAR_OPS = _NON_LINEAR_OPS

	attributions, references_, Xi, rj, attr_ = [], [], [], [], []
	if isinstance(references, torch.Tensor):
		n_shuffles = references.shape[1]
	n, z = X.shape[0] * n_shuffles, 0

	try:
		model.apply(_register_hooks)
	except Exception as e:
		model.apply(_clear_hooks)
		raise(e)

	try:
		for i in trange(n, disable=not verbose):
			Xi.append(i // n_shuffles)
			rj.append(i % n_shuffles)

			if len(Xi) == batch_size or i == (n-1):
				_X = X[Xi].cpu()
				_args = None if args is None else tuple([a[Xi].to(device) 
					for a in args])

				# Handle reference sequences while ensuring that the same seed is
				# used for each shuffle even if not all shuffles are done in the
				# same batch.
				if isinstance(references, torch.Tensor):
					_references = references[Xi, rj]
				else:
					if random_state is None:
						_references = references(_X, n=1)[:, 0]
					else:
						_references = torch.cat([references(_X[j:j+1], n=1, 
							random_state=random_state+rj[j])[:, 0] 
								for j in range(len(_X))])

				_X = _X.to(device).requires_grad_()
				_references = _references.to(device).requires_grad_()

				# This next block is actually running DeepLIFT by concatenating the
				# batch of examples and the batch of references and running the
				# forward and backward passes that have been modified by the above
				# hooks. In a try-except block to make sure we remove hooks if an
				# error is raised. 
				try:
					X_ = torch.cat([_X, _references])

					# Calculate the gradients using the rescale rule
					with torch.autograd.set_grad_enabled(True):
						if _args is not None:
							_args = (torch.cat([arg, arg]) for arg in _args)
							y = model(X_, *_args)[:, target]
						else:
							y = model(X_)[:, target]

						multipliers = torch.autograd.grad(y.sum(), _X)[0]

					# Check that the prediction-difference-from-reference is equal to
					# the sum of the attributions
					output_diff = torch.sub(*torch.chunk(y, 2))
					input_diff = torch.sum((_X - _references) * multipliers, 
						dim=(1, 2))
					convergence_deltas = abs(output_diff - input_diff)

					if torch.any(convergence_deltas > warning_threshold):
						warnings.warn("Convergence deltas too high: " +   
							str(convergence_deltas), RuntimeWarning)

					if print_convergence_deltas:
						print(convergence_deltas)

				except Exception as e:
					model.apply(_clear_hooks)
					raise(e)

				# If not returning the raw multipliers then apply the correction for
				# character encodings
				if raw_outputs == False:
					multipliers = hypothetical_attributions((multipliers,), (_X,), 
						(_references,))[0]

				# attr_ is a list where each element is a tensor for the multipliers
				# of one example so that we can chunk them together once all
				# references for an example are 
				attr_.extend(list(multipliers.cpu().detach()))

				# When all references for a sequence have been calculated, remove
				# that block from the list of example-reference attributions and
				# add it to the final attribution list, averaging across references
				# if providing the processed results.
				while len(attr_) >= n_shuffles:
					attr_chunk = torch.stack(attr_[:n_shuffles])

					if raw_outputs == False:
						attr_chunk = attr_chunk.mean(dim=0)
						if not hypothetical:
							attr_chunk *= X[z].cpu()

					attributions.append(attr_chunk)
					attr_ = attr_[n_shuffles:]
					z += 1

				if return_references:
					references_.extend(list(_references.cpu().detach()))

				Xi, rj = [], []
	finally:
		model.apply(_clear_hooks)
		for module in model.modules():
			del(module._NON_LINEAR_OPS)


	attributions = torch.stack(attributions)

	if return_references:
		references_ = torch.cat(references_).reshape(X.shape[0], n_shuffles, 
			*X.shape[1:])
		return attributions, references_
	return attributions


def _captum_deep_lift_shap(model, X, args=None, target=0, batch_size=32,
	references=dinucleotide_shuffle, n_shuffles=20,  return_references=False, 
	hypothetical=False, device='cuda', random_state=None, verbose=False):
	"""Calculate attributions using DeepLift/Shap and a given model. 

	This function will calculate DeepLift/Shap attributions on a set of
	sequences. It assumes that the model returns "logits" in the first output,
	not softmax probabilities, and count predictions in the second output.
	It will create GC-matched negatives to use as a reference and proceed
	using the given batch size.

	This is an internal/debugging function that is mostly meant to be used to
	check for differences with the `deep_lift_shap` method.


	Parameters
	----------
	model: torch.nn.Module
		A PyTorch model to use for making predictions. These models can take in
		any number of inputs and make any number of outputs. The additional
		inputs must be specified in the `args` parameter.

	X: torch.tensor, shape=(-1, len(alphabet), length)
		A set of one-hot encoded sequences to calculate attribution values
		for. 

	args: tuple or None, optional
		An optional set of additional arguments to pass into the model. If
		provided, each element in the tuple or list is one input to the model
		and the element must be formatted to be the same batch size as `X`. If
		None, no additional arguments are passed into the forward function.
		Default is None.

	target: int, optional
		The output of the model to calculate gradients/attributions for. This
		will index the last dimension of the predictions. Default is 0.

	batch_size: int, optional
		The number of sequence-reference pairs to pass through DeepLiftShap at
		a time. Importantly, this is not the number of elements in `X` that
		are processed simultaneously (alongside ALL their references) but the
		total number of `X`-`reference` pairs that are processed. This means
		that if you are in a memory-limited setting where you cannot process
		all references for even a single sequence simultaneously that the
		work is broken down into doing only a few references at a time. Default
		is 32.

	references: func or torch.Tensor, optional
		If a function is passed in, this function is applied to each sequence
		with the provided random state and number of shuffles. This function
		should serve to transform a sequence into some form of signal-null
		background, such as by shuffling it. If a torch.Tensor is passed in,
		that tensor must have shape `(len(X), n_shuffles, *X.shape[1:])`, in
		that for each sequence a number of shuffles are provided. Default is
		the function `dinucleotide_shuffle`. 

	n_shuffles: int, optional
		The number of shuffles to use if a function is given for `references`.
		If a torch.Tensor is provided, this number is ignored. Default is 20.

	return_references: bool, optional
		Whether to return the references that were generated during this
		process. Only use if `references` is not a torch.Tensor. Default is 
		False. 

	hypothetical: bool, optional
		Whether to return attributions for all possible characters at each
		position or only for the character that is actually at the sequence.
		Practically, whether to return the returned attributions from captum
		with the one-hot encoded sequence. Default is False.

	device: str or torch.device, optional
		The device to move the model and batches to when making predictions. If
		set to 'cuda' without a GPU, this function will crash and must be set
		to 'cpu'. Default is 'cuda'. 

	random_state: int or None or numpy.random.RandomState, optional
		The random seed to use to ensure determinism. If None, the
		process is not deterministic. Default is None. 

	verbose: bool, optional
		Whether to display a progress bar. Default is False.


	Returns
	-------
	attributions: torch.tensor
		The attributions calculated for each input sequence, with the same
		shape as the input sequences.

	references: torch.tensor, optional
		The references used for each input sequence, with the shape
		(n_input_sequences, n_shuffles, 4, length). Only returned if
		`return_references = True`. 
	"""

	from captum.attr import DeepLiftShap as CaptumDeepLiftShap

	model = model.to(device).eval()

	attributions = []
	references_ = []
	with torch.no_grad():
		for i in trange(len(X), disable=not verbose):
			_X = X[i:i+1].to(device)
			_args = None if args is None else tuple([a[i:i+1].to(device) 
				for a in args])

			# Calculate references
			if isinstance(references, torch.Tensor):
				_references = references[i].to(device)
			else:
				_references = references(_X, n=n_shuffles, 
					random_state=random_state)[0].to(device)
						
			attr = CaptumDeepLiftShap(model).attribute(_X, _references, 
				target=target, additional_forward_args=_args, 
				custom_attribution_func=hypothetical_attributions)

			if not hypothetical:
				attr = (attr * _X)
			
			if return_references:
				references_.append(_reference.unsqueeze(0))

			attributions.append(attr.cpu())

	attributions = torch.cat(attributions)

	if return_references:
		return attributions, torch.cat(references_)
	return attributions