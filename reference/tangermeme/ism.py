# ism.py
# Contact: Jacob Schreiber <jmschreiber91@gmail.com>

import torch
import itertools

from .predict import predict


def _attribution_score(y0, y_hat, target):
	"""An internal function for calculating the ISM attributions.

	This function, which is meant to be used for ISM, will take in the
	predictions before and after substitutions and a target -- which can be
	None -- and return the position-normalized differences. Specifically,
	for each example, the differences in prediction will be normalized by
	subtracting out the per-position average, and then averaged across
	all tasks if target is None.


	Parameters
	----------
	y0: torch.Tensor, shape=(-1, n_targets)
		Model predictions for each example on the original predictions.

	y_hat: torch.Tensor, shape=(-1, len(alphabet), length, n_targets)
		Model predictions for each example for each substitution.

	target: int or slice or None
		If the user wants to subset to only some targets when calculating the
		average attribution across targets. If None, use all.
	"""

	attr = y_hat[:, :, :, target] - y0[:, None, None, target]
	attr -= torch.mean(attr, dim=1, keepdims=True)

	if len(attr.shape) > 3:
		attr = torch.mean(attr, dim=tuple(range(3, len(attr.shape))))
	return attr


def _edit_distance_one(X, start, end):
	"""An internal function for generating all sequences of edit distance 1

	This internal function, which is meant to be used for ISM, will take in a
	one-hot encoded sequence and return all sequences that have an edit distance
	of one. 


	Parameters
	----------
	X: torch.Tensor, shape=(len(alphabet), sequence_length)
		A single one-hot encoded sequence.

	start: int
		The first nucleotide to begin making edits on, inclusive.

	end: int
		The end of the span. Edits are not made on this nucleotide at this
		index. Can be negative indexes.


	Returns
	-------
	X_: torch.Tensor, shape=(length*len(alphabet), len(alphabet), length)
		All one-hot encoded sequences that have an edit distance of 1 from the
		original sequence. 
	"""

	end = end if end >= 0 else X.shape[-1] + 1 + end
	X_ = X.repeat((end-start)*X.shape[0], 1, 1)

	coords = itertools.product(range(X.shape[0]), range(start, end))
	for i, (j, k) in enumerate(coords):
		X_[i, :, k] = 0
		X_[i, j, k] = 1

	return X_


def saturation_mutagenesis(model, X, args=None, start=0, end=-1, batch_size=32,
	target=None, hypothetical=False, raw_outputs=False, device='cuda', 
	verbose=False):
	"""Performs in-silico saturation mutagenesis on a set of sequences.

	This function will perform in-silico saturation mutagenesis on a set of 
	sequences and return the predictions on the original sequences and each
	of the sequences with an edit distance of one on them.

	By default, this function will aggregate these predictions into an
	attribution value. This aggregation involves taking the Euclidean distance
	between the predictions before and after the substitutions and Z-score
	normalizing them across the entire example. However, this assumes that
	the model returns only a single tensor. This tensor can have multiple
	outputs, e.g., be of shape (batch_size, n_targets) where n_targets > 1,
	but the model cannot return multiple tensors.

	If you simply want the predictions before and after the substitutions
	without the method turning those into attributions because, perhaps, you
	want to define your own aggregation method, you can use `raw_outputs=True`.


	Parameters
	----------
	model: torch.nn.Module
		The PyTorch model to use to make predictions.

	X: torch.tensor, shape=(-1, len(alphabet), length)
		A set of one-hot encoded sequences to calculate attribution values
		for. 

	args: tuple or None, optional
		An optional set of additional arguments to pass into the model. If
		provided, each element in the tuple or list is one input to the model
		and the element must be formatted to be the same batch size as `X`. If
		None, no additional arguments are passed into the forward function.
		Default is None.

	start: int, optional
		The start of where to begin making perturbations to the sequence.
		Default is 0.

	end: int, optional
		The end of where to to make perturbations to the sequence,
		non-inclusive. Default is -1.

	batch_size: int, optional
		The number of examples to make predictions for at a time. Default is 32.

	target: int or slice or None, optional
		Whether to focus on a single output/slice of outputs from the model
		when calculating attributions rather than the entire set of outputs.
		If None, use all targets when calculating distances. Default is None.  

	hypothetical: bool, optional
		Whether to return attributions for all possible characters at each
		position or only for the character that is actually at the sequence.
		Only matters when `raw_outputs=False`. Default is False.

	raw_outputs: bool, optional
		Whether to return the raw outputs from the method -- in this case,
		the predictions from the reference sequence and from each of the
		perturbations -- or the processed attribution values. Default is False.

	device: str or torch.device, optional
		The device to move the model and batches to when making predictions. If
		set to 'cuda' without a GPU, this function will crash and must be set
		to 'cpu'. Default is 'cuda'. 

	verbose: bool, optional
		Whether to display a progress bar during predictions. Default is False.


	Returns
	-------
	attr: torch.Tensor
		Processed attribution values as the z-score normalized difference
		between the difference in predictions for the original sequence and
		the perturbed sequences.

	-- or, if raw_outputs=True --

	y0: torch.Tensor or list/tuple of torch.Tensors
		The outputs from the model for the reference sequences.

	y_hat: torch.Tensor or list/tuple of torch.Tensors
		The outputs from the model for each of the perturbed sequences.
	"""

	y0 = predict(model, X, args=args, device=device)
	
	y_hat = []
	for i in range(X.shape[0]):
		X_ = _edit_distance_one(X[i], start, end)

		if args is not None:
			args_ = tuple(a[i].repeat(X_.shape[0], *(1 for _ in a[i].shape)) 
				for a in args)
		else:
			args_ = None

		y_hat_ = predict(model, X_, args=args_, batch_size=batch_size, 
			device=device, verbose=verbose)

		y_hat.append(y_hat_)

	if isinstance(y_hat[0], torch.Tensor):
		y_hat = torch.stack(y_hat).reshape(X.shape[0], X.shape[1], end-start, 
			*y_hat_.shape[1:])
	else:
		y_hat = [
			torch.cat(y_).reshape(X.shape[0], X.shape[1], end-start, 
				*y_[0].shape[1:]) for y_ in zip(*y_hat)
		]

	if raw_outputs == False:
		attr = _attribution_score(y0, y_hat, target)
		if end <= 0:
			return X * attr if hypothetical == False else attr
		return X[:, :, start:end] * attr if hypothetical == False else attr
	return y0, y_hat
