# predict.py
# Contact: Jacob Schreiber <jmschreiber91@gmail.com>

import torch
import itertools

from tqdm import trange


def predict(model, X, args=None, batch_size=32, device='cuda', verbose=False):
	"""Make batched predictions in a memory-efficient manner.

	This function will take a PyTorch model and make predictions from it using
	the forward function, with optional additional arguments to the model. The
	additional arguments must have the same batch size as the examples, and the
	i-th example will be given to the model with the i-th index of each
	additional argument. 

	Before starting predictions, the model is moved to the specified device. As 
	predictions are being made, each batch is also moved to the specified 
	device and then moved back to the CPU after predictions are made. This is
	to allow the function to work on massive numbers of examples that would
	not necessarily each fit in memory. If the batches themselves do not fit
	in memory, try lowering the batch size.


	Parameters
	----------
	model: torch.nn.Module
		The PyTorch model to use to make predictions.

	X: torch.tensor, shape=(-1, len(alphabet), length)
		A one-hot encoded set of sequences to make predictions for.

	args: tuple or list or None, optional
		An optional set of additional arguments to pass into the model. If
		provided, each element in the tuple or list is one input to the model
		and the element must be formatted to be the same batch size as `X`. If
		None, no additional arguments are passed into the forward function.
		Default is None.

	batch_size: int, optional
		The number of examples to make predictions for at a time. Default is 32.

	device: str or torch.device, optional
		The device to move the model and batches to when making predictions. If
		set to 'cuda' without a GPU, this function will crash and must be set
		to 'cpu'. Default is 'cuda'. 

	verbose: bool, optional
		Whether to display a progress bar during predictions. Default is False.


	Returns
	-------
	y: torch.Tensor or list/tuple of torch.Tensors
		The output from the model for each input example. The precise format
		is determined by the model. If the model outputs a single tensor,
		y is a single tensor concatenated across all batches. If the model
		outputs multiple tensors, y is a list of tensors which are each
		concatenated across all batches.
	"""

	model = model.to(device).eval()

	try:
		dtype = next(model.parameters()).dtype
	except:
		dtype = X.dtype


	if args is not None:
		for arg in args:
			if arg.shape[0] != X.shape[0]:
				raise ValueError("Arguments must have the same first " +
					"dimension as X")

	###

	y = []
	with torch.no_grad():
		batch_size = min(batch_size, X.shape[0])

		for start in trange(0, X.shape[0], batch_size, disable=not verbose):
			end = start + batch_size
			X_ = X[start:end].to(device).type(dtype)

			if X_.shape[0] == 0:
				continue

			if args is not None:
				args_ = [a[start:end].to(device) for a in args]
				y_ = model(X_, *args_)
			else:
				y_ = model(X_)

			# Move to the CPU
			if isinstance(y_, torch.Tensor):
				y_ = y_.cpu()
			elif isinstance(y_, (list, tuple)):
				y_ = tuple(yi.cpu() for yi in y_)
			else:
				raise ValueError("Cannot interpret output from model.")

			y.append(y_)


	# Concatenate the outputs
	if isinstance(y[0], torch.Tensor):
		y = torch.cat(y)
	else:
		y = [torch.cat(y_) for y_ in list(zip(*y))]

	return y
