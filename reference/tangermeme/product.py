# product.py
# Contact: Jacob Schreiber <jmschreiber91@gmail.com>

import torch
import itertools

from tqdm import tqdm


def _apply(func, model, X, args, batch_size, device, verbose, 
	additional_func_kwargs, **kwargs):
	"""An internal function for applying a function to a batch of data."""

	X = torch.stack(X)
	args = [torch.stack(a) for a in args]

	y = func(model, X, args=args, batch_size=batch_size, device=device, 
		verbose=False, **additional_func_kwargs, **kwargs)

	return y


def apply_pairwise(func, model, X, args=None, batch_size=32, device='cuda', 
	additional_func_kwargs={}, verbose=False, **kwargs):
	"""Apply a function on the cartesian product between X and args.

	This function will take the provided function and apply it in a batched
	manner across the cartesian product of `X` and `args`, with the assumption
	that each arguments in args is the same length. Basically, this function
	should be used when there are two axes on which to apply the function --
	the first being sequence, and the second being anything else -- and each
	of the arguments in `args` describe that second axis. This will return one
	or more tensors whose first axes are (len(X), len(args[0])). This is in
	contrast to `apply_product`, which returns tensors whose first axes would
	be `(len(X), len(args[0]), len(args[1])...). 

	As a more specific example, DragoNNFruit can make predictions for sequences 
	in  each cell in a single-cell experiment. Each cell is represented by a
	vector, which is one of the arguments, but also by a single number that is
	the read depth of the cell. Using `apply_product` would be incorrect in
	this setting because we are not interested in the cross between cell state
	and read depth. Rather, we want the cell state and read depth information
	to be paired. 


	Parameters
	----------
	func: function
		A function, likely implemented in tangermeme, to apply in a batched
		manner across the product of examples.

	model: torch.nn.Module
		The PyTorch model to use to make predictions.

	X: torch.tensor, shape=(-1, len(alphabet), length)
		A one-hot encoded set of sequences to make predictions for.

	args: tuple or list
		A set of additional arguments to pass into the model. Each element in
		`args` should be one tensor that is input to the model. The elements do
		not need to be the same size as each other as a product will be
		constructed over all of them, as well as with `X`. If you only want
		to use one value for an argument across all function applications 

	batch_size: int, optional
		The number of examples to make predictions for at a time. Default is 32.

	device: str or torch.device
		The device to move the model and batches to when making predictions. If
		set to 'cuda' without a GPU, this function will crash and must be set
		to 'cpu'. Default is 'cuda'. 

	additional_func_kwargs: dict, optional
		Additional named arguments to pass into the function when it is called.
		This is provided as an alternate path to route arguments into the 
		function in case they overlap, name-wise, with those in this function,
		or if you want to be absolutely sure that the arguments are making
		their way into the function. Default is {}.

	verbose: bool, optional
		Whether to display a progress bar as spacings are evaluated. Default
		is False.

	kwargs: optional
		Additional named arguments that will get passed into the function when
		it is called. Default is no arguments are passed in.


	Returns
	-------
	y: torch.Tensor or list/tuple of torch.Tensors
		The output from the model for each input example. The precise format
		is determined by the model. If the model outputs a single tensor,
		y is a single tensor concatenated across all batches. If the model
		outputs multiple tensors, y is a list of tensors which are each
		concatenated across all batches.
	"""

	model = model.to(device).eval()

	X_, y, args_ = [], [], [[] for _ in args] 
	for x in tqdm(itertools.product(X, zip(*args)), disable=not verbose):
		X_.append(x[0])

		for i, arg in enumerate(x[1]):
			args_[i].append(arg)

		if len(X_) == batch_size:
			y_ = _apply(func, model, X_, args=args_, batch_size=batch_size, 
				device=device, verbose=verbose, 
				additional_func_kwargs=additional_func_kwargs, **kwargs)
			y.append(y_)

			X_, args_ = [], [[] for _ in args]
	else:
		if len(X_) > 0:
			y_ = _apply(func, model, X_, args=args_, batch_size=batch_size, 
				device=device, verbose=verbose, 
				additional_func_kwargs=additional_func_kwargs, **kwargs)
			y.append(y_)

	Xal = [len(X), len(args[0])]

	# If there is only a single output, just concatenate the tensors
	if isinstance(y[0], torch.Tensor):
		yl = y[0].shape[1:]
		y = torch.cat(y).reshape(*Xal, *yl)
	else:
		_y = []

		# If either the function or the model have multiple outputs, but the
		# other has a single output, then concatenate tensors across the
		# outputs appropriately.
		if isinstance(y[0][0], torch.Tensor):
			for y_ in list(zip(*y)):
				yl = y_[0].shape[1:]
				_y.append(torch.cat(y_).reshape(*Xal, *yl))

		# If both the function and the model have multiple outputs then you
		# have to go one layer deeper when concatenating the tensors.
		else:
			for y_task in list(zip(*y)):
				_y.append([])

				for y_ in list(zip(*y_task)):
					yl = y_[0].shape[1:]
					_y[-1].append(torch.cat(y_).reshape(*Xal, *yl))

		y = _y

	return y


def apply_product(func, model, X, args, batch_size=32, device='cuda', 
	additional_func_kwargs={}, verbose=False, **kwargs):
	"""Apply a function on the cartesian product between X and each args.

	This function will take the provided function and apply it in a batched
	manner across the cartesian product of `X` and each of the arguments 
	provided in `args`. Because this is a cartesian product, the number of
	examples that need to be processed will quickly grow with respect to the
	number of arguments being passed in. Each of the tensors in `args` must
	be one input to `model`, in the order that they are specified by the
	forward function. 

	This function can accept in any other function -- be it predictions,
	attributions, or marginalizations. If the provided function itself has
	parameters that need to be specified, you can provide them directly to
	this function in the order that they appear in the provided function.


	Parameters
	----------
	func: function
		A function, likely implemented in tangermeme, to apply in a batched
		manner across the product of examples.

	model: torch.nn.Module
		The PyTorch model to use to make predictions.

	X: torch.tensor, shape=(-1, len(alphabet), length)
		A one-hot encoded set of sequences to make predictions for.

	args: tuple or list
		A set of additional arguments to pass into the model. Each element in
		`args` should be one tensor that is input to the model. The elements do
		not need to be the same size as each other as a product will be
		constructed over all of them, as well as with `X`. If you only want
		to use one value for an argument across all function applications 

	batch_size: int, optional
		The number of examples to make predictions for at a time. Default is 32.

	device: str or torch.device
		The device to move the model and batches to when making predictions. If
		set to 'cuda' without a GPU, this function will crash and must be set
		to 'cpu'. Default is 'cuda'. 

	additional_func_kwargs: dict, optional
		Additional named arguments to pass into the function when it is called.
		This is provided as an alternate path to route arguments into the 
		function in case they overlap, name-wise, with those in this function,
		or if you want to be absolutely sure that the arguments are making
		their way into the function. Default is {}.

	verbose: bool, optional
		Whether to display a progress bar as spacings are evaluated. Default
		is False.

	kwargs: optional
		Additional named arguments that will get passed into the function when
		it is called. Default is no arguments are passed in.


	Returns
	-------
	y: torch.Tensor or list/tuple of torch.Tensors
		The output from the model for each input example. The precise format
		is determined by the model. If the model outputs a single tensor,
		y is a single tensor concatenated across all batches. If the model
		outputs multiple tensors, y is a list of tensors which are each
		concatenated across all batches.
	"""

	model = model.to(device).eval()

	X_, y, args_ = [], [], [[] for _ in args] 
	for x in tqdm(itertools.product(X, *args), disable=not verbose):
		X_.append(x[0])

		for i, arg in enumerate(x[1:]):
			args_[i].append(arg)

		if len(X_) == batch_size:
			y_ = _apply(func, model, X_, args=args_, batch_size=batch_size, 
				device=device, verbose=verbose, 
				additional_func_kwargs=additional_func_kwargs, **kwargs)
			y.append(y_)

			X_, args_ = [], [[] for _ in args]
	else:
		if len(X_) > 0:
			y_ = _apply(func, model, X_, args=args_, batch_size=batch_size, 
				device=device, verbose=verbose,
				additional_func_kwargs=additional_func_kwargs, **kwargs)
			y.append(y_)

	Xal = [len(X)] + [len(a) for a in args]

	# If there is only a single output, just concatenate the tensors
	if isinstance(y[0], torch.Tensor):
		yl = y[0].shape[1:]
		y = torch.cat(y).reshape(*Xal, *yl)
	else:
		_y = []

		# If either the function or the model have multiple outputs, but the
		# other has a single output, then concatenate tensors across the
		# outputs appropriately.
		if isinstance(y[0][0], torch.Tensor):
			for y_ in list(zip(*y)):
				yl = y_[0].shape[1:]
				_y.append(torch.cat(y_).reshape(*Xal, *yl))

		# If both the function and the model have multiple outputs then you
		# have to go one layer deeper when concatenating the tensors.
		else:
			for y_task in list(zip(*y)):
				_y.append([])

				for y_ in list(zip(*y_task)):
					yl = y_[0].shape[1:]
					_y[-1].append(torch.cat(y_).reshape(*Xal, *yl))

		y = _y

	return y
