# marginalize.py
# Contact: Jacob Schreiber <jmschreiber91@gmail.com>

import numpy
import torch

from .utils import one_hot_encode
from .ersatz import substitute
from .predict import predict


def marginalize(model, X, motif, start=None, alphabet=['A', 'C', 'G', 'T'], 
	func=predict, additional_func_kwargs={}, **kwargs):
	"""Apply a function before and after substituting a motif into sequences.

	A marginalization experiment is one where a function is applied before
	and after substituting something into a set of sequences. It is named as 
	such because the sequences are meant to be background sequences and
	difference in output before and after the substitution represent the
	"marginal" effect of adding that something into the sequences. When you are
	adding a motif to the sequence, the difference in output can be interpreted 
	as the effect that motif has on the function in isolation.

	By default, `marginalize` will apply the `predict` function to `X` before
	and after substituting in a one-hot encoded version of `motif`. However,
	one can pass in any function, including `deep_lift_shap` or even
	`saturated_mutagenesis`. These functions may have additional arguments
	and those can be passed into `marginalize` as-is and will be passed along
	to the function. If any arguments would have had the same name as those
	used by this function, you can use the `additional_func_kwargs` input to
	ensure those values get to the function.

	Naturally, most models being used with tangermeme will be non-linear and
	so the marginal effect of each motif is only somewhat useful because motifs
	do not occur in isolation in the genome. Other functions, such as `space`,
	can be invaluable in seeing how motifs interact with each other. However,
	looking at the marginal effect of each motif can still be invaluable
	because it gives you a sense for what motifs yield an effect at all and
	roughly how strong that effect is.
	

	Parameters
	----------
	model: torch.nn.Module
		A PyTorch model to use for making predictions. These models can take in
		any number of inputs and make any number of outputs. The additional
		inputs must be specified in the `args` parameter.

	X: torch.tensor, shape=(-1, len(alphabet), length)
		A one-hot encoded set of sequences to have a motif inserted into.

	motif: torch.tensor, shape=(-1, len(alphabet), motif_length)
		A one-hot encoded version of a short motif to insert into the set of
		sequences.

	start: int or None, optional
		The starting position of where to insert the motif. If None, insert the
		motif into the middle of the sequence such that the middle of the motif
		occurs at the middle of the sequence. Default is None.

	alphabet : set or tuple or list, optional
		A pre-defined alphabet where the ordering of the symbols is the same
		as the index into the returned tensor, i.e., for the alphabet ['A', 'B']
		the returned tensor will have a 1 at index 0 if the character was 'A'.
		Characters outside the alphabet are ignored and none of the indexes are
		set to 1. This is not necessary or used if a one-hot encoded tensor is
		provided for the motif. Default is ['A', 'C', 'G', 'T'].

	func: function, optional
		A function to apply before and after making the substitution. Default 
		is `predict`.

	additional_func_kwargs: dict, optional
		Additional named arguments to pass into the function when it is called.
		This is provided as an alternate path to route arguments into the 
		function in case they overlap, name-wise, with those in this function,
		or if you want to be absolutely sure that the arguments are making
		their way into the function. Default is {}.

	kwargs: optional
		Additional named arguments that will get passed into the function when
		it is called. Default is no arguments are passed in.


	Returns
	-------
	y_before: torch.Tensor or list of torch.Tensors
		The output from the function before inserting the motif in. If the
		output is a single tensor, it will return that. If the model outputs a 
		list of tensors, it will return those.

	y_after: torch.Tensor or list of torch.Tensors
		The output from the function after inserting the motif in. If the
		output from the model's forward function is a single tensor, it will
		return that. If the model outputs a list of tensors, it will return
		those.
	"""

	additional_func_kwargs = additional_func_kwargs or {}

	X_perturb = substitute(X, motif, start=start, alphabet=alphabet)
	y_before = func(model, X, **kwargs, **additional_func_kwargs)
	y_after = func(model, X_perturb, **kwargs, **additional_func_kwargs)

	return y_before, y_after


def marginalize_annotations(model, X, X0, annotations, **kwargs):
	"""Perform marginalizations on each annotation individually.

	This function takes in a model, a set of sequences, a set of background
	sequences, and a set of annotations, and returns the marginalization values
	for each annotation. For each annotation, the sequence in `X` is extracted
	and substituted into `X0` with predictions returned for `X0` before and
	after the substitution is performed, similar to the `saturation_mutagenesis`
	function. Each marginalization is done individually.

	This function will extract the sequence in each annotation and perform a
	marginalization on it individually. 


	Parameters
	----------
	model: torch.nn.Module
		A PyTorch model to use for making predictions. These models can take in
		any number of inputs and make any number of outputs. The additional
		inputs must be specified in the `args` parameter.

	X: torch.tensor, shape=(-1, len(alphabet), length)
		A one-hot encoded set of sequences corresponding to the annotations.

	X0: torch.tensor, shape=(-1, len(alphabet), length)
		A one-hot encoded set of sequences that motifs will be substituted into.

	annotations: torch.Tensor, shape=(n_annotations, 3)
		A tensor of annotations where the first column is the example_idx, the
		second column is the start position (0-indexed) and the third column is
		the end position (0-indexed, not inclusive).

	kwargs: arguments
		Additional optional arguments to pass into the `ablate` function.

	
	Returns
	-------
	y_befores: torch.Tensor or list of torch.Tensors
		The application of `func` from the model BEFORE inserting the motif. If 
		the output from the model's forward function is a single tensor, it will 
		return that. If the model outputs a list of tensors, it will return 
		those.

	y_afters: torch.Tensor or list of torch.Tensors
		The application of `func` from the model AFTER inserting the motif. If 
		the output from the model's forward function is a single tensor, it will
		return that. If the model outputs a list of tensors, it will return
		those.
	"""

	y_befores, y_afters = [], []

	for idx, start, end in annotations:
		seq = X[idx, :, start:end].unsqueeze(0)

		y_before, y_after = marginalize(model, X0, seq, **kwargs)
		y_befores.append(y_before)
		y_afters.append(y_after)

	if isinstance(y_afters[0], torch.Tensor):
		y_befores = torch.stack(y_befores)
		y_afters = torch.stack(y_afters)
	else:
		y_befores = [torch.stack([x[i] for x in y_befores]) for i in range(len(
			y_befores[0]))]
		y_afters = [torch.stack([x[i] for x in y_afters]) for i in range(len(
			y_afters[0]))]

	return y_befores, y_afters
	