# seqlet.py
# Authors: Jacob Schreiber <jmschreiber91@gmail.com>
# adapted from code written by Avanti Shrikumar 

import math
import numpy
import numba
import torch
import pandas

from .utils import _validate_input
from .utils import characters

from sklearn.isotonic import IsotonicRegression

from .tools.tomtom import tomtom


def _laplacian_null(X_sum, num_to_samp=10000, random_state=1234):
	"""An internal function for calculating a null distribution.

	The TF-MoDISCo seqlet calling procedure works by constructing a null
	distribution of values using Laplacian distributions for the positive and
	negative values separately. This method constructs those Laplacian
	distributions and then samples a given number of values from them.


	Parameters
	----------
	X_sum: torch.Tensor, shape=(-1, length)
		A tensor of summed attribution values over the provided window size.

	num_to_samp: int
		The number of values to sample from the fit Laplacian distributions.

	random_state: int, optional
		The random state to use for the sampling. Default is 1234.


	Returns
	-------
	pos_values: torch.Tensor, shape=(-1,)
		A vector of sampled values from the Laplacian distribution fit to the
		positive values.

	neg_values: torch.Tensor, shape=(-1,)
		A vector of sampled values from the Laplacian distribution fit to the
		negative values.
	"""

	values = X_sum.flatten()

	hist, bin_edges = torch.histogram(values, bins=1000)
	peak = torch.argmax(hist)
	l_edge, r_edge = bin_edges[peak:peak+2]
	top_values = values[(l_edge < values) & (values < r_edge)]

	hist, bin_edges = torch.histogram(top_values, bins=1000)
	peak = torch.argmax(hist)
	mu = (bin_edges[peak] + bin_edges[peak+1]).item() / 2

	pos_values = values[values >= mu]
	neg_values = values[values <=mu]

	#Take the most aggressive lambda over all percentiles
	quantiles = torch.arange(19) * 5. / 100
	lq = -torch.log(1 - quantiles)
	pos_q = torch.quantile(a=pos_values, q=quantiles)
	neg_q = torch.quantile(a=neg_values, q=1-quantiles)

	pos_lambda = torch.max(lq / (pos_q - mu))
	neg_lambda = torch.max(lq / (torch.abs(neg_q - mu)))

	prob_pos = len(pos_values) / len(values) 
	urand = torch.from_numpy(numpy.random.RandomState(random_state).uniform(
		size=(num_to_samp, 2)))

	icdf = numpy.log(1 - urand[:, 1])

	sampled_vals = torch.where(urand[:, 0] < prob_pos, -icdf / pos_lambda + mu, 
		mu + icdf / neg_lambda)
	return sampled_vals[sampled_vals >= 0], sampled_vals[sampled_vals < 0]


def _iterative_extract_seqlets(X_sum, window_size, flank, suppress):
	"""This internal function iteratively identifies seqlets.

	This function extracts seqlets from the signal by iteratively identifying 
	the position across all examples with maximum windowed attribution sum and
	zeroing out the attributions around that position to ensure another seqlet
	cannot be identified from the same position.


	Parameters
	----------
	X_sum: torch.Tensor, shape=(-1, length)
		A tensor of summed attribution values over the provided window size.

	window_size: int
		The size of the window of attribution values to sum over when
		identifying seqlets. This is not the only component of seqlet size but
		is the most important.

	flank: int
		A number of characters on either end of the window to add to each
		seqlet. This is done primarily to remove the effect of surrounding
		positions and not have overlapping seqlets.

	suppress: int
		The number of positions to the left and right of the maximum attribution
		position to zero out the attributions of.


	Returns
	-------
	seqlets: list
		A list of tuples containing the example index, the start of the seqlet,
		the end of the seqlet, and the sum of attributions within the seqlet.
	"""

	n, d = X_sum.shape
	seqlets = []
	for i in range(n):
		while True:
			argmax = numpy.argmax(X_sum[i], axis=0)
			max_val = X_sum[i, argmax]
			if max_val == -numpy.inf:
				break

			seqlet = i, argmax - flank, argmax + window_size + flank
			seqlets.append(seqlet)

			l_idx = int(max(numpy.floor(argmax + 0.5 - suppress), 0))
			r_idx = int(min(numpy.ceil(argmax + 0.5 + suppress), d))
			X_sum[i, l_idx:r_idx] = -numpy.inf 

	return seqlets


def _isotonic_thresholds(values, null_values, increasing, target_fdr, 
	min_frac_neg=0.95):
	"""This function uses an isotonic regression to find FDR thresholds.

	Given a set of attribution values summed over the provided window and a
	set of sampled negative values from the Laplacian distribution, find the
	threshold at which real attributions are separated from the null values at
	a given FDR threshold.

	As an implementation note, this method uses the scikit-learn
	IsotonicRegression function. This method seems to accept PyTorch tensors
	as input but these tensors will be moved over to the CPU to make sure
	they are compatible. Even if other operations are done on the GPU, the
	isotonic regression component must be done on the CPU.


	Parameters
	----------
	values: torch.Tensor, shape=(-1,)
		Sampled attribution window sums from the real data.

	null_values: torch.Tensor, shape=(-1,)
		Sampled values from the Laplacian distribution that represents the null
		data.

	increasing: bool
		Whether the data should be modeled as increasing or decreasing in size.

	target_fdr: float
		The FDR threshold to use to separate positive and negative attribution
		values.

	min_frac_neg: float, optional
		The minimum number of values that need to be assigned to the null
		distribution. Default is 0.95.


	Returns
	-------
	threshold: float
		A single value representing the threshold to use on attribution window
		sums to separate seqlets from background given the FDR threshold.
	"""

	n1, n2 = len(values), len(null_values)

	X = torch.cat([values, null_values], axis=0).cpu()
	y = torch.cat([torch.ones(n1), torch.zeros(n2)], axis=0)

	w = len(values) / len(null_values)
	sample_weight = torch.cat([torch.ones(n1), torch.ones(n2)*w], axis=0)

	model = IsotonicRegression(out_of_bounds='clip', increasing=increasing)
	model.fit(X, y, sample_weight=sample_weight)
	y_hat = torch.from_numpy(model.transform(values))


	min_prec_x = model.X_min_ if increasing else model.X_max_
	min_precision = max(model.transform([min_prec_x])[0], 1e-7)
	implied_frac_neg = -1 / (1 - (1 / min_precision))

	if (implied_frac_neg > 1.0 or implied_frac_neg < min_frac_neg):
		implied_frac_neg = max(min(1.0,implied_frac_neg), min_frac_neg)

	precisions = torch.minimum(torch.maximum(1 + implied_frac_neg*(
		1 - (1 / torch.maximum(y_hat, torch.tensor(1e-7)))), torch.tensor(0.0)), 
			torch.tensor(1.0))
	precisions[-1] = 1
	return values[precisions >= (1 - target_fdr)][0].item()


def tfmodisco_seqlets(X_attr, window_size=21, flank=10, target_fdr=0.2, 
	min_passing_frac=0.03, max_passing_frac=0.2, 
	weak_threshold_for_counting_sign=0.8):
	"""Extract seqlets using the procedure from TF-MoDISco.

	Seqlets are contiguous spans of high attribution characters. This method
	for identifying them is the one that is implemented in the TF-MoDISco
	algorithm. Importantly, TF-MoDISco does several post-processing steps
	on these seqlets that are interleaved in the pattern identification 
	procedure so the final set of seqlets actually used by patterns in 
	TF-MoDISco will be smaller than the set that are returned here.

	The seqlets returned by this procedure have been optimized to be useful
	for motif discovery, and so are generally much longer and less sensitive
	than one might initially expect. The seqlets are longer because the local
	context that patterns occur in might be useful, and because uninformative
	characters on the flanks can easily be trimmed off. The seqlets are also
	less sensitive, in the sense that sometimes spans that one might call a
	seqlet by eye are missed, to prevent noise from contaminating the found
	patterns.


	Parameters
	----------
	X_attr: torch.Tensor, shape=(-1, length)
		A tensor of attribution values for each position in the sequence.
		The attributions here will be summed across the length of the alphabet
		so the values must be amenable to that. This means that, most likely,
		it should be attribution values multiplied by the one-hot encodings
		so only the present characters have attributions.

	window_size: int, optional
		The size of the window of attribution values to sum over when
		identifying seqlets. This is not the only component of seqlet size but
		is the most important. Default is 21.

	flank: int, optional
		A number of characters on either end of the window to add to each
		seqlet. This is done primarily to remove the effect of surrounding
		positions and not have overlapping seqlets. Default is 10.

	target_fdr: float, optional
		A FDR value to set on attribution score sums over windows when 
		separating called seqlets from background. Default is 0.2.

	min_passing_frac: float, optional
		Require that at least this proportion of windows pass seqlet 
		identification. Default is 0.03.

	max_passing_frac: float, optional 
		Require that no more than this proportion of windows pass seqlet
		identification. Default is 0.2.

	weak_threshold_for_counting_sign: float, optional
		A minimal threshold to use when setting the final threshold value
		separating seqlets from non-seqlets.


	Returns
	-------
	seqlets: pandas.DataFrame, shape=(-1, 4)
		A tensor containing the example index, start position, end position,
		and attribution sum for each seqlet that passes the thresholds.
	"""

	_validate_input(X_attr, "X_attr", shape=(-1, -1)) 
	suppress = int(0.5*window_size) + flank

	X_sum = X_attr.unfold(-1, window_size, 1).sum(dim=-1)
	values = X_sum.flatten()
	if len(values) > 1000000:
		values = torch.from_numpy(numpy.random.RandomState(1234).choice(
			a=values, size=1000000, replace=False))
	
	pos_values = values[values >= 0]
	neg_values = values[values < 0]
	pos_null_values, neg_null_values = _laplacian_null(X_sum)

	pos_threshold = _isotonic_thresholds(pos_values, pos_null_values, 
		increasing=True, target_fdr=target_fdr)
	neg_threshold = _isotonic_thresholds(neg_values, neg_null_values,
		increasing=False, target_fdr=target_fdr)

	values = torch.cat([pos_values, neg_values])
	frac_passing = (sum(values >= pos_threshold) + 
		sum(values <= neg_threshold)) / len(values)

	if frac_passing < min_passing_frac:
		pos_threshold = torch.quantile(torch.abs(values), q=1-min_passing_frac) 
		neg_threshold = -pos_threshold

	if frac_passing > max_passing_frac:
		pos_threshold = torch.quantile(torch.abs(values), q=1-max_passing_frac) 
		neg_threshold = -pos_threshold

	distribution = torch.sort(torch.abs(X_sum.flatten()))[0]

	transformed_pos_threshold = numpy.sign(pos_threshold) * numpy.searchsorted(
		distribution, v=abs(pos_threshold)) / len(distribution)
	transformed_neg_threshold = numpy.sign(neg_threshold) * numpy.searchsorted(
		distribution, v=abs(neg_threshold)) / len(distribution)

	idxs = (X_sum >= pos_threshold) | (X_sum <= neg_threshold)

	X_sum[idxs] = numpy.abs(X_sum[idxs])
	X_sum[~idxs] = -numpy.inf

	if flank > 0:
		X_sum[:, :flank] = -numpy.inf
		X_sum[:, -flank:] = -numpy.inf

	seqlets = _iterative_extract_seqlets(X_sum=X_sum, window_size=window_size,
		flank=flank, suppress=suppress)

	#find the weakest transformed threshold used across all tasks
	weak_thresh = min(min(transformed_pos_threshold, 
		abs(transformed_neg_threshold)) - 0.0001, 
			weak_threshold_for_counting_sign)

	threshold = distribution[int(weak_thresh * len(distribution))]

	seqlets_ = []
	for example_id, start, end, in seqlets:
		attr_flank = int(0.5 * ((end-start) - window_size))
		attr_start, attr_end = start + attr_flank, end - attr_flank
		attr = X_attr[example_id, attr_start:attr_end].sum(dim=-1).item()

		seqlet = example_id, start.item(), end.item(), attr
		seqlets_.append(seqlet)

	names = 'example_idx', 'start', 'end', 'attribution'
	return pandas.DataFrame(seqlets_, columns=names)


###


@numba.njit
def _recursive_seqlets(X, threshold=0.01, min_seqlet_len=4, max_seqlet_len=25, 
	additional_flanks=0):
	"""An internal function implementing the recursive seqlet algorithm."""

	n, l = X.shape

	X_csum = numpy.empty_like(X)
	for i in range(n):
		X_csum[i, 0] = X[i, 0]    
		for j in range(1, l):
			X_csum[i, j] = X_csum[i, j-1] + X[i, j]

	xmins = numpy.empty(max_seqlet_len+1, dtype=numpy.float64)
	xmaxs = numpy.empty(max_seqlet_len+1, dtype=numpy.float64)
	X_cdfs = numpy.zeros((2, max_seqlet_len+1, 1000), dtype=numpy.float64)

	for j in range(min_seqlet_len, max_seqlet_len+1):
		xmin, xmax = 0.0, 0.0
		n_pos, n_neg = 0.0, 0.0
		
		for i in range(n):
			for k in range(l-j):
				x_ = X_csum[i, k+j] - X_csum[i, k]

				if x_ > 0:
					xmax = max(x_, xmax)
					n_pos += 1.0
				else:
					xmin = min(x_, xmin)
					n_neg += 1.0
		
		xmins[j] = xmin
		xmaxs[j] = xmax

		p_pos, p_neg = 1 / n_pos, 1 / n_neg
		for i in range(n):
			for k in range(l-j):
				x_ = X_csum[i, k+j] - X_csum[i, k]

				if x_ > 0:
					x_int = math.floor(999 * x_ / xmax)
					X_cdfs[0, j, x_int] += p_pos
				else:
					x_int = math.floor(999 * x_ / xmin)
					X_cdfs[1, j, x_int] += p_neg
					

		for i in range(1, 1000):
			X_cdfs[0, j, i] += X_cdfs[0, j, i-1]
			X_cdfs[1, j, i] += X_cdfs[1, j, i-1]
			
			X_cdfs[0, j, i-1] = 1 - X_cdfs[0, j, i-1]
			X_cdfs[1, j, i-1] = 1 - X_cdfs[1, j, i-1]
		
		X_cdfs[0, j, -1] = 1 - X_cdfs[0, j, -1]
		X_cdfs[1, j, -1] = 1 - X_cdfs[1, j, -1]
	
	###

	p_value = numpy.ones((max_seqlet_len+1, l), dtype=numpy.float64)
	seqlets = []

	for i in range(n):
		for j in range(min_seqlet_len, max_seqlet_len+1):
			for k in range(1, l-j):
				x_ = X_csum[i, k+j-1] - X_csum[i, k-1]

				if x_ > 0:
					x_int = math.floor(999 * x_ / xmaxs[j])
					p_value[j, k] = X_cdfs[0, j, x_int]
				else:
					x_int = math.floor(999 * x_ / xmins[j])
					p_value[j, k] = X_cdfs[1, j, x_int]
				
				if j > min_seqlet_len:
					p_value[j, k] = max(p_value[j-1, k], p_value[j, k])

		###
			
		for j in range(max_seqlet_len - min_seqlet_len):
			j = max_seqlet_len - j
			
			while True:
				start = p_value[j].argmin()
				p = p_value[j, start]
				p_value[j, start] = 1
	
				if p > threshold:
					break
	
				end = start
				for k in range(j - min_seqlet_len):
					if p_value[j-k, end+1] < threshold:
						end += 1
					else:
						break
				else:
					start = max(start - additional_flanks, 0)
					end = min(end + min_seqlet_len + additional_flanks - 1, l)
					attr = X_csum[i, end-1]
					if start > 0:
						attr -= X_csum[i, start-1]
					seqlets.append((i, start, end, attr, p))

					for n_idx in range(max_seqlet_len+1):
						for s_idx in range(start, end):
							p_value[n_idx, s_idx] = 1

	return seqlets
		
	

def recursive_seqlets(X, threshold=0.01, min_seqlet_len=4, max_seqlet_len=25, 
	additional_flanks=0):
	"""A seqlet caller implementing the recursive seqlet algorithm.

	This algorithm identifies spans of high attribution characters, called
	seqlets, using a simple approach derived from the TOMTOM/FIMO algorithms.
	First, distributions of attribution sums are created for all potential
	seqlet lengths by discretizing the sum, with one set of distributions for
	positive attribution values and one for negative attribution values. Then,
	CDFs are calculated for each distribution (or, more specifically, 1-CDFs).
	Finally, p-values are calculated via lookup to these 1-CDFs for all
	potential CDFs, yielding a (n_positions, n_lengths) matrix of p-values.

	This algorithm then identifies seqlets by defining them to have a key
	property: all internal spans of a seqlet must also have been called a
	seqlet. This means that all spans from `min_seqlet_len` to `max_seqlet_len`,
	starting at any position in the seqlet, and fully contained by the borders,
	must have a p-value below the threshold. Functionally, this means finding
	entries where the upper left triangle rooted in it is comprised entirely of
	values below the threshold. Graphically, for a candidate seqlet starting at
	X and ending at Y to be called a seqlet, all the values within the bounds
	(in addition to X) must also have a p-value below the threshold.


							min_seqlet_len
                             --------
	. . . . . . . | . . . . / . . . . . . . .
	. . . . . . . | . . . / . . . . . . . . .
	. . . . . . . | . . / . . . . . . . . . .
	. . . . . . . | . / . . . . . . . . . . .
	. . . . . . . | / . . . . . . . . . . . .
	. . . . . . . X . . . . . . . . Y . . . .
	. . . . . . . . . . . . . . . . . . . . .
	. . . . . . . . . . . . . . . . . . . . .

	
	The seqlets identified by this approach will usually be much smaller than
	those identified by the TF-MoDISco approach, including sometimes missing
	important characters on the flanks. You can set `additional_flanks` to 
	a higher value if you want to include additional positions on either side.
	Importantly, the initial seqlet calls cannot overlap, but these additional
	characters are not considered when making that determination. This means
	that seqlets may appear to overlap when `additional_flanks` is set to a
	higher value.


	Parameters
	----------
	X: torch.Tensor or numpy.ndarray, shape=(-1, length)
		Attributions for each position in each example. The identity of the
		characters is not relevant for seqlet calling, so this should be the
		"projected" attributions, i.e., the attribution of the observed
		characters.

	threshold: float, optional
		The p-value threshold for calling seqlets. All positions within the
		triangle (as detailed above) must be below this threshold. Default is
		0.01.

	min_seqlet_len: int, optional
		The minimum length that a seqlet must be, and the minimal length of
		span that must be identified as a seqlet in the recursive property.
		Default is 4.

	max_seqlet_len: int, optional
		The maximum length that a seqlet can be. Default is 25.

	additional_flanks: int, optional
		An additional value to subtract from the start, and to add to the end,
		of all called seqlets. Does not affect the called seqlets.


	Returns
	-------
	seqlets: pandas.DataFrame, shape=(-1, 5)
		A BED-formatted dataframe containing the called seqlets, ranked from
		lowest p-value to higher p-value. The returned p-value is the p-value
		of the (location, length) span and is not influenced by the other
		values within the triangle. 
	"""

	if isinstance(X, torch.Tensor):
		X = X.numpy()
	elif not isinstance(X, numpy.ndarray):
		raise ValueError("`X` must be either a torch.Tensor or numpy.ndarray.")


	columns = ['example_idx', 'start', 'end', 'attribution', 'p-value']
	seqlets = _recursive_seqlets(X, threshold, min_seqlet_len, max_seqlet_len, 
		additional_flanks)
	seqlets = pandas.DataFrame(seqlets, columns=columns)
	return seqlets.sort_values("p-value").reset_index(drop=True)
    