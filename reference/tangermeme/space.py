# space.py
# Contact: Jacob Schreiber <jmschreiber91@gmail.com>

import numpy
import torch

from .utils import _validate_input
from .utils import _cast_as_tensor
from .utils import one_hot_encode

from .ersatz import multisubstitute
from .predict import predict

from tqdm import tqdm


def space(model, X, motifs, spacing, start=None, alphabet=['A', 'C', 'G', 'T'], 
	func=predict, additional_func_kwargs={}, verbose=False, **kwargs):
	"""Runs a single spacing experiment and returns predictions.

	Given a predictive model, a set of motifs to insert and the spacings
	between them, and a set of background sequences, return the predictions 
	from the model when using the background sequences and after inserting 
	the motifs into the sequences.


	Parameters
	----------
	model: torch.nn.Module
		A PyTorch model to use for making predictions. These models can take in
		any number of inputs and make any number of outputs. The additional
		inputs must be specified in the `args` parameter.

	X: torch.tensor, shape=(-1, len(alphabet), length)
		A one-hot encoded set of sequences to have a motif inserted into.

	motifs: list of torch.tensor, shape=(-1, len(alphabet), motif_length)
		A list of strings or of one-hot encoded version of a short motif to 
		substitute into the set of sequences.

	spacing: torch.Tensor, shape=(-1, len(motifs)-1)
		A tensor specifying all spacings between motifs to consider. Each row
		in this tensor is a different combination of spacings between motifs
		and each column is the spacing between an adjacent pair of motifs.
		Specifically, the 1st column corresponds to the spacing between the
		first and second motif, the 2nd column corresponds to the spacing
		between the second and third motif, etc. 

	start: int or None, optional
		The starting position of where to insert the motif. If None, insert the
		motif into the middle of the sequence such that the middle of the motif
		occurs at the middle of the sequence. Default is None.

	alphabet : set or tuple or list, optional
		A pre-defined alphabet where the ordering of the symbols is the same
		as the index into the returned tensor, i.e., for the alphabet ['A', 'B']
		the returned tensor will have a 1 at index 0 if the character was 'A'.
		Characters outside the alphabet are ignored and none of the indexes are
		set to 1. This is not necessary or used if a one-hot encoded tensor is
		provided for the motif. Default is ['A', 'C', 'G', 'T'].

	func: function, optional
		A function to apply before and after making the substitutions. Default 
		is `predict`.

	additional_func_kwargs: dict, optional
		Additional named arguments to pass into the function when it is called.
		This is provided as an alternate path to route arguments into the 
		function in case they overlap, name-wise, with those in this function,
		or if you want to be absolutely sure that the arguments are making
		their way into the function. Default is {}.

	verbose: bool, optional
		Whether to display a progress bar as spacings are evaluated. Default
		is False.

	kwargs: optional
		Additional named arguments that will get passed into the function when
		it is called. Default is no arguments are passed in.


	Returns
	-------
	y_befores: torch.Tensor or list of torch.Tensors
		The predictions from the model before inserting the motif in. If the
		output from the model's forward function is a single tensor, it will
		return that. If the model outputs a list of tensors, it will return
		those.

	y_afters: torch.Tensor or list of torch.Tensors
		The predictions from the model after inserting the motif in. If the
		output from the model's forward function is a single tensor, it will
		return that. If the model outputs a list of tensors, it will return
		those.
	"""

	spacing = _validate_input(_cast_as_tensor(spacing, dtype=torch.int32), 
		"spacing", shape=(-1, len(motifs)-1))

	y_befores, y_afters = [], []

	for _spacing in tqdm(spacing, disable=not verbose):
		_spacing = [s.item() for s in _spacing]
		X_perturb = multisubstitute(X, motifs, _spacing, start=start, 
			alphabet=alphabet)

		y_before = func(model, X, **kwargs, **additional_func_kwargs)
		y_befores.append(y_before)

		y_after = func(model, X_perturb, **kwargs, **additional_func_kwargs)
		y_afters.append(y_after)

	if isinstance(y_befores[0], torch.Tensor):
		y_befores = torch.stack(y_befores).transpose(0, 1)
		y_afters = torch.stack(y_afters).transpose(0, 1)
	else:
		y_befores = [torch.stack(y_).transpose(0, 1) for y_ in list(zip(
			*y_befores))]
		y_afters = [torch.stack(y_).transpose(0, 1) for y_ in list(zip(
			*y_afters))]

	return y_befores, y_afters
