# fimo.py
# Author: Jacob Schreiber <jmschreiber91@gmail.com>

import math
import numba
import numpy
import torch
import pandas
import pyfaidx
import time

from ..io import read_meme

from tqdm import tqdm

@numba.njit('float64(float64, float64)', cache=True)
def logaddexp2(x, y):
	"""Calculate the logaddexp in a numerically stable manner in base 2.

	This function is a fast implementation of the logaddexp2 function that
	operates on two numbers and is numerically stable. It should mimic the
	functionality of numpy.logaddexp2 except that it does not have the overhead
	of working on numpy arrays.


	Parameters
	----------
	x: float32
		A single number in log space.

	y: float32
		Another single number in log space.


	Returns
	-------
	z: float32
		The result of log2(pow(2, x) + pow(2, y))
	"""

	if x == float("-inf") and y == float("-inf"):
		return float("-inf")

	if x == float("inf") or y == float("inf"):
		return float("inf")

	vmax, vmin = max(x, y), min(x, y)
	return vmax + math.log2(math.pow(2, vmin - vmax) + 1)


@numba.njit(cache=True)
def _pwm_to_mapping(log_pwm, bin_size):
	"""An internal method for calculating score <-> log p-value mappings.

	This function takes in a PWM consisting of log probabilities and outputs
	a mapping between observed scores (as a convolution of the PWM across a
	one-hot encoded sequence) and log p-values. This mapping is calculated 
	quickly using dynamic programming scanning over all potential sequences.

	Importantly, the p-values are in log space meaning that values near zero
	at the start of the array are insignificant whereas those with large 
	magnitude towards the end of the array are more statistically significant.


	Parameters
	----------
	log_pwm: numpy.ndarray, shape=(len(alphabet), length)
		A position-weight matrix containing a motif encoded as the log
		probability of any character in any position.

	bin_size: float
		The size of the score bins to map to p-values. The smaller this value,
		the more bins, indicating higher precision but also longer calculation
		time.


	Returns
	-------
	smallest: int
		The number of bins between true zero and the smallest value in the
		array. In other words, the offset to subtract from binned scores to get
		p-values.

	log1mcdf: numpy.ndarray
		The log of 1 minus the cdf, or in other words, the log p-values
		associated with each score bin.
	"""

	n, l = log_pwm.shape

	log_bg = math.log2(0.25)
	int_log_pwm = numpy.round(log_pwm / bin_size).astype(numpy.int32)

	smallest, largest = 9999999, -9999999
	log_pwm_min_csum, log_pwm_max_csum = 0, 0
	for i in range(l):
		log_pwm_min = 9999999
		log_pwm_max = -9999999

		for j in range(n):
			log_pwm_min = min(log_pwm_min, int_log_pwm[j, i])
			log_pwm_max = max(log_pwm_max, int_log_pwm[j, i])

		log_pwm_min_csum += log_pwm_min
		log_pwm_max_csum += log_pwm_max

		smallest = min(smallest, log_pwm_min_csum)
		largest = max(largest, log_pwm_max_csum)

	largest += l

	logpdf = numpy.empty(largest - smallest + 1)
	old_logpdf = -numpy.inf * numpy.ones(largest - smallest + 1)
	for i in range(n):
		idx = int_log_pwm[i, 0] - smallest
		old_logpdf[idx] = logaddexp2(old_logpdf[idx], log_bg)

	logpdf[:] = old_logpdf

	for i in range(1, l):
		for j in range(largest - smallest + 1):
			logpdf[j] = -numpy.inf

		for j, x in enumerate(old_logpdf):
			if x != -numpy.inf:
				for k in range(n):
					idx = j + int_log_pwm[k, i]
					logpdf[idx] = logaddexp2(logpdf[idx], log_bg + x)

		for j in range(largest - smallest + 1):
			old_logpdf[j] = logpdf[j]

	for i in range(len(logpdf) - 2, -1, -1):
		logpdf[i] = logaddexp2(logpdf[i], logpdf[i + 1])

	return smallest, logpdf


@numba.njit(parallel=True, cache=True)
def _all_pwm_to_mapping(motifs, motif_lengths, bin_size):
	n = len(motif_lengths) - 1

	smallests = numpy.empty(n, dtype='int64')
	logpdfs = [numpy.empty(0) for i in range(n)]

	for i in numba.prange(n):
		s, e = motif_lengths[i], motif_lengths[i+1]

		smallest, logpdf = _pwm_to_mapping(motifs[:, s:e], bin_size)
		smallests[i] = smallest
		logpdfs[i] = logpdf

	return smallests, logpdfs


@numba.njit(parallel=True, fastmath=True, cache=True)
def _fast_hits(X, chrom_lengths, pwm, pwm_lengths, score_threshold, bin_size, 
	smallest, score_to_pvals, score_to_pval_lengths):
	n_motifs = len(pwm_lengths) - 1
	n_chroms = len(chrom_lengths) - 1

	hits = []
	for i in range(n_motifs):
		j = numpy.int64(1)
		k = numpy.uint64(1)
		l = numpy.float64(1.0)
		hits.append([(j, k, k, l, l) for z in range(0)])

	for k in numba.prange(n_motifs):
		n = pwm_lengths[k+1] - pwm_lengths[k]
		k = numpy.uint64(k)
		thresh = score_threshold[k]
		
		for l in range(n_chroms):        
			start = numpy.uint64(chrom_lengths[l])
			end = numpy.uint64(chrom_lengths[l+1])
			
			for i in range(end-start-n+1):
				i = numpy.uint64(i)
				
				score = 0.0
				for j in range(n):
					j = numpy.uint64(j)
					
					idx = X[start+i+j]
					if idx == -1:
						continue

					m_idx = numpy.uint64(j + pwm_lengths[k])
					idx = numpy.uint64(idx)
					score += pwm[idx, m_idx]

				if score > thresh:
					score_idx = int(score / bin_size) - smallest[k]                    
					score_idx += score_to_pval_lengths[k]
					hits[k].append((numpy.int64(l), i, i+n, score, 
						2.0 ** score_to_pvals[score_idx]))

	return hits


@numba.njit(cache=True)
def _fast_convert(X, mapping):
	for i in range(X.shape[0]):
		X[i] = mapping[X[i]]


def fimo(motifs, sequences, alphabet=['A', 'C', 'G', 'T'], bin_size=0.1, 
	eps=0.0001, threshold=0.0001, reverse_complement=True, return_counts=False, 
	dim=0):
	"""An implementation of the FIMO algorithm from the MEME suite.

	This function implements the "Finding Individual Motif Instances" (FIMO)
	algorithm from the MEME suite. This algorithm takes a set of PWMs and
	identifies where these PWMs have statistically significant hits against a
	set of sequences. These sequences can either come from a FASTA file, such
	as an entire genome or a set of peaks, or can be one-hot encoded sequences.

	This implementation uses numba to accelerate the inner loop, and
	parallelizes across the motif axis. No support exists for calculating
	q-values as, in my opinion, q-values do not make sense here and are both
	compute- and memory-inefficient.


	Parameters
	----------
	motifs: str or dict
		A MEME file to load containing motifs to scan, or a dictionary where
		the keys are names of motifs and the values are PWMs with shape
		(len(alphabet), pwm_length).

	sequences: str or numpy.ndarray or torch.Tensor
		A set of sequences to scan the motifs against. If this is a string,
		assumes it is a filepath to a FASTA-formatted file. If this is a numpy
		array or PyTorch tensor, will use those instead.

	alphabet: list, optional
		A list of characters to use for the alphabet, defining the order that
		characters should appear. Default is ['A', 'C', 'G', 'T'].

	bin_size: float, optional
		The size of the bins discretizing the PWM scores. The smaller the bin
		size the higher the resolution, but the less data may be available to
		support it. Default is 0.1.

	eps: float, optional
		A small pseudocount to add to the motif PWMs before taking the log.
		Default is 0.0001.

	threshold: float, optional
		The p-value threshold to use for reporting matches. Default is 0.0001.

	reverse_complement: bool, optional
		Whether to scan each motif and also the reverse complements. Default
		is True.

	return_counts: bool, optioal
		Whether to only return the count of the number of matches instead of
		dataframes containing information about each match. If True, the return
		will be a single array. Default is False

	dim: 0 or 1, optional
		Whether to return one dataframe for each motif containing all hits for
		that motif across all examples (0, default) or one dataframe for each 
		example containing all hits across all motifs to that example (1).
		Default is 0.


	Returns
	-------
	hits: list of pandas.DataFrames or numpy.ndarray
		A list of pandas.DataFrames containing motif hits, where the exact
		semantics of each dataframe are determined by `dim`. Alternatively,
		a numpy array of just the number of counts per motif if return_counts
		is set to True.
	"""

	log_threshold = math.log2(threshold)

	# Extract the motifs and potentially the reverse complements
	if isinstance(motifs, str):
		motifs_ = read_meme(motifs)
	elif isinstance(motifs, dict):
		motifs_ = motifs
	else:
		raise ValueError("`motifs` must be a dict or a filename.")

	motifs_ = list(motifs_.items())
	motifs = [(name, pwm.numpy(force=True)) for name, pwm in motifs_]
	if reverse_complement:
		for name, pwm in motifs_:
			motifs.append((name + '-rc', pwm.numpy(force=True)[::-1, ::-1]))

	# Initialize arrays to store motif properties
	n_motifs = len(motifs)

	motif_names = numpy.array([name for name, _ in motifs])
	motif_lengths = [0] + [pwm.shape[-1] for _, pwm in motifs]
	motif_lengths = numpy.cumsum(motif_lengths).astype(numpy.uint64)

	motif_pwms = numpy.concatenate([pwm for _, pwm in motifs], axis=-1)
	motif_pwms = numpy.log2(motif_pwms + eps) - math.log2(0.25)

	_smallest, _score_to_pvals = _all_pwm_to_mapping(motif_pwms, motif_lengths, 
		bin_size)
	_score_to_pvals_lengths = [0]
	_score_thresholds = numpy.empty(n_motifs, dtype=numpy.float64)

	for i in range(n_motifs):	
		_score_to_pvals_lengths.append(len(_score_to_pvals[i]))

		idx = numpy.where(_score_to_pvals[i] < log_threshold)[0]
		if len(idx) > 0:
			_score_thresholds[i] = (idx[0] + _smallest[i]) * bin_size                              
		else:
			_score_thresholds[i] = float("inf")

	_score_to_pvals = numpy.concatenate(_score_to_pvals)
	_score_to_pvals_lengths = numpy.cumsum(_score_to_pvals_lengths)

	# Extract the sequence from a FASTA or torch tensors
	if isinstance(sequences, str):
		fasta = pyfaidx.Fasta(sequences)
		sequence_names = numpy.array(list(fasta.keys()))
		X, lengths = [], [0]
		
		alphabet = ''.join(alphabet)
		alpha_idxs = numpy.frombuffer(bytearray(alphabet, 'utf8'), 
			dtype=numpy.int8)
		one_hot_mapping = numpy.zeros(256, dtype=numpy.int8) - 1
		for i, idx in enumerate(alpha_idxs):
			one_hot_mapping[idx] = i
		
		for name, chrom in fasta.items():
			chrom = chrom[:].seq.upper()
			lengths.append(lengths[-1] + len(chrom))
			
			X_idxs = numpy.frombuffer(bytearray(chrom, "utf8"), 
				dtype=numpy.int8)
			_fast_convert(X_idxs, one_hot_mapping)
			X.append(X_idxs)
			
		X = numpy.concatenate(X)
		X_lengths = numpy.array(lengths, dtype=numpy.int64)
			
	elif isinstance(sequences, (torch.Tensor, numpy.ndarray)):
		sequence_names = None
		X = ((sequences.argmax(axis=1) + 1) * sequences.sum(axis=1)) - 1
		X_lengths = numpy.arange(X.shape[0]+1) * X.shape[-1]

		if isinstance(X, torch.Tensor):
			X = X.numpy(force=True)

		X = X.astype(numpy.int8).flatten()
		X_lengths = X_lengths.astype(numpy.int64)

	# Use a fast numba function to run the core algorithm
	hits = _fast_hits(X, X_lengths, motif_pwms, motif_lengths, 
		_score_thresholds, bin_size, _smallest, _score_to_pvals, 
		_score_to_pvals_lengths)


	# Convert the results to pandas DataFrames
	names = ['sequence_name', 'start', 'end', 'score', 'p-value']
	n_ = n_motifs // 2 if reverse_complement else n_motifs

	if return_counts == True:
		counts = numpy.zeros(n_, dtype='int32')
		for i in range(n_):
			counts[i] = len(hits[i])
			if reverse_complement:
				counts[i] += len(hits[i+n_])
		return counts

	for i in range(n_):
		if reverse_complement:
			hits_ = pandas.DataFrame(hits[i] + hits[i + n_], columns=names)
			hits_['strand'] = ['+'] * len(hits[i]) + ['-'] * len(hits[i+n_])
		else:
			hits_ = pandas.DataFrame(hits[i], columns=names)
			hits_['strand'] = ['+'] * len(hits[i])

		hits_['motif_name'] = [motif_names[i] for _ in range(len(hits_))]
		hits_['motif_idx'] = numpy.ones(len(hits_), dtype='int64') * i

		if sequence_names is not None:
			hits_['sequence_name'] = sequence_names[hits_['sequence_name']]
			
		hits[i] = hits_[['motif_name', 'motif_idx', 'sequence_name', 'start', 
			'end', 'strand', 'score', 'p-value']]

	hits = hits[:n_]

	if dim == 1:
		hits = pandas.concat(hits)
		_names = numpy.unique(hits['sequence_name'])
		hits = [hits[hits['sequence_name'] == name].reset_index(drop=True) 
			for name in _names]

	return hits

