# tomtom.py
# Contact: Jacob Schreiber <jmschreiber91@gmail.com> 

import time
import math
import numpy
import numba
import torch

from numba import njit
from numba import prange
from numpy import uint8, uint64

from .tomtom import _binned_median
from .tomtom import _pairwise_max
from .tomtom import _merge_rc_results

from .tomtom import _integer_distances_and_histogram
from .tomtom import _p_values
from .tomtom import tomtom

 
@njit
def _p_value_backgrounds(f, A, B, A_csum, nq, n_bins, t_max, offset):
	"""An internal function that calculates the backgrounds for p-values.

	This method takes in the histogram of integerized scores `f` and returns 
	the background probabilities of each overlap achieving a given score. 
	These scores are calculated for the complete overlap of the query and
	target, but also for all overhangs where only part of the query and the
	target are overlapping (on either end). Additionally, background
	probabilities are calculated for all spans across the query for when the
	target is smaller than the query and has to be scanned against it.
	"""

	n = n_bins*nq + nq*offset
	nqm1 = uint64(nq-1)

	# Clear A
	for i in range(nq):
		i = uint64(i)
		for j in range(n):
			j = uint64(j)
			A[0, i, j] = 0
			A[1, i, j] = 0
	
	for i in range(nq):
		c = offset * (nq - i - 1)
		i, c = uint64(i), uint64(c)
		im1, nqmi, nqmi1 = uint64(i-1), uint64(nq-i), uint64(nq-i-1)

		if i == 0:
			for k in range(1, n_bins+1):
				k = uint64(k)
				A[0, 0, k+c] = f[0, k]
				A[1, nqm1, k+c] = f[nqm1, k]
		else:
			for k in range(n_bins*i+1):
				k = uint64(k)
				a0 = A[0, im1, k+c+offset]
				a1 = A[1, nqmi, k+c+offset]

				if a0 > 0:
					for l in range(1, n_bins+1):
						l = uint64(l)
						A[0, i, l+k+c] += a0 * f[i, l]

				if a1 > 0:
					for l in range(1, n_bins+1):
						l = uint64(l)
						A[1, nqmi1, l+k+c] += a1 * f[nqmi1, l]
		
		for k in range(n):
			k, km1 = uint64(k), uint64(k-1)

			if k > n_bins*(i+1)+c:
				A_csum[0, i, k] = 1
				A_csum[1, nqmi1, k] = 1
			else:
				A_csum[0, i, k] = A[0, i, k]
				A_csum[1, nqmi1, k] = A[1, nqmi1, k]
				if k > 0:
					A_csum[0, i, k] += A_csum[0, i, km1]
					A_csum[1, nqmi1, k] += A_csum[1, nqmi1, km1]

	###

	B[0] = -1
	for i in range(1, nq):
		_pairwise_max(B[i-1], A[0, i-1], A_csum[0, i-1], B[i], n)
		_pairwise_max(B[i], A[1, nq-i], A_csum[1, nq-i], B[i], n)

	for i in range(nq, t_max+1):
		_pairwise_max(B[i-1], A[0, nq-1], A_csum[0, nq-1], B[i], n)

	# Again, `axis` is not implemented for cumsum
	for i in range(B.shape[0]):
		for j in range(1, n):
			B[i, j] += B[i, j-1]
		
		for j in range(n):
			B[i, j] = 1 - B[i, j]
			

@njit(parallel=True)
def _tomtom(Q, T, Q_lens, T_lens, Q_norm, T_norm, rr_inv, rr_counts, n_nearest, 
	n_score_bins, n_median_bins, n_cache, reverse_complement):
	"""An internal function implementing the TOMTOM algorithm.

	This internal function is necessary to handle the numba component of the
	implementation. Here, scratchboard memory is allocated for each thread and
	the main parallel loop is called. Additionally, if reverse complements are
	being considered, values are merged across both strands.
	"""

	T_max = max(T_lens)
	
	Q_offsets = numpy.zeros(len(Q_lens)+1, dtype='int64')
	Q_offsets[1:] = numpy.cumsum(Q_lens)
	Q_max = max(Q_lens)
	
	n_in_targets = len(T_lens) // 2 if reverse_complement else len(T_lens)
	n_out_targets = n_in_targets if n_nearest == -1 else n_nearest
	n_outputs = 5 if n_nearest == -1 else 6
	nt = T.shape[-1]

	# Re-usable workspace for each thread instead of re-allocating
	# and freeing large arrays for each example.
	n = numba.get_num_threads()
	n_len = Q_max*n_score_bins + Q_max*n_cache
	
	_gamma = numpy.empty((n, nt, Q_max), dtype='float64')
	_gamma_int = numpy.empty((n, nt, Q_max), dtype='int8')
	_f = numpy.empty((n, Q_max, n_score_bins+1), dtype='float64')

	_A = numpy.empty((n, Q_max, Q_max, n_len), dtype='float64')
	_B = numpy.empty((n, T_max+1, n_len), dtype='float64')
	_A_csum = numpy.empty((n, Q_max, Q_max, n_len), dtype='float64')

	_medians = numpy.empty((n, Q_max), dtype='float64')
	_median_bins = numpy.empty((n, n_median_bins, 2), dtype='float64')

	_results = numpy.empty((n, len(T_lens), 5), dtype='float64')
	results = numpy.empty((len(Q_lens), n_out_targets, n_outputs), 
		dtype='float64') 

	for i in prange(len(Q_lens)):
		nq = Q_lens[i]
		pid = numba.get_thread_id()

		offset = _integer_distances_and_histogram(Q, T, _gamma[pid], 
			_gamma_int[pid], _f[pid], _medians[pid], _median_bins[pid], Q_norm, 
			T_norm, rr_counts, Q_offsets[i], nq, n_score_bins)

		if offset > n_cache:
			print("Offset is larger than `n_cache`. Please increase `n_cache`"
				" to at least ", offset)

		_p_value_backgrounds(_f[pid], _A[pid], _B[pid], _A_csum[pid], nq, 
			n_score_bins, T_max, offset)

		_p_values(_gamma_int[pid], _B[pid], rr_inv, T_lens, i, nq, offset, 
			_results[pid])

		if reverse_complement == 1:
			_merge_rc_results(_results[pid])
		else:
			_results[pid, :, 4] = 0

		results[i] = _results[pid, :n_in_targets]

	# Enforce symmetry
	if n_nearest == -1:
		for i in range(results.shape[-1]):
			for j in range(results.shape[0]):
				for k in range(j):
					results[j, k, i] = results[k, j, i]

	return results           
  

def symmetric_tomtom(Xs, n_score_bins=100, n_median_bins=1000, 
	n_target_bins=100, n_cache=100, reverse_complement=True, n_jobs=-1):
	"""A method for assigning p-values to motif similarity.

	This method implements the TOMTOM algorithm for assigning p-values to motif
	similarity scores. TOMTOM accounts for several issues that arise when
	motifs are scanned against each other, including correctly calculating
	scores for overlaps and accounting for motif length and information content 
	within the motifs. 

	At a high level, TOMTOM works by calculating a background distribution of 
	scores for each position in the query and then uses dynamic programming to 
	calculating a distribution of scores for each span of matches, allowing for 
	potential overhangs on either side.

	Importantly, this method implements the "complete score" version of TOMTOM
	which is more robust to edge effects. The "incomplete score" is not a good
	score and so is not implemented. 


	Parameters
	----------
	Qs: list or numpy.ndarrays or torch.Tensors with shape (len(alphabet), len)
		A list of query motifs to consider. Each query must have a shape
		according to the PyTorch format where the length is the last aspect.
		If these are PyTorch tensors they will be internally converted to a
		numpy.ndarray.

	Ts: list or numpy.ndarrays or torch.Tensors with shape (len(alphabet), len)
		A list of target motifs to compare each query against. Each target must 
		have a shape according to the PyTorch format where the length is the 
		last aspect. If these are PyTorch tensors they will be internally 
		converted to a numpy.ndarray.

	n_nearest: int or None, optional
		The number of nearest targets to keep for each query, where nearness is
		defined by the p-value. Setting this can significant reduce memory
		because, otherwise, you get a len(Qs) by len(Ts) complete matrix. If
		None, return the complete matrix. Default is None.

	n_score_bins: int, optional
		The number of bins to use when discretizing scores. A higher number is 
		not necessarily better because you need the data to support each bin
		in the distribution. This is `t` from the TOMTOM paper. Default is 100.

	n_median_bins: int, optional
		The number of bins to use when approximating the medians. More bins
		means higher precision when estimating the median but can also cause it
		to take linearly longer. Default is 1000.

	n_target_bins: int or None, optional
		Whether to use approximate hashing to speed up calculations by merging
		target columns that are similar. This can significantly speed up
		calculations and reduce memory at the cost of approximation. Each value 
		in the columns are binned and targets are merged together if all values 
		fall within the same bins, e.g., if both columns after binning are 
		[5, 11, 0, 1]. This parameter sets the number of bins to use when 
		discretizing the values in the target columns. Fewer bins means more 
		targets get merged together, which can speed up the calculations, but 
		also mean that the resulting p-values are less accurate. Conversely, 
		more bins means that fewer targets get merged together and higher 
		accuracy p-values but slower. If None, don't use approximate hashing.
		Default is 100.

	n_cache: int, optional
		A cache size to use when allocating the scratchpad. A higher number will
		linearly increase the amount of memory used but will not increase the
		amount of compute needed. Default is 250.

	reverse_complement: bool, optional
		Whether to automatically compare each query to targets and also the
		reverse complement of the target and merge the scores and p-values
		accordingly. Default is True.

	n_jobs: int, optional
		The number of threads for numba to use when parallelizing the
		processing of query sequences. If -1, use all available threads.
		Default is -1.


	Returns
	-------
	best_p_values: torch.Tensor, shape=(len(Qs), len(Ts))
		The p-value of the best alignment between each query and each target.

	best_scores: torch.Tensor, shape=(len(Qs), len(Ts))
		The scores of the best alignment between each query and each target.

	best_offsets: torch.Tensor, shape=(len(Qs), len(Ts))
		The offset of the best alignment between each query and each target.

	best_overlaps: torch.Tensor, shape=(len(Qs), len(Ts))
		The overlap of the best alignment between each query and each target.

	best_strands: torch.Tensor, shape=(len(Qs), len(Ts))
		The strand for the best alignment between each query and each target.

	best_idxs: torch.Tensor, shape=(len(Qs), len(Ts)), optional
		When returning only a number of nearest neighbors, the index in the
		original ordering of the targets corresponding to each returned
		neighbor. These will be sorted by p-value.
	"""
	
	if n_jobs != -1:
		_n_jobs = numba.get_num_threads()
		numba.set_num_threads(n_jobs)

	if isinstance(Xs[0], torch.Tensor):
		Xs = [X.numpy(force=True) for X in Xs]

	# Enforce ordering
	X_lens = numpy.array([X.shape[-1] for X in Xs], dtype='int64')
	X_idxs = numpy.argsort(X_lens, kind='stable')
	Xs = [Xs[idx] for idx in X_idxs]

	Q_lens = numpy.array([X.shape[-1] for X in Xs], dtype='int64')
	Q = numpy.concatenate(Xs, axis=-1)
	Q_norm = (Q ** 2).sum(axis=0)
	
	if reverse_complement:        
		Xs = Xs + [X[::-1, ::-1] for X in Xs]

	T_lens = numpy.array([X.shape[-1] for X in Xs], dtype='int64')
	T = numpy.concatenate(Xs, axis=-1)
	T_norm = (T ** 2).sum(axis=0)

	# Proceeds normally from here
	if Q_norm.max() == 0 or T_norm.max() == 0:
		raise ValueError("Cannot have all-zeroes as targets or query.")

	if n_target_bins is not None:
		T_min = T.min(axis=-1, keepdims=True)
		T_max = T.max(axis=-1, keepdims=True)
		T_max[T_max == T_min] = T_min[T_max == T_min] + 1

		T_ints = numpy.around((T - T_min) / (T_max - T_min) * (n_target_bins-1))
		T_ints = T_ints.T.dot(n_target_bins ** numpy.arange(len(T))[:, None])
		_, rr_idxs, rr_inv, rr_counts = numpy.unique(T_ints.flatten(), 
			return_index=True, return_inverse=True, return_counts=True)

		T = T[:, rr_idxs]
		T_norm = T_norm[rr_idxs]
		rr_inv = rr_inv.astype('uint64')
	else:
		rr_inv = numpy.arange(T.shape[-1])
		rr_counts = numpy.ones_like(rr_inv)
	
	###
	
	results = _tomtom(Q, T, Q_lens, T_lens, Q_norm, T_norm, rr_inv, rr_counts, 
		-1, n_score_bins, n_median_bins, n_cache, int(reverse_complement))

	if n_jobs != -1:
		numba.set_num_threads(_n_jobs)

	### Undo swap 

	X_idxs2 = numpy.argsort(X_idxs)
	return torch.from_numpy(results[X_idxs2][:, X_idxs2]).permute(2, 0, 1)
