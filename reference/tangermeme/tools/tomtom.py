# tomtom.py
# Contact: Jacob Schreiber <jmschreiber91@gmail.com> 

import time
import math
import numpy
import numba
import torch

from numba import njit
from numba import prange
from numpy import uint64


@njit
def _binned_median(x, bins, x_min, x_max, counts):
	"""An internal function for calculating medians quickly.

	This method uses a binning-based approximation to quickly calculate medians
	in linear time with low constants. Rather than using a sorting algorithm,
	which is O(n log n) or more sophisticated approaches that are O(n) but with
	bad constants, this approach approximates the median by dividing the range
	of the array into bins, assigning points to bins in one sweep of the data,
	and then scanning over all bins until half of points have been encountered.

	To get a better approximation of the median, sufficient statistics are
	stored that enable returning the average of all points assigned to the
	bin. When there an odd number of points, or an even number and the middle
	two get assigned to the same bin, this should return the exact median.
	"""

	n, n_bins = len(x), len(bins)
	bins[:] = 0

	halfway = 0
	x_max -= x_min
	for i in range(n):
		z = int((x[i] - x_min) / x_max * (n_bins - 1))
		bins[z, 0] += counts[i]
		bins[z, 1] += x[i] * counts[i]
		halfway += counts[i]

	halfway /= 2
	count = 0
	for i in range(n_bins):
		count += bins[i, 0]
		if count >= halfway:
			return bins[i, 1] / bins[i, 0]
			
	return -99999


@njit
def _integer_distances_and_histogram(X, Y, gamma, gamma_int, f, medians, 
	median_bins, X_norm, Y_norm, Y_counts, nq_csum, nq, n_bins):
	"""An internal function for integerized scores and the histogram.

	This function is the main workhorse for the TOMTOM algorithm. It contains
	four conceptual steps: (1) calculate the distance matrix between each column 
	in one query and each column across all targets, (2) subtract out the per
	query-column median, (3) integerize the scores into bins, and (4) calculate
	the histogram of these integers. 

	Several speed efficiencies have been built into this, including caching
	minimum and maximum values for each query column for re-use in the median
	calculation, the binned median approximation, and calculating the histogram
	simultaneously with the binned score matrix. 
	"""
	
	# Calculate the Euclidean distance between query and targets
	z_min, z_max = 9999999.9, -9999999.9
	for i in range(nq):
		z_min_, z_max_ = 9999999.9, -9999999.9
		for j in range(Y.shape[-1]):
			z = X_norm[i + nq_csum] + Y_norm[j]
			
			for k in range(Y.shape[0]):
				z -= 2 * X[k, i + nq_csum] * Y[k, j]
			  
			z = -math.sqrt(z) if z > 0 else 0
			z_max_ = max(z_max_, z)
			z_min_ = min(z_min_, z)
			gamma[j, i] = z
		
		# Subtract out the median from each row
		m = _binned_median(gamma[:, i], median_bins, z_min_, z_max_, 
			Y_counts)
		medians[i] = m

		z_min = min(z_min, z_min_ - m)
		z_max = max(z_max, z_max_ - m)
			
	# Find the minimum value and the number of bins needed to get there
	i_min = int(math.floor(z_min)) #offset
	bin_scale = int(math.floor(n_bins / (z_max - i_min))) #scale
	offset = -i_min * bin_scale

	for i in range(nq):
		medians[i] = medians[i] + i_min
	
	f[:] = 0
	ys = numpy.sum(Y_counts)

	# Convert the distances to bins and record the histogram of counts
	for i in range(nq):
		k = nq - i - 1
		for j in range(Y.shape[-1]):
			x = math.floor((gamma[j, i] - medians[i]) * bin_scale + 0.5)

			gamma_int[j, k] = x - offset
			f[i, uint64(x)] += Y_counts[j] / ys

	return uint64(offset)


@njit
def _pairwise_max(x, y, y_csum, z, n):
	"""An internal function for the pdf of the maximum of two pdfs.

	This function takes in two probability distribution functions and
	returns the probability distribution function for the maximum of
	the two. In other words, it returns the probability distribution
	for the maximum of a randomly drawn sample from the first
	distribution and a randomly drawn sample from the second
	distribution.

	This function relies on knowing that the cumsum of y will be
	precalculated and that the cumsum of x has to be recalculated
	each call.
	"""
	
	if x[0] == -1:
		z[:] = y[:]        
	else:
		x_csum = 0
		for i in range(n):
			x_csum += x[i]
			z[i] = x[i] * y_csum[i] + y[i] * x_csum - x[i] * y[i]

 
@njit
def _p_value_backgrounds(f, A, B, A_csum, nq, n_bins, t_max, offset):
	"""An internal function that calculates the backgrounds for p-values.

	This method takes in the histogram of integerized scores `f` and returns 
	the background probabilities of each overlap achieving a given score. 
	These scores are calculated for the complete overlap of the query and
	target, but also for all overhangs where only part of the query and the
	target are overlapping (on either end). Additionally, background
	probabilities are calculated for all spans across the query for when the
	target is smaller than the query and has to be scanned against it.
	"""

	n = n_bins*nq + nq*offset
	A[:] = 0
	
	for i in range(nq):
		i = uint64(i)
		for j in range(i, nq):
			j, c = uint64(j), uint64(offset * (nq - j + i - 1))
			
			if i == j:
				for l in range(1, n_bins+1):
					l = uint64(l)
					A[i, j, l+c] = f[j, l]
			else:            
				for k in range(n_bins*j+1):
					k = uint64(k)
					a = A[i, j-1, k+c+offset]
					
					if a == 0:
						continue
						
					for l in range(1, n_bins+1):
						l = uint64(l)
						A[i, j, l+k+c] += a * f[j, l]
					
			A_csum[i, j, n_bins*(j+1)+c:] = 1
			for k in range(n_bins*(j+1)+c):
				k = uint64(k)
				A_csum[i, j, k] = A[i, j, k]
				if k > 0:
					A_csum[i, j, k] += A_csum[i, j, k-1]

	###

	B[0] = -1
	for i in range(1, min(nq, t_max+1)):
		_pairwise_max(B[i-1], A[0, i-1], A_csum[0, i-1], B[i], n)
		_pairwise_max(B[i], A[nq-i, nq-1], A_csum[nq-i, nq-1], B[i], n)

	if (t_max+1) > nq:
		for i in range(nq, t_max+1):
			_pairwise_max(B[i-1], A[0, nq-1], A_csum[0, nq-1], B[i], n)
	 
	for i in range(1, min(nq, t_max+1)):
		B[i] = -1
		for j in range(nq - i + 1):
			_pairwise_max(B[i], A[j, j+i-1], A_csum[j, j+i-1], B[i], n)
	
		for j in range(i-1):
			_pairwise_max(B[i], A[0, j], A_csum[0, j], B[i], n)
			_pairwise_max(B[i], A[nq-1-j, nq-1], A_csum[nq-1-j, nq-1], 
				B[i], n)

	# Again, `axis` is not implemented for cumsum
	for i in range(B.shape[0]):
		for j in range(1, n):
			B[i, j] += B[i, j-1]
		
		for j in range(n):
			B[i, j] = 1 - B[i, j]
			

@njit
def _p_values(gamma, B_cdfs, rr_inv, T_lens, iq, nq, offset, results):
	"""An internal function for calculating the best match and p-values.

	This function will take in the integerized score matrix `gamma` and
	background distributions `B_cdfs` and calculate the best overlap.
	The best overlap is calculated as the best sum of scores across the
	alignment, minus a penalty for each unaligned column. After finding
	a new best overlap, the p-value is calculated by comparing the
	score to the background distribution.
	"""

	n = len(T_lens) // 2
	total_offset = uint64(0)

	max_nt = max(T_lens)
	t_sums = numpy.empty(max_nt+nq-1, dtype='int16')

	for i, nt in enumerate(T_lens):
		nt = uint64(nt)
		results[i, 0] = 1
		results[i, 1] = 0
		results[i, 2] = 0
		results[i, 3] = 0

		if i <= iq or (i >= n and i <= (n + iq)):
			total_offset += nt
			continue

		for k in range(nt+nq-1):
			k = uint64(k)
			t_sums[k] = nq * offset

		for k in range(nt):
			k = uint64(k)
			k_idx = uint64(rr_inv[total_offset + k])
			for l in range(nq):	
				l = uint64(l)
				t_sums[k+l] += gamma[k_idx, l]

		for k in range(nt+nq-1):
			score = t_sums[k]
			overlap = min(k+1, nq) - max(0, k-nt+1)
			if score >= results[i, 1]:
				if score == results[i, 1] and results[i, 2] >= overlap:
					continue

				if score > 0:
					results[i, 0] = B_cdfs[nt, uint64(score-1)]
				else:
					results[i, 0] = 1
				results[i, 1] = score
				results[i, 2] = k - nq + 1
				results[i, 3] = overlap

		total_offset += nt


@njit
def _merge_rc_results(results):
	"""An internal method for taking the best across two strands."""

	nt = results.shape[0]
	n = nt // 2
	
	for i in range(n):
		p = min(results[i, 0], results[i+n, 0])
		p = 1 - (1 - p) ** 2

		results[i, 0] = p
		results[i, 4] = 0
		
		if results[i, 1] <= results[i+n, 1]:                
			results[i, 1] = results[i+n, 1]
			results[i, 2] = results[i+n, 2]
			results[i, 3] = results[i+n, 3]
			results[i, 4] = 1
			

@njit(parallel=True)
def _tomtom(Q, T, Q_lens, T_lens, Q_norm, T_norm, rr_inv, rr_counts, n_nearest, 
	n_score_bins, n_median_bins, n_cache, reverse_complement):
	"""An internal function implementing the TOMTOM algorithm.

	This internal function is necessary to handle the numba component of the
	implementation. Here, scratchboard memory is allocated for each thread and
	the main parallel loop is called. Additionally, if reverse complements are
	being considered, values are merged across both strands.
	"""

	T_max = max(T_lens)
	
	Q_offsets = numpy.zeros(len(Q_lens)+1, dtype='int64')
	Q_offsets[1:] = numpy.cumsum(Q_lens)
	Q_max = max(Q_lens)
	
	n_in_targets = len(T_lens) // 2 if reverse_complement else len(T_lens)
	n_out_targets = n_in_targets if n_nearest == -1 else n_nearest
	n_outputs = 5 if n_nearest == -1 else 6
	nt = T.shape[-1]

	# Re-usable workspace for each thread instead of re-allocating
	# and freeing large arrays for each example.
	n = numba.get_num_threads()
	n_len = Q_max*n_score_bins + Q_max*n_cache
	
	_gamma = numpy.empty((n, nt, Q_max), dtype='float64')
	_gamma_int = numpy.empty((n, nt, Q_max), dtype='int8')
	_f = numpy.empty((n, Q_max, n_score_bins+1), dtype='float64')

	_A = numpy.empty((n, Q_max, Q_max, n_len), dtype='float64')
	_B = numpy.empty((n, T_max+1, n_len), dtype='float64')
	_A_csum = numpy.empty((n, Q_max, Q_max, n_len), dtype='float64')

	_medians = numpy.empty((n, Q_max), dtype='float64')
	_median_bins = numpy.empty((n, n_median_bins, 2), dtype='float64')

	_results = numpy.empty((n, len(T_lens), 5), dtype='float64')
	results = numpy.empty((len(Q_lens), n_out_targets, n_outputs), 
		dtype='float64') 

	for i in prange(len(Q_lens)):
		nq = Q_lens[i]
		pid = numba.get_thread_id()

		offset = _integer_distances_and_histogram(Q, T, _gamma[pid], 
			_gamma_int[pid], _f[pid], _medians[pid], _median_bins[pid], Q_norm, 
			T_norm, rr_counts, Q_offsets[i], nq, n_score_bins)

		if offset > n_cache:
			print("Offset is larger than `n_cache`. Please increase `n_cache`"
				" to at least ", offset)

		_p_value_backgrounds(_f[pid], _A[pid], _B[pid], _A_csum[pid], nq, 
			n_score_bins, T_max, offset)

		_p_values(_gamma_int[pid], _B[pid], rr_inv, T_lens, -1, nq, offset, 
			_results[pid])

		if reverse_complement == 1:
			_merge_rc_results(_results[pid])
		else:
			_results[pid, :, 4] = 0

		if n_nearest == -1:
			results[i] = _results[pid, :n_in_targets]
		else:
			idxs = numpy.argsort(_results[pid, :n_in_targets, 0])[:n_nearest]
			results[i, :, :5] = _results[pid, idxs]
			results[i, :, 5] = idxs


	return results            
  

def tomtom(Qs, Ts, n_nearest=None, n_score_bins=100, n_median_bins=1000, 
	n_target_bins=100, n_cache=100, reverse_complement=True, n_jobs=-1):
	"""A method for assigning p-values to motif similarity.

	This method implements the TOMTOM algorithm for assigning p-values to motif
	similarity scores. TOMTOM accounts for several issues that arise when
	motifs are scanned against each other, including correctly calculating
	scores for overlaps and accounting for motif length and information content 
	within the motifs. 

	At a high level, TOMTOM works by calculating a background distribution of 
	scores for each position in the query and then uses dynamic programming to 
	calculating a distribution of scores for each span of matches, allowing for 
	potential overhangs on either side.

	Importantly, this method implements the "complete score" version of TOMTOM
	which is more robust to edge effects. The "incomplete score" is not a good
	score and so is not implemented. 


	Parameters
	----------
	Qs: list or numpy.ndarrays or torch.Tensors with shape (len(alphabet), len)
		A list of query motifs to consider. Each query must have a shape
		according to the PyTorch format where the length is the last aspect.
		If these are PyTorch tensors they will be internally converted to a
		numpy.ndarray.

	Ts: list or numpy.ndarrays or torch.Tensors with shape (len(alphabet), len)
		A list of target motifs to compare each query against. Each target must 
		have a shape according to the PyTorch format where the length is the 
		last aspect. If these are PyTorch tensors they will be internally 
		converted to a numpy.ndarray.

	n_nearest: int or None, optional
		The number of nearest targets to keep for each query, where nearness is
		defined by the p-value. Setting this can significant reduce memory
		because, otherwise, you get a len(Qs) by len(Ts) complete matrix. If
		None, return the complete matrix. Default is None.

	n_score_bins: int, optional
		The number of bins to use when discretizing scores. A higher number is 
		not necessarily better because you need the data to support each bin
		in the distribution. This is `t` from the TOMTOM paper. Default is 100.

	n_median_bins: int, optional
		The number of bins to use when approximating the medians. More bins
		means higher precision when estimating the median but can also cause it
		to take linearly longer. Default is 1000.

	n_target_bins: int or None, optional
		Whether to use approximate hashing to speed up calculations by merging
		target columns that are similar. This can significantly speed up
		calculations and reduce memory at the cost of approximation. Each value 
		in the columns are binned and targets are merged together if all values 
		fall within the same bins, e.g., if both columns after binning are 
		[5, 11, 0, 1]. This parameter sets the number of bins to use when 
		discretizing the values in the target columns. Fewer bins means more 
		targets get merged together, which can speed up the calculations, but 
		also mean that the resulting p-values are less accurate. Conversely, 
		more bins means that fewer targets get merged together and higher 
		accuracy p-values but slower. If None, don't use approximate hashing.
		Default is 100.

	n_cache: int, optional
		A cache size to use when allocating the scratchpad. A higher number will
		linearly increase the amount of memory used but will not increase the
		amount of compute needed. Default is 250.

	reverse_complement: bool, optional
		Whether to automatically compare each query to targets and also the
		reverse complement of the target and merge the scores and p-values
		accordingly. Default is True.

	n_jobs: int, optional
		The number of threads for numba to use when parallelizing the
		processing of query sequences. If -1, use all available threads.
		Default is -1.


	Returns
	-------
	best_p_values: torch.Tensor, shape=(len(Qs), len(Ts))
		The p-value of the best alignment between each query and each target.

	best_scores: torch.Tensor, shape=(len(Qs), len(Ts))
		The scores of the best alignment between each query and each target.

	best_offsets: torch.Tensor, shape=(len(Qs), len(Ts))
		The offset of the best alignment between each query and each target.

	best_overlaps: torch.Tensor, shape=(len(Qs), len(Ts))
		The overlap of the best alignment between each query and each target.

	best_strands: torch.Tensor, shape=(len(Qs), len(Ts))
		The strand for the best alignment between each query and each target.

	best_idxs: torch.Tensor, shape=(len(Qs), len(Ts)), optional
		When returning only a number of nearest neighbors, the index in the
		original ordering of the targets corresponding to each returned
		neighbor. These will be sorted by p-value.
	"""

	if n_jobs != -1:
		_n_jobs = numba.get_num_threads()
		numba.set_num_threads(n_jobs)

	if n_nearest is None:
		n_nearest = -1

	if isinstance(Ts[0], torch.Tensor):
		Ts = [T.numpy(force=True) for T in Ts]

	Q_lens = numpy.array([Q.shape[-1] for Q in Qs], dtype='int64')
	Q = numpy.concatenate(Qs, axis=-1)
	Q_norm = (Q ** 2).sum(axis=0)
	
	if reverse_complement:        
		Ts = Ts + [T[::-1, ::-1] for T in Ts]
	
	T_lens = numpy.array([T.shape[-1] for T in Ts], dtype='int64')
	T = numpy.concatenate(Ts, axis=-1)
	T_norm = (T ** 2).sum(axis=0)

	if Q_norm.max() == 0 or T_norm.max() == 0:
		raise ValueError("Cannot have all-zeroes as targets or query.")

	if n_target_bins is not None:
		T_min = T.min(axis=-1, keepdims=True)
		T_max = T.max(axis=-1, keepdims=True)
		T_max[T_max == T_min] = T_min[T_max == T_min] + 1

		T_ints = numpy.around((T - T_min) / (T_max - T_min) * (n_target_bins-1))
		T_ints = T_ints.T.dot(n_target_bins ** numpy.arange(len(T))[:, None])
		_, rr_idxs, rr_inv, rr_counts = numpy.unique(T_ints.flatten(), 
			return_index=True, return_inverse=True, return_counts=True)

		T = T[:, rr_idxs]
		T_norm = T_norm[rr_idxs]
		rr_inv = rr_inv.astype('uint64')
	else:
		rr_inv = numpy.arange(T.shape[-1])
		rr_counts = numpy.ones_like(rr_inv)
	
	###
	
	results = _tomtom(Q, T, Q_lens, T_lens, Q_norm, T_norm, rr_inv, rr_counts, 
		n_nearest, n_score_bins, n_median_bins, n_cache, 
		int(reverse_complement))

	if n_jobs != -1:
		numba.set_num_threads(_n_jobs)

	return torch.from_numpy(results.transpose(2, 0, 1))
