# annotate.py
# Author: Jacob Schreiber <jmschreiber91@gmail.com>

import numpy
import torch
import pandas

from .io import read_meme
from .utils import _validate_input
from .tools.tomtom import tomtom


def annotate_seqlets(X, seqlets, motifs, n_nearest=1, n_jobs=-1, **kwargs):
	"""Annotate a set of seqlets according to a motif database using TOMTOM.

	This function takes in a set of seqlets and a motif database and assigns
	to each seqlet the most significant motif match. This match is done using
	TOMTOM on just the one-hot encoded sequence for the seqlet and the PWM
	for the motifs. If no motifs have a statistical significance below the
	provided threshold, an index of -1 is returned.

	The computation is independent for each seqlet, so ordering of seqlets
	should not matter, not should running this function on a subset of seqlets
	versus the full set.


	Parameters
	----------
	X: torch.Tensor, shape=(n_examples, len(alphabet), length)
		A one-hot encoded set of sequences. These are only relevant for
		extracting the sequences spanned by each seqlet.

	seqlets: pandas.DataFrame, shape=(n_seqlets, 3+)
		A BED-formatted set of seqlets to annotate. The first three columns
		must correspond to the example index in `X`, the start, and the end
		(both base-0). The annotations can have additional columns, but those
		are ignored.

	motifs: dict or str
		A dictionary of motifs where the keys are motif names and the values
		are PWMs with shape (len(alphabet), len(motif)), or a string to a
		MEME-formatted file.

	n_nearest: int, optional
		The number of motif matches to return for each seqlet, starting with
		the most significant hit. Default is 1.

	n_jobs: int, optional
		The number of threads to run TOMTOM on in parallel. -1 means use all
		available threads. Default is -1.

	**kwargs: arguments, optional
		Any other arguments to pass into the TOMTOM algorithm.


	Returns
	-------
	idxs: torch.Tensor, shape=(len(seqlets), n_nearest)
		The index of the most significant motif hit(s) for each seqlet.

	pvals: torch.Tensor, shape=(len(seqlets), n_nearest)
		The p-value of the returned significant hits.
	"""

	if isinstance(motifs, str):
		motifs = read_meme(motifs)

	motif_pwms = list(motifs.values())

	X_seqlets = []
	for example_idx, start, end in seqlets.iloc[:, :3].values:
		X_seqlets.append(X[example_idx, :, start:end])

	p_values, _, _, _, _, idxs = tomtom(X_seqlets, motif_pwms, 
		n_nearest=n_nearest, n_jobs=n_jobs, **kwargs)

	return idxs.type(torch.int32), p_values


def count_annotations(X, dtype=torch.uint8, shape=None, dim=None):
	"""A method for counting the annotations for each example.

	This function takes in a tensor of (example_idx, annotation_idx) pairs and
	returns a tensor of counts where each row is an example, each column is an
	annotation, and the value is the number of times that annotation appears
	in that example. The dimensions of the returned matrix will then be the
	maximum example_idx and motif_idx value even if intermediary values are
	not observed.


	Parameters
	----------
	X: torch.Tensor, shape=(n_annotations, 2) or tuple of two vectors
		A tensor of annotations where the first column is the example_idx and
		the second column is the annotation_idx. Both should be integers. 

	dtype: torch.dtype, optional
		The dtype of the returned matrix. Default is torch.uint8.

	shape: tuple or None, optional
		A user-defined shape of the returned count matrix. Use this if you are
		not sure whether all examples or annotations are observed in `X` but you
		want to have a constant shape. If None, derive shape from the maximum
		values in `X`. Default is None.

	dim: None, 0, or 1, optional
		Whether to aggregate the counts along one of the axes. If set to None,
		the full count matrix will be returned. If set to 0 the first dimension
		is summed over, returning the number of occurences of each annotation. 
		If set to 1, the second dimension is summed over, returning the number
		of annotations per example. Default is None. 


	Returns
	-------
	y: torch.Tensor, shape=(max(example_idx), max(motif_idx))
		A sparse tensor where each row is an example and each column is an
		annotation and the values within are the number of times each annotation
		appears in each example.
	"""

	if isinstance(X, (list, tuple)):
		x_ = []
		for x in X:
			if isinstance(x, pandas.Series):
				x = x.values

			if isinstance(x, numpy.ndarray):
				x = torch.from_numpy(x)

			x_.append(x)

		X = torch.vstack(x_).T

	_validate_input(X, 'X', shape=(-1, 2), min_value=0)

	X = X.type(torch.int64)
	X_ones = torch.ones(len(X), dtype=dtype)

	n_examples, n_annotations = X.max(dim=0).values + 1

	if shape is not None:
		if n_examples > shape[0] or n_annotations > shape[1]:
			raise RuntimeError("Observed maximum indices {} but".format(
				(n_examples, n_annotations)) + " provided shape {}".format(
				shape))
		
		n_examples, n_annotations = shape


	if dim == 0:
		y = torch.zeros(n_annotations, dtype=dtype)
		y.scatter_add_(0, X[:, 1], X_ones)
	
	elif dim == 1:
		y = torch.zeros(n_examples, dtype=dtype)
		y.scatter_add_(0, X[:, 0], X_ones)
	
	else:
		X_idxs = X[:, 0] * n_annotations + X[:, 1]
		
		y = torch.zeros(n_examples * n_annotations, dtype=dtype)
		y.scatter_add_(0, X_idxs, X_ones)
		y = y.reshape(n_examples, n_annotations)
	
	return y


def pairwise_annotations(X, dtype=torch.int64, symmetric=True, shape=None):
	"""Returns the number of times pairs of annotations occur in an example.

	This function takes in a tensor of (example_idx, annotation_idx) pairs and
	returns a tensor of counts where each row is an annotation_idx and each
	column is also an annotation_idx, and the values within are the number of
	times that the each pair of annotations appears in the same example.

	The returned matrix will be a symmetric matrix that has a total number of
	counts equal to twice the number of provided examples.


	Parameters
	----------
	X: torch.Tensor, shape=(n_annotations, 2)
		A tensor of annotations where the first column is the example_idx and
		the second column is the annotation_idx. Both should be integers. 

	dtype: torch.dtype, optional
		The dtype of the returned matrix. Default is torch.int64.

	symmetric: bool, optional
		Whether to return a symmetric matrix or one where the row is the first
		element in `X` and the column is the subsequent element in `X`. If
		symmetric, the diagonal is NOT double counted. Default is True.

	shape: int or None, optional
		The number of rows and columns to use in the matrix. If None, infer the
		number from `X`. Default is None.


	Returns
	-------
	y: torch.Tensor, shape=(max(example_idx), max(motif_idx))
		A sparse tensor where each row is an example and each column is an
		annotation and the values within are the number of times each annotation
		appears in each example.
	"""

	if isinstance(X, (list, tuple)):
		x_ = []
		for x in X:
			if isinstance(x, pandas.Series):
				x = x.values

			if isinstance(x, numpy.ndarray):
				x = torch.from_numpy(x)

			x_.append(x)

		X = torch.vstack(x_).T

	_validate_input(X, 'X', shape=(-1, 2), min_value=0)

	n_examples, n_annotations = X.max(dim=0).values + 1

	if shape is not None:
		if n_annotations > shape:
			raise RuntimeError("Observed maximum indices {} but".format(
				(n_examples, n_annotations)) + " provided shape {}".format(
				shape))
		
		n_annotations = shape

	example_annotations = [[] for i in range(n_examples)]
	for example_idx, annotation_idx in X:
		example_annotations[example_idx].append(annotation_idx)

	y = torch.zeros(n_annotations, n_annotations, dtype=dtype).numpy()
	for annotations in example_annotations:
		for i, idx0 in enumerate(annotations[:-1]):
			for j, idx1 in enumerate(annotations[i+1:]):
				y[idx0, idx1] += 1

				if symmetric and idx0 != idx1:
					y[idx1, idx0] += 1

	return torch.from_numpy(y)


def pairwise_annotations_spacing(X, max_distance=100, dtype=torch.uint8, 
	symmetric=True, shape=None):
	"""Finds the number of times each annotation pairs happens at each distance.

	This function takes in a tensor of (example_idx, annotation_idx, start, end) 
	tuples and returns a tensor of counts where the first two dimensions are 
	annotation indexes and the third dimension is the spacing between the pair. 
	The values within the tensor are the count of the number of times that pair 
	of annotations is found with that spacing. Importantly, distance is 
	calculated between the end of the motif on the left and the start of the 
	motif on the right. Put another way, it is the number of nucleotides between 
	each motif and so is invariant to their lengths.

	The returned tensor will be extremely sparse, so be careful about setting
	the maximum distance to a value that is very high. A sparse tensor could
	be used here, but given how cheap memory is getting this function is meant
	to be a quick solution that handles most cases.


	Parameters
	----------
	X: torch.Tensor, shape=(n_annotations, 4)
		A tensor of annotations where the columns should be the example_idx,
		annotation_idx, start of the annotation, and end of the annotation.
		The end of the annotation should not be inclusive, so two adjacent
		annotations with zero spacing between them should have the same integer
		index for the end of one motif and the start of the next.

	max_distance: int, optional
		The maximum distance between two annotations in the same example to
		consider. Default is 100.

	dtype: torch.dtype, optional
		The dtype of the returned matrix. Default is torch.uint8.

	symmetric: bool, optional
		Whether to return a symmetric matrix or one where the row is the first
		element in `X` and the column is the subsequent element in `X`. If
		symmetric, the diagonal is NOT double counted. Default is True.

	shape: int or None, optional
		The number of rows and columns to use in the matrix. If None, infer the
		number from `X`. Default is None.


	Returns
	-------
	y: torch.Tensor, shape=(max(example_idx), max(motif_idx))
		A sparse tensor where each row is an example and each column is an
		annotation and the values within are the number of times each annotation
		appears in each example.
	"""

	if isinstance(X, (list, tuple)):
		x_ = []
		for x in X:
			if isinstance(x, pandas.DataFrame):
				x = torch.from_numpy(x.values)

			elif isinstance(x, numpy.ndarray):
				x = torch.from_numpy(x)

			if x.ndim == 1:
				x = x.unsqueeze(1)

			x_.append(x)

		X = torch.cat(x_, axis=1)[:, [0, 3, 1, 2]]

	elif isinstance(X, pandas.DataFrame):
		X = torch.from_numpy(X.values)

	_validate_input(X, 'X', shape=(-1, 4), min_value=0)

	n_examples, n_annotations = X.max(dim=0).values[:2] + 1

	if shape is not None:
		if n_annotations > shape:
			raise RuntimeError("Observed maximum indices {} but".format(
				(n_examples, n_annotations)) + " provided shape {}".format(
				shape))
		
		n_annotations = shape


	example_annotations = [[] for i in range(n_examples)]

	y = torch.zeros(n_annotations, n_annotations, max_distance, 
		dtype=dtype).numpy()

	for example_idx, annotation_idx, start, end in X:
		example_annotations[example_idx].append((annotation_idx, start, end))

	for annotations in example_annotations:
		for i, (idx0, start0, end0) in enumerate(annotations[:-1]):
			for j, (idx1, start1, end1) in enumerate(annotations[i+1:]):
				if start0 < start1:
					d = start1 - end0
					if d < 0 or d >= max_distance:
						continue

					y[idx0, idx1, d] += 1
					if symmetric and idx0 != idx1:
						y[idx1, idx0, d] += 1

				else:
					d = start0 - end1
					if d < 0 or d >= max_distance:
						continue

					y[idx1, idx0, d] += 1
					if symmetric and idx0 != idx1:
						y[idx0, idx1, d] += 1 

	return torch.from_numpy(y)
