# kmers.py
# Contact: Jacob Schreiber <jmschreiber91@gmail.com>

import numpy
import torch
import scipy
import numpy as np

from numba import njit, prange
import numba

key_type = numba.types.int64
value_type = numba.types.float64


def kmers(X, k, scores=None):
	"""Extract all k-mers found in a sequence, optionally weighted by a score.

	This function will count the number of k-mers found in each sequence and
	return a feature matrix. If `score` is provided, the counts will be weighted
	by the sum of the score across the k positions where the k-mer resides. If
	`score` is not provided, the count will just be 1 for each instance of the
	k-mer in the sequence.


	Parameters
	----------
	X: torch.Tensor, shape=(-1, len(alphabet), sequence_length)
		A one-hot encoded set of sequences.

	k: int
		The size of the k-mers to consider.
	

	Returns
	-------
	X_kmers: torch.Tensor, shape=(-1, n_kmers)
		A featurization where each row is an example from the original set of
		sequences and each column is a k-mer that could be in the sequence.
	"""

	n = X.shape[1]

	X = X.type(torch.int32)
	w = torch.arange(n).repeat(k, 1).T * n ** torch.arange(k)
	w = w[None, :, :].type(torch.int32).to(X.device)
	idxs = torch.nn.functional.conv1d(X, w).type(torch.int64)[:, 0]

	if scores is not None:
		scores = scores.unsqueeze(1).type(torch.float32)
		ws = torch.ones(1, 1, k, dtype=torch.float32)
		score_ = torch.nn.functional.conv1d(scores, ws)[:, 0]
	else:
		score_ = torch.ones(1, dtype=torch.float32).expand_as(idxs)

	X_kmers = torch.zeros((X.shape[0], n**k))
	X_kmers.scatter_add_(1, idxs, score_)
	return X_kmers


@njit(parallel=True)
def _fast_extract_gkmers(X, min_k, max_k, max_gap, max_len, max_entries):
	nx = X.shape[0]
	keys = np.zeros((nx, max_entries), dtype='int64')
	scores = np.zeros((nx, max_entries), dtype='float64')

	for xi in prange(nx):
		n = X.shape[1]
		gkmer_attrs = numba.typed.Dict.empty(key_type=key_type, 
			value_type=value_type)

		last_k_gkmers = []
		last_k_gkmers_attrs = []
		last_k_gkmers_hashes = []

		for i in range(n):
			base = int(X[xi, i, 1])
			attr = X[xi, i, 2]

			last_k_gkmers.append(np.array([i], dtype='int32'))
			last_k_gkmers_attrs.append(np.array([attr], dtype='float64'))
			last_k_gkmers_hashes.append(np.array([base+1], dtype='int64'))

		for k in range(2, max_k+1):
			for j in range(n):
				start_position = X[xi, j, 0]

				gkmers_ = []
				gkmer_attrs_ = []
				gkmer_hashes_ = []

				for i in range(j+1, n):
					position = X[xi, i, 0]
					base = int(X[xi, i, 1])
					attr = X[xi, i, 2]

					if (position - start_position) >= max_len:
						break

					for g in range(len(last_k_gkmers[j])):
						gkmer = last_k_gkmers[j][g]
						gkmer_attr = last_k_gkmers_attrs[j][g]
						gkmer_hash = last_k_gkmers_hashes[j][g]

						last_position = X[xi, gkmer, 0]
						if last_position >= position:
							break

						if (position - last_position) > max_gap:
							continue

						diff = int(position - last_position - 1)
						length = int(position - start_position)

						new_gkmer_hash = gkmer_hash + (base+1) * (5 ** length)
						new_gkmer_attr = gkmer_attr + attr
						
						gkmers_.append(i)
						gkmer_attrs_.append(new_gkmer_attr)
						gkmer_hashes_.append(new_gkmer_hash)

						if k >= min_k:
							gkmer_attrs[new_gkmer_hash] = gkmer_attrs.get(
								new_gkmer_hash, 0) + new_gkmer_attr / k

				if len(gkmers_) == 0:
					last_k_gkmers[j] = np.zeros(0, dtype='int32')
					last_k_gkmers_attrs[j] = np.zeros(0, dtype='float64')
					last_k_gkmers_hashes[j] = np.zeros(0, dtype='int64')
				else:
					last_k_gkmers[j] = np.array(gkmers_, dtype='int32')
					last_k_gkmers_attrs[j] = np.array(gkmer_attrs_, 
						dtype='float64')
					last_k_gkmers_hashes[j] = np.array(gkmer_hashes_, 
						dtype='int64')
		
		ny = len(gkmer_attrs)
		keys_ = np.empty(ny, dtype='int64')
		scores_ = np.empty(ny, dtype='float64')

		for i, key in enumerate(gkmer_attrs.keys()):
			keys_[i] = key
			scores_[i] = gkmer_attrs[key]

		idxs = np.argsort(-np.abs(scores_), kind='mergesort')[:max_entries]

		keys[xi] = keys_[idxs]
		scores[xi] = scores_[idxs]

	return keys, scores



def gapped_kmers(X, scores=None, min_k=4, max_k=8, max_gap=2, max_len=10, 
	max_gkmers=10, max_pos=None):
	"""Extract gapped k-mers from sequences and optionally scores.

	This function will extract the gapped k-mers from a set of sequences that
	are one-hot encoded and optionally scores for each position. Without scores,
	this function will return a sparse matrix where each row is an example,
	each column is a gapped k-mer, and the value is the count of that gapped
	k-mer in the data. With scores, the shape will be the same but the value 
	will be the sum of the scores across positions in the gapped k-mers.


	Parameters
	----------
	X: torch.Tensor, shape=(-1, len(alphabet), sequence_length)
		A one-hot encoded set of sequences.

	attr: torch.Tensor with shape=(-1, sequence_length) or None, optional
		A corresponding set of attribution values to use. If None, return counts
		instead of sum of attribution values. Default is None.

	min_k: int, optional
		The minimum number of non-gaps in the k-mer. Default is 4.

	max_k: int, optional
		The maximum number of non-gaps in the k-mer. Default is 8.

	max_gap: int, optional
		The maximum number of gaps in the k-mer. Default is 2.

	max_len: int, optional
		The maximum length of the k-mer, as in, the total number of gaps and
		non-gap characters. Default is 10.

	max_gkmers: int, optional
		The maximum number of gapped k-mers to return.

	top_n_gkmers: int, optional
		..


	Returns
	-------
	gkmers: scipy.sparse.csr_matrix
		A sparse matrix containing either counts or score sums for each kmer
		found.
	"""


	X_idxs = X.argmax(axis=1)
	if not scores:
		scores = torch.ones_like(X_idxs)

	if max_pos is None:
		max_pos = X.shape[-1]

	X_scores = numpy.zeros((X.shape[0], max_pos, 3))
	for i in range(X.shape[0]):
		if scores is not None:
			score_idxs = numpy.argsort(-scores[i])[:max_pos].sort().values
		else:
			score_idxs = numpy.arange(X.shape[-1])

		X_scores[i, :, 0] = score_idxs
		X_scores[i, :, 1] = X_idxs[i, score_idxs]
		X_scores[i, :, 2] = scores[i, score_idxs]

	gkmers, gkmer_scores = _fast_extract_gkmers(X_scores, min_k=min_k, max_k=max_k, 
		max_gap=max_gap, max_len=max_len, max_entries=max_gkmers)
	
	row_idxs = numpy.repeat(range(gkmers.shape[0]), gkmers.shape[1])
	csr_mat = scipy.sparse.csr_matrix((gkmer_scores.flatten(), 
		(row_idxs, gkmers.flatten())), shape=(len(gkmers), 5**max_len))

	return csr_mat