# variant.py
# Contact: Jacob Schreiber <jmschreiber91@gmail.com>

import torch
import itertools

from .io import extract_loci
from .utils import one_hot_encode

from .ersatz import delete
from .ersatz import insert

from .predict import predict
from .marginalize import marginalize


def substitution_effect(model, X, substitutions, args=None, func=predict, 
	additional_func_kwargs=None, **kwargs):
	"""Apply a function before and after including one or more substitutions.

	This function will calculate the effect that substitutions have on the
	output from a model. Any number of substitutions can be added to each
	sequence and the provided `func` is applied before and after these
	substitutions are included in the sequences. By default, this `func` is the
	prediction function and so the results are the difference in predictions
	before and after substitutions are made, but if `func` is something else, 
	such as `deep_lift_shap`, the results will be the attributions before and
	after substitutions are made. At least one substitution should be provided 
	per sequence for the results to be different.

	The substitutions provided must be individual variants, i.e., that each row 
	in the tensor corresponds to a single substitution in a single example, but
	one can encode longer variants (e.g., entire motifs or just multiple
	characters) by passing in multiple rows with adjacent positions. 

	Note that substitutions are not insertions. A substitution involves changing
	one character to another character. An insertion involves adding a new
	character into a sequence and requires trimming the edges afterward. Indels
	can be represented as substitutions as long as the indel is one insertion
	and also one deletion.


	Parameters
	----------
	model: torch.nn.Module
		A PyTorch model to use for making predictions. These models can take in
		any number of inputs and make any number of outputs. The additional
		inputs must be specified in the `args` parameter.

	X: torch.tensor, shape=(-1, len(alphabet), length)
		A one-hot encoded set of sequences to have substitutions included in.

	substitutions: torch.tensor, shape=(-1, 3)
		A set of variants that should be substituted into each sequence. This
		tensor is formatted like a COO-sparse matrix where each row is a single
		variant, the first column is the index in `X`, the second index is the
		position in that example, and the third index is the index into the
		alphabet that should be present at that position (overriding whatever
		is currently there). 

	args: tuple or None, optional
		An optional set of additional arguments to pass into the model. If
		provided, each element in the tuple or list is one input to the model
		and the element must be formatted to be the same batch size as `X`. If
		None, no additional arguments are passed into the forward function. This
		argument is provided here because the args must be copied for each
		shuffle that occurs. Default is None.

	func: function, optional
		A function to apply before and after incorporating the substitution. 
		Default is `predict`.

	additional_func_kwargs: dict, optional
		Additional named arguments to pass into the function when it is called.
		This is provided as an alternate path to route arguments into the 
		function in case they overlap, name-wise, with those in this function,
		or if you want to be absolutely sure that the arguments are making
		their way into the function. Default is {}.

	kwargs: optional
		Additional named arguments that will get passed into the function when
		it is called. Default is no arguments are passed in.


	Returns
	-------
	y_before: torch.Tensor
		The output from `func` before variants are included.

	y_after: torch.Tensor
		The output from `func` after the variants are included.
	"""

	additional_func_kwargs = additional_func_kwargs or {}

	X_var = torch.clone(X)
	X_var[substitutions[:, 0], :, substitutions[:, 1]] = 0
	X_var[substitutions[:, 0], substitutions[:, 2], substitutions[:, 1]] = 1

	y_before = func(model, X, args=args, **additional_func_kwargs, **kwargs)
	y_after = func(model, X_var, args=args, **additional_func_kwargs, **kwargs)
	return y_before, y_after


def deletion_effect(model, X, deletions, left=False, args=None, func=predict,
	additional_func_kwargs=None, **kwargs):
	"""Apply a function before and after deleting characters from a sequence.

	This function will calculate the effect that insertions have on the
	output from a model. Any number of deletions can be specified for each
	sequence and the provided `func` is applied before and after the deletions
	are taken into account. By default, this `func` is the prediction function
	and so the results are the difference in predictions before and after the
	deletions are made, but if `func` is something else, such as 
	`deep_lift_shap`, the results will be the attributions before and after the
	deletions are made. At least one deletion should be provided per sequence
	for the results to be different.

	The deletions provided must be individual characters, i.e., that each row
	in the tensor corresponds to a single deletion in a single example, but one
	can encode longer deletions (e.g., entire motifs or just multiple 
	characters) by passing in multiple rows with adjacent positions.

	Importantly, because models assume a fixed input window but deletons are by
	definition changing the length of the sequence, the provided sequences must
	be of length `model_length + max_deletions_per_sequence`. Basically, if the
	maximum number of deletions in a sequence is equal to 12 and the model
	expects a tensor of length 100 then every sequence provided must be of
	length 112, even if there are fewer than 12 deletions in a particular
	sequence.

	Simply removing all of the specified characters will lead to a set of
	sequences of differing lengths if there are a different number of deletions
	in each sequence. In order to make these sequences all the same length, we
	need to trim from each sequence a number of positions such that in total
	(these additional bases + the number of deletions provided by the user)
	characters removed per example is the same for every example. Because there
	are two ways we can trim positions -- either starting from the left end of 
	the sequence or from the right end of it -- you can use the `left` parameter
	to specify that you should trim positions on the left (`left=True`) or from
	the right (`left=False`, the default) of the sequence. 


	Parameters
	----------
	model: torch.nn.Module
		A PyTorch model to use for making predictions. These models can take in
		any number of inputs and make any number of outputs. The additional
		inputs must be specified in the `args` parameter.

	X: torch.tensor, shape=(-1, len(alphabet), length + max_deletions)
		A one-hot encoded set of sequences to have deletions included in.

	deletions: torch.tensor, shape=(-1, 2)
		A set of deletions indicating characters that should be removed from
		each sequence. Each row should be a single deletion with the first
		column corresponding to the index and the second column corresponding
		to the position within that index. Multiple deletions can occur in each
		example. 

	left: bool, optional
		If False, use the first `n` positions to run through the model before
		making the deletion where `n` is the expected tensor length. If True,
		use the last `n` positions. Basically, whether we trim positions from
		the left or the right when getting sequences of the same length.
		Default is False.

	args: tuple or None, optional
		An optional set of additional arguments to pass into the model. If
		provided, each element in the tuple or list is one input to the model
		and the element must be formatted to be the same batch size as `X`. If
		None, no additional arguments are passed into the forward function. This
		argument is provided here because the args must be copied for each
		shuffle that occurs. Default is None.

	func: function, optional
		A function to apply before and after incorporating the substitution. 
		Default is `predict`.

	additional_func_kwargs: dict, optional
		Additional named arguments to pass into the function when it is called.
		This is provided as an alternate path to route arguments into the 
		function in case they overlap, name-wise, with those in this function,
		or if you want to be absolutely sure that the arguments are making
		their way into the function. Default is {}.

	kwargs: optional
		Additional named arguments that will get passed into the function when
		it is called. Default is no arguments are passed in.


	Returns
	-------
	y_before: torch.Tensor
		The output from `func` before variants are included.

	y_after: torch.Tensor
		The output from `func` after the variants are included.
	"""

	additional_func_kwargs = additional_func_kwargs or {}

	mask = torch.zeros_like(X[:, 0]).type(torch.int32)
	mask[deletions[:, 0], deletions[:, 1]] = 1
	
	counts = mask.sum(dim=-1)
	counts = abs(counts - counts.max())

	m = mask if left == True else torch.flip(mask, dims=(-1,))
	flank = torch.cumsum(1 - m, dim=-1) <= counts[:, None]
	mask = mask.type(torch.bool) | (flank if left == True else torch.flip(
		flank, dims=(-1,)))
	mask = ~mask
	mask = mask[:, None].repeat(1, X.shape[1], 1) 

	X_var = X[mask].reshape(X.shape[0], X.shape[1], -1)

	if left == True:
		X = X[:, :, -X_var.shape[-1]:]
	else:
		X = X[:, :, :X_var.shape[-1]]

	y_before = func(model, X, args=args, **additional_func_kwargs, **kwargs)
	y_after = func(model, X_var, args=args, **additional_func_kwargs, **kwargs)
	return y_before, y_after


def insertion_effect(model, X, insertions, left=False, args=None, func=predict,
	additional_func_kwargs=None, **kwargs):
	"""Apply a function before and after inserting characters into a sequence.

	This function will calculate the effect that insertions have on the
	output from a model. Any number of insertions can be specified for each
	sequence and the provided `func` is applied before and after the insertions
	are taken into account. By default, this `func` is the prediction function
	and so the results are the difference in predictions before and after the
	insertions are made, but if `func` is something else, such as 
	`deep_lift_shap`, the results will be the attributions before and after the
	insertions are made. At least one insertion should be provided per sequence
	for the results to be different.

	The insertions provided must be individual characters, i.e., that each row
	in the tensor corresponds to a single insertion in a single example, but one
	can encode longer insertions (e.g., entire motifs or just multiple 
	characters) by passing in multiple rows with adjacent positions.

	Simply removing all of the specified characters will lead to a set of
	sequences of differing lengths if there are a different number of insertions
	in each sequence. In order to make these sequences all the same length, we
	need to trim from each sequence a number of positions from each sequence
	equal to the number of characters that are being added in. Because there
	are two ways we can trim positions -- either starting from the left end of 
	the sequence or from the right end of it -- you can use the `left` parameter
	to specify that you should trim positions on the left (`left=True`) or from
	the right (`left=False`, the default) of the sequence. 


	Parameters
	----------
	model: torch.nn.Module
		A PyTorch model to use for making predictions. These models can take in
		any number of inputs and make any number of outputs. The additional
		inputs must be specified in the `args` parameter.

	X: torch.tensor, shape=(-1, len(alphabet), length)
		A one-hot encoded set of sequences to have insertions included in.

	insertions: torch.tensor, shape=(-1, 3)
		A set of insertions indicating characters that should be added to
		each sequence. Each row should be a single insertion with the first
		column corresponding to the example and the second column corresponding
		to the position within that example. Multiple insertions can occur in 
		each example. 

	left: bool, optional
		If False, use the first `n` positions to run through the model before
		making the deletion where `n` is the expected tensor length. If True,
		use the last `n` positions. Basically, whether we trim positions from
		the left or the right when getting sequences of the same length.
		Default is False.

	args: tuple or None, optional
		An optional set of additional arguments to pass into the model. If
		provided, each element in the tuple or list is one input to the model
		and the element must be formatted to be the same batch size as `X`. If
		None, no additional arguments are passed into the forward function. This
		argument is provided here because the args must be copied for each
		shuffle that occurs. Default is None.

	func: function, optional
		A function to apply before and after incorporating the substitution. 
		Default is `predict`.

	additional_func_kwargs: dict, optional
		Additional named arguments to pass into the function when it is called.
		This is provided as an alternate path to route arguments into the 
		function in case they overlap, name-wise, with those in this function,
		or if you want to be absolutely sure that the arguments are making
		their way into the function. Default is {}.

	kwargs: optional
		Additional named arguments that will get passed into the function when
		it is called. Default is no arguments are passed in.


	Returns
	-------
	y_before: torch.Tensor
		The output from `func` before variants are included.

	y_after: torch.Tensor
		The output from `func` after the variants are included.
	"""

	additional_func_kwargs = additional_func_kwargs or {}
	X_var = []

	for i in range(X.shape[0]):
		insertions_ = insertions[insertions[:, 0] == i]
		insertions_ = insertions_[torch.argsort(insertions_[:, 1], 
			descending=True)]

		x = X[i:i+1]
		for _, j, char in insertions_:
			v = torch.zeros(1, X.shape[1], 1)
			v[:, char] = 1
			x = insert(x, v, start=j)

		if left == True:
			x = x[:, :, -X.shape[-1]:]
		else:
			x = x[:, :, :X.shape[-1]]
		
		X_var.append(x)

	X_var = torch.cat(X_var)
	y_before = func(model, X, args=args, **additional_func_kwargs, **kwargs)
	y_after = func(model, X_var, args=args, **additional_func_kwargs, **kwargs)
	return y_before, y_after
