# design.py
# Contact: Jacob Schreiber <jmschreiber91@gmail.com>

import time
import numba
import numpy
import torch

from tqdm import tqdm

from .utils import one_hot_encode
from .ersatz import substitute
from .predict import predict


@numba.njit(parallel=True, cache=True)
def _fast_tile_substitute(X, motif):
	"""This function takes a motif and inserts it at all possibilities"""
	
	n_alphabet, n_len = motif.shape
	for i in numba.prange(X.shape[0]):
		for j in range(n_len):
			for k in range(n_alphabet):
				X[i, k, j+i] = motif[k, j]

def greedy_substitution(model, X, motifs, y, loss=torch.nn.MSELoss(
	reduction='none'), mask=None, tol=1e-3, max_iter=-1, args=None, start=None, 
	alphabet=['A', 'C', 'G', 'T'], batch_size=32, device='cuda', verbose=False):
	"""Greedily add motifs to achieve a desired goal. 

	This design function will greedily add motifs to achieve a desired output
	from the model. Each round, the function will iterate through all possible
	motifs, substitute each one with the given spacing, and keep the one whose
	loss function is the smallest. This process will continue until either the
	maximum number of iterations is reached (at which point, `max_iter` motifs
	will have been inserted into the sequence) or the loss falls below `tol`.

	Accordingly, the choice of loss function and desired output from the model
	is crucial for good design. Usually, the loss function can be Euclidean
	distance, but for models with more complex outputs or for subtle design
	tasks one may want to use something else, such as Jensen-Shannon divergence.


	Parameters
	----------
	model: torch.nn.Module
		A PyTorch model to use for making predictions. These models can take in
		any number of inputs and make any number of outputs. The additional
		inputs must be specified in the `args` parameter.

	X: torch.tensor, shape=(1, len(alphabet), length)
		A one-hot encoded sequence to use as the base for design. This must be
		a single sequence and has the first dimension for broadcasting reasons.

	motifs: list of strings
		A list of strings where each string is a motif that can be inserted into
		the sequence. These strings will be one-hot encoded according to the
		provided alphabet.

	y: torch.Tensor or list of torch.Tensors
		A tensor or list of Tensors providing the desired output from the model.
		The type and shape must be compatible with the provided loss function
		and comparable to the output from `model`. Each tensor should have a
		shape of (1, n) where n is the number of outputs from the model. The 
		first dimension is 1 to make broadcasting work correctly.

	loss: function
		This function must take in `y` and `y_hat` where `y` is the desired
		output from the model and `y_hat` is the current prediction from the
		model given the substitutions. By default, this is the 
		torch.nn.MSELoss().

	mask: torch.Tensor
		A mask on the outputs from the model to consider. True means to include
		the outputs in the loss, False means to exclude those outputs from the
		loss. If None, use all outputs. Default is None.

	spacing: int or list or tuple
		The spacing between the substituted motifs or the range of spacings
		to try when inserting each of the next motifs.

	tol: float
		A threshold on the amount of improvement necessary according to loss,
		where the procedure will stop once the improvement is below. Default
		is 1e-3.

	max_iter: int
		The maximum number of iterations to run before terminating the
		procedure. Set to -1 for no limit. Default is -1.

	args: tuple or list or None
		An optional set of additional arguments to pass into the model. If
		provided, each element in the tuple or list is one input to the model
		and the element must be formatted to be the same batch size as `X`. If
		None, no additional arguments are passed into the forward function.
		Default is None.

	start: int or None, optional
		The starting position of where to insert the motif. If None, insert the
		motif into the middle of the sequence such that the middle of the motif
		occurs at the middle of the sequence. Default is None.

	alphabet : set or tuple or list, optional
		A pre-defined alphabet where the ordering of the symbols is the same
		as the index into the returned tensor, i.e., for the alphabet ['A', 'B']
		the returned tensor will have a 1 at index 0 if the character was 'A'.
		Characters outside the alphabet are ignored and none of the indexes are
		set to 1. This is not necessary or used if a one-hot encoded tensor is
		provided for the motif. Default is ['A', 'C', 'G', 'T'].

	batch_size: int, optional
		The number of examples to make predictions for at a time. Default is 32.

	device: str or torch.device
		The device to move the model and batches to when making predictions. If
		set to 'cuda' without a GPU, this function will crash and must be set
		to 'cpu'. Default is 'cuda'. 

	verbose: bool, optional
		Whether to display a progress bar during predictions. Default is False.


	Returns
	-------
	X: torch.Tensor, shape=(-1, len(alphabet), length)
		The edited sequence. 
	"""

	tic = time.time()
	iteration = 0

	y_orig = predict(model, X, args=args, batch_size=batch_size, device=device, 
		verbose=False)

	mask = mask if mask is not None else torch.ones(y_orig.shape[1], dtype=bool)

	loss_prev = loss(y[:, mask], y_orig[:, mask]).mean()
	loss_orig = loss_prev

	if verbose:
		print(("Iteration 0 -- Loss: {:4.4}, Improvement: N/A, Idx: N/A, " +
			"Time (s): 0s").format(loss_prev, time.time() - tic))

	while True:
		if iteration == max_iter:
			break

		tic = time.time()
		best_improvement, best_motif_idx, best_pos = 0, -1, -1
		for idx, motif in enumerate(tqdm(motifs, disable=not verbose)):
			motif_ohe = one_hot_encode(motif, alphabet=alphabet).numpy()
			
			X_ = X.repeat(X.shape[-1] - len(motif) + 1, 1, 1).numpy(force=True)
			_fast_tile_substitute(X_, motif_ohe)
			X_ = torch.from_numpy(X_)

			y_hat = predict(model, X_, args=args, batch_size=batch_size, 
				device=device, verbose=False)

			loss_curr = loss(
				y[:, mask].expand_as(y_hat[:, mask]), 
				y_hat[:, mask],
			).mean(dim=tuple(range(1, len(y_hat.shape))))
			
			pos = loss_curr.argmin()
			loss_curr = loss_curr[pos]
			
			improvement = loss_prev - loss_curr
			if improvement > best_improvement:
				best_improvement = improvement
				best_motif_idx = idx
				best_pos = pos
				best_loss = loss_curr


		if best_motif_idx != -1:
			X = substitute(X, motifs[best_motif_idx], start=best_pos, 
				alphabet=alphabet)
			loss_prev = best_loss

			if verbose:
				print(("Iteration {} -- Loss: {:4.4}, Improvement: {:4.4}, " + 
					"Motif Idx: {}, Pos Idx: {}, Time (s): {:4.4}").format(
						iteration+1, best_loss, best_improvement, 
						best_motif_idx, best_pos, time.time() - tic))

		if best_improvement <= tol:
			break

		iteration += 1

	return X