# match.py
# Author: Jacob Schreiber <jmschreiber91@gmail.com>
# Contribution by: Bo Vagner Hansen <bvh@bmb.sdu.dk>

"""
Provides functions for the calculation of GC-content genome-wide and the
sampling of GC-matched negatives.
"""

import numpy
import pandas
import pyfaidx
import pyBigWig

from tqdm import tqdm
from scipy.stats import ks_2samp
from joblib import Parallel, delayed

def _get_chrom_sizes_dict(fasta, chroms):
	"""Returns a dictionary with the elements of `chroms` as keys and the
	size of the chromosomes as values, extracted from the file `fasta`."""
	with pyfaidx.Fasta(fasta) as genome_stream:
		return {chrom:len(genome_stream[chrom]) for chrom in chroms}

def _chrom_coords_generator(chrom, chrom_size, width):
	"""Tiles a given `chrom` from 0 to `chrom_size`, returning region
	coords of size `width`. Produces chrom_size // width regions,
	ignoring the remainder."""
	start = 0
	for end in range(width, chrom_size+1, width):
		yield chrom, start, end
		start = end

def _resize_coords_generator(coords, width):
	"""Resizes the given `coords` to have size `width` and the same midpoint."""
	left_flank = width // 2
	right_flank = (width+1) // 2
	for chrom, start, end in coords:
		mid = start + (end-start) // 2
		yield chrom, mid-left_flank, mid+right_flank

def _loci_coords_generator(loci_df, width = None):
	"""Takes in a pandas dataframe `loci_df` and returns a generator of loci coordinates.
	The dataframe must contain columns named chrom, start and end - other columns are not
	used. If `width` is set to None, will use the start and end coordinates as given.
	if `width` is an integer, will return start and end coordinates that are `width` apart,
	and centered on the midpoint of the given start and end coordinates."""
	g = ((locus.chrom, locus.start, locus.end) for locus in loci_df.itertuples(index=False))
	return g if width is None else _resize_coords_generator(g, width)

def _valid_locus(chrom, start, end, chrom_sizes):
	"""Returns a bool telling whehter the specificed locus is valid, i.e the `chrom`
	is found in the `chrom_sizes` dictionary and `start` and `end` are within bounds."""
	return (chrom in chrom_sizes) and (start >= 0) and (end <= chrom_sizes[chrom])

def _valid_generator(coords, chrom_sizes):
	"""Returns a generator filtering the provided `coords` for invalid loci using
	the `chrom_sizes` dictionary."""
	return (locus for locus in coords if _valid_locus(*locus, chrom_sizes))

def _sequence_generator_slice(coords, genome):
	"""Generates the sequences given by `coords` from the sliceable `genome`,
	e.g. a str, list or tuple."""
	return (genome[start:end] for _,start,end in coords)

def _sequence_generator_stream(coords, genome_stream):
	"""Streams the sequences given by `coords` from the pyfaidx `genome_stream`.
	Returns a generator, so that only one sequence is kept in memory at a time
	when passing the generator on to an iterator that consumes the sequence."""
	return (genome_stream[chrom][start:end].seq.upper() for chrom,start,end in coords)

def _sequence_generator_buffered(coords, genome_stream):
	"""Returns a generator of sequences given by `coords` from the pyfaidx `genome_stream`.
	The entire chromosomal sequence is loaded into memory. Should mainly be used when
	there are many coords on each chromosome. If not all coords are on the same chromosome,
	the coords should definitely be sorted, as otherwise the function will be very inefficient."""
	buffer_chrom = ''
	for chrom, start, end in coords:
		if buffer_chrom != chrom:
			buffer_chrom = chrom
			buffer_seq = genome_stream[chrom][:].seq
		yield buffer_seq[start:end].upper()

def _sequence_generator(coords, genome, buffer = False):
	"""Wrapper function returning the sequence generator corresponding to the value of
	`genome` and `buffer`. Takes in a `genome`, which can be either a pyfaidx.Fasta object
	or a sliceable object like a str, list or tuple. `buffer` is only used for pyfaidx.Fasta
	objects. `buffer` determines whether the sequences should be streamed (False) or extracted
	as slices from a buffered chromosomal sequence (True)."""
	if isinstance(genome, pyfaidx.Fasta):
		if buffer:
			return _sequence_generator_buffered(coords, genome)
		else:
			return _sequence_generator_stream(coords, genome)
	else:
		return _sequence_generator_slice(coords, genome)

def _perc_generator(sequences, chars):
	"""Calculates the percentage (as a decimal) of `chars` in the provided `sequences`.
	Returns a generator of these percentages."""
	return (sum(seq.count(c) for c in chars) / len(seq) for seq in sequences)

def _extract_counts(chrom, start, end, bw_stream):
	"""Extract the signal from the pyBigWig `bw_stream` in the provided locus and returns
	the sum of the base pair values. If the signal cannot be extracted, returns nan."""
	try:
		value = bw_stream.stats(chrom, start, end, type="sum", exact=True)[0]
		return value if value is not None else 0
	except:
		return float('nan')

def _count_generator(coords, bw_stream, buffer = False):
	"""Wrapper function returning the count generator corresponding to the value of `buffer`.
	If no signal can be extracted from a locus, nan is returned for that locus.
	Buffer determines whether the signals should be streamed (False) or extracted as slices
	from a buffered chromosomal signal (True)."""
	if buffer:
		return _count_generator_buffered(coords, bw_stream)
	else:
		return _count_generator_stream(coords, bw_stream)

def _count_generator_stream(coords, bw_stream):
	"""Takes a list of locus `coords` and a pyBigWig `bw_stream` and returns a generator
	producing the sum of counts for each locus. The signals are streamed from the locus,
	such that only one locus signal is kept in memory at a time. As reading from a bigwig
	is a bit slow, it can be quite time consuming to use this function across an entire
	chromosome, hence the buffered version should be preferred in that case."""
	return (_extract_counts(*locus, bw_stream) for locus in coords)

def _count_generator_buffered(coords, bw_stream):
	"""Takes a list of locus `coords` and a pyBigWig `bw_stream` and returns a generator
	producing the sum of counts for each locus. The signal for an entire chromosome
	is kept in memory at a time, to speed up the extraction of multiple signals across
	a chromosome. This function should mainly be used if calculating the counts for
	densely spaced regions across the chromosomes. In addition, `coords` should be sorted
	by chromosome, otherwise the function will be very inefficient."""
	buffer_chrom = ''
	for chrom, start, end in coords:
		if buffer_chrom != chrom:
			buffer_chrom = chrom
			try:
				buffer_signal = bw_stream.values(chrom, 0, -1, numpy=True)
			except:
				buffer_signal = None
		if buffer_signal is not None:
			yield numpy.nansum(buffer_signal[start:end]).item()
		else:
			yield float('nan')

def _char_perc_from_coords(fasta, coords, chars, num_regions=-1, buffer=False, verbose=False):
	"""This method will take in a `fasta` file and return the percentage of `chars`
	in the sequences extracted from the fasta file and defined by the list of `coords`.
	This is usually used to calculate GC percentage but can also be used to calculate
	the percentage of N's.

	Parameters
	----------
	fasta: str
		The path to a fasta file, usually a reference genome.

	coords: list, tuple or generator of such
		iterable of tuples formatted like (chr, start, end),
		where `chr` is a string and `start` and `end` are integers.

	chars: iterable, such as set, list, tuple or str
		The characters to look for in the sequences bounded by `coords`.
		The function returns the percentage of these characters found in
		each sequence.

	num_regions: int, optional
		The number of regions given by coords, i.e. the length of coords.
		Used for efficient construction of the output numpy array, in case
		coords is given as a generator. If set to -1, the number or regions
		will automatically be inferred. Default is -1.

	buffer: bool, optional
		Whether to load the entire chromosomal sequence into memory and
		and extract the sequences as slices of the entire chromosome.
		Should only be set to true if there are many regions
		on the same chromosome, such as when calculating GC content for
		an entire chromosome. It is not recommend to use buffering if
		calculating char pecentages for only peak regions, but if done
		anyway for some reason, the peaks should be sorted by chromosome.
		If set to false, will instead only load the sequence for a single
		region at a time into memory. Default is False.

	verbose: bool, optional
		Whether to display a progress bar.

	Returns
	-------
	perc: numpy.ndarray, shape=(len(list(coords)), )
	"""
	desc = "Getting %s percentages" % ''.join(chars)
    
	with pyfaidx.Fasta(fasta) as genome_stream:
		generator = _sequence_generator(coords, genome_stream, buffer=buffer)
		generator = _perc_generator(generator, chars)
		generator = tqdm(generator, disable=not verbose, desc=desc)
		perc = numpy.fromiter(generator, dtype=float, count=num_regions)

	return perc

def _counts_from_coords(bigwig, coords, num_regions=-1, buffer=False, verbose=False):
	"""An internal function returning the percentage of `chars` for each sequence
	with `coords` extracted from the `fasta` file.

	This method will take in a `fasta` file and return the percentage of `chars`
	in the sequences extracted from the fasta file and defined by the list of `coords`.
	This is usually used to calculate GC percentage but can also be used to calculate
	the percentage of N's.

	Parameters
	----------
	fasta: str
		The path to a bigwig file to extract counts from.

	coords: list, tuple or generator of such
		iterable of tuples formatted like (chr, start, end),
		where `chr` is a string and `start` and `end` are integers.

	num_regions: int, optional
		The number of regions given by coords, i.e. the length of coords.
		Used for efficient construction of the output numpy array, in case
		coords is given as a generator. If set to -1, the number or regions
		will automatically be inferred. Default is -1.

	buffer: bool, optional
		Whether to load the entire chromosomal signal into memory and
		and extract the locus signals as slices of the entire chromosome.
		Should only be set to true if there are many regions on the same 
		chromosome. If calculating counts for regions on many chromosomes,
		the regions should be sorted by chromosome.
		If set to false, will instead only load the signal for a single
  		region at a time into memory. Default is False.

	verbose: bool, optional
		Whether to display a progress bar.

	Returns
	-------
	count: numpy.ndarray, shape=(len(list(coords)), )
	"""
	desc = "Getting counts"

	with pyBigWig.open(bigwig, "r") as bw_stream:
		generator = _count_generator(coords, bw_stream, buffer=buffer)
		generator = tqdm(generator, disable=not verbose, desc=desc)
		count = numpy.fromiter(generator, dtype=float, count=num_regions)

	return count

def _calculate_char_perc(sequence, width, chars):
	"""An internal function returning the percentage of `chars` in `sequence`.

	This method will take in a string `sequence` and return the percentage
	of each non-overlapping block of length `width` across the sequence
	containing `chars`. This is usually used to calculate GC percentage but
	can also be used to calculate the percentage of N's in a sequence.
	

	Parameters
	----------
	sequence: str
		A string made up of the alphabet 'A', 'C', 'G', 'T', 'N'.

	width: int
		The total width of the window to calculate the GC content for, e.g.,
		`1000` if you want to calculate this for 1000 bp blocks.

	chars: iterable, such as set, list, tuple or str
		The characters to look for in the sequence. The returned percentage is
		the percentage of the original sequence that is one of these characters.

	Returns
	-------
	perc: numpy.ndarray, shape=(len(sequence) // width,)
	"""

	seq_len = len(sequence)
	num_regions = seq_len // width
	coords = _chrom_coords_generator(chrom='', chrom_size=seq_len, width=width)
	seqs = _sequence_generator(coords, sequence)
	perc = _perc_generator(seqs, chars)
	perc = numpy.fromiter(perc, dtype=float, count=num_regions)
	return perc

def _extract_and_filter_chrom(fasta, chrom, in_window, out_window, 
	max_n_perc=0.1, gc_bin_width=0.02, bigwig=None, signal_threshold=None):
	"""Calculate GC content for, and filter, one chromosome.

	This function will take in the name of a FASTA file, a chromosome, and a
	percentage of Ns that cannot be exceeded, and return a set of passing loci
	and their exact GC percentage. Optionally, it will also take in a bigwig
	and filter the loci based on having a signal threshold smaller than some
	value, where the signal is summed across the width.

	
	Parameters
	----------
	fasta: str
		The filepath to the FASTA file to extract sequences from.

	chrom: str
		The chromosome to extract from the FASTA file. Must be in the file.

	in_window: int
		The window to calculate the GC content over, corresponding to the input
		window of the downstream model that will be trained.

	out_window: int
		The window to calculate signal for and apply the signal threshold to,
		corresponding to the output window of the downstream model that will
		be trained.

	max_n_perc: float, range=(0, 1.0), optional
		The maximum percentage of N characters in each window to be considered.
		All windows with a higher percentage are discarded. Default is 0.1.

	gc_bin_width: float, range=(0, 1.0), optional
		The bin size to discretize GC content. Default is 0.02.

	bigwig: str or None, optional
		If filtering regions based on signal strength, calculate the signal
		from this bigwig. If None, do not filter based on signal strength.
		Default is None.

	signal_threshold: float or None, optional
		The maximum possible signal, summed across the entire window, that
		each window can have without being filtered. If the window has a summed
		signal higher than this value, the window is discarded. Default is None.

	Returns
	-------
	gc_percs: dict
		A dictionary where the keys are observed GC bins and the values are
		lists of loci that are in that GC bin. Each returned locus is the index
		not the true value and so corresponds to the real position integer
		divided by in_window.
	"""

	with pyfaidx.Fasta(fasta) as f:
		sequence = f[chrom][:].seq.upper()

	gc_perc = _calculate_char_perc(sequence, in_window, 'GC')
	n_perc = _calculate_char_perc(sequence, in_window, 'N')
	del sequence

	idxs = n_perc <= max_n_perc
    
	if bigwig is not None:
		assert(in_window >= out_window), "out_window cannot be larger than in_window."
		left_flank = (in_window - out_window) // 2
		right_flank = (in_window - out_window + 1) // 2
        
		with pyBigWig.open(bigwig, "r") as bw:
			try:
				values = bw.values(chrom, 0, -1, numpy=True)
			except RuntimeError:
				return {}
        
		values = values[:values.shape[0] // in_window * in_window]
		values = values.reshape(-1, in_window)
		values = values[:, left_flank:in_window-right_flank]
		values = numpy.nansum(values, axis=-1)

		idxs = idxs & (values <= signal_threshold)

	gc_perc = ((gc_perc + gc_bin_width / 2.) // gc_bin_width).astype(int)
	unique_gc = numpy.unique(gc_perc[idxs]).tolist()
	gc_perc = {gc:numpy.nonzero(idxs & (gc_perc == gc))[0].tolist() for gc in unique_gc}

	return gc_perc


def extract_matching_loci(loci, fasta, in_window=2114, out_window=1000, 
	max_n_perc=0.1, gc_bin_width=0.02, bigwig=None, signal_beta=0.5, 
	chroms=None, random_state=None, n_jobs=-1, verbose=False):
	"""Extract matching loci given a fasta file.

	This function takes in a set of loci (a bed file or a pandas dataframe in 
	bed format) and returns a GC-matched set of negatives. This will also
	perform basic filtering to ignore regions of the genome that are too high
	in Ns. Optionally, it can take in a bigwig and a signal threshold and only
	select regions that have fewer than a threshold of counts in each region.

	Importantly, it will apply `max_n_perc` to both the loci that are passed in
	and also potential regions that can be selected. This means that if a locus
	passed in has higher than `max_n_perc` number of unspecified positions,
	it will be filtered out, and a smaller number of positions will be selected.
	This is done because the GC content of a region with many Ns in it is not
	trustworthy.


	Parameters
	----------
	loci: str or pandas dataframe
		A filepath to a bed file, or a pandas dataframe in bed format.

	fasta: str
		The filepath to the FASTA file to extract sequences from.

	in_window: int
		The window to calculate the GC content over, corresponding to the input
		window of the downstream model that will be trained.

	out_window: int
		The window to calculate signal for and apply the signal threshold to,
		corresponding to the output window of the downstream model that will
		be trained.

	max_n_perc: float, range=(0, 1.0), optional
		The maximum percentage of N characters in each window to be considered.
		All windows with a higher percentage are discarded. Default is 0.1.

	gc_bin_width: float, range=(0, 1.0), optional
		The bin size to discretize GC content. Default is 0.02.

	bigwig: str or None, optional
		If filtering regions based on signal strength, calculate the signal
		from this bigwig. If None, do not filter based on signal strength.
		Default is None.

	signal_beta: float or None, optional
		A multiplier of the robust minimum signal calculated from `loci` that
		each background region must have fewer reads then. Only relevant if a
		bigwig is passed in. Default is 0.5.

	chroms: list, tuple, or None, optional
		A set of chromosomes to use when choosing matching loci. If None, only
		use chromosomes that the loci themselves are drawn from. Default is
		None.

	random_state: numpy.random.RandomState, int or None, optional
		A random state to use for sampling loci. If a RandomState object or
		an integer, this will produce deterministic sampling. If None, sampling
		will be different each time. Default is None.

	n_jobs: integer, optional
		Number of parallel processes to use for extracting background gc content.
		-1 means use all available CPUs. Default is -1. 

	verbose: bool, optional
		Whether to print display bars and diagnostics to ensure that the
		sampling is reasonable. When set to True, there may be a large amount
		of output. Default is False. 


	Returns
	-------
	matched_loci: pandas.DataFrame
		A bed-formatted set of matched loci sorted first by chromosome and
		then by position on the chromosome. Note that these are not sorted
		such that the i-th position in this file is a GC match for the i-th
		position in the original locus file.
	"""

	if not isinstance(random_state, numpy.random.RandomState):
		random_state = numpy.random.RandomState(random_state)

	if isinstance(loci, str):
		loci = pandas.read_csv(loci, sep='\t', usecols=[0, 1, 2], header=None, 
			index_col=False, names=['chrom', 'start', 'end'])

	loci_chroms = numpy.unique(loci['chrom'])
	if chroms is None:
		chroms = loci_chroms

	chrom_sizes = _get_chrom_sizes_dict(fasta, loci_chroms)

	if verbose: print("Processing given loci.")
	coords = _loci_coords_generator(loci, max(in_window, out_window))
	coords = list(_valid_generator(coords, chrom_sizes))
	num_regions = len(coords)

	threshold = None
	if bigwig is not None:
		coords = list(_resize_coords_generator(coords, out_window))
		loci_count = _counts_from_coords(bigwig, coords, num_regions, buffer=False, verbose=verbose)
		robust_min = numpy.nanquantile(loci_count, 0.01).item()
		threshold = robust_min * signal_beta
    
	coords = list(_resize_coords_generator(coords, in_window))
	loci_n = _char_perc_from_coords(fasta, coords, 'N', num_regions, buffer=False, verbose=verbose)
	loci_gc = _char_perc_from_coords(fasta, coords, 'GC', num_regions, buffer=False, verbose=verbose)
	loci_gc = loci_gc[loci_n < max_n_perc]

	loci_gc = ((loci_gc + gc_bin_width / 2.) // gc_bin_width).astype(int)
	loci_bin_count = numpy.zeros(int(1./gc_bin_width)+1, dtype=int)
	for gc_bin in loci_gc:
		loci_bin_count[gc_bin] += 1

	# Extract mask of already-selected loci
	mask = {chrom: [] for chrom in chroms}
	for locus in loci.itertuples(index=False):
		if locus.chrom not in mask:
			continue

		start = locus.start // in_window
		end = locus.end // in_window + 1

		mask[locus.chrom].extend(range(start, end))

	for chrom, values in mask.items():
		mask[chrom] = set(values)

	# Get GC content of background regions
	desc = 'Getting background GC'
	f = delayed(_extract_and_filter_chrom)
	chrom_percs = Parallel(n_jobs=n_jobs)(f(
		fasta=fasta, 
		chrom=chrom, 
		in_window=in_window,
		out_window=out_window, 
		max_n_perc=max_n_perc,
		gc_bin_width=gc_bin_width,
		bigwig=bigwig, 
		signal_threshold=threshold) 
		for chrom in tqdm(chroms, disable=not verbose, desc=desc))
   
	# Merge them into a single dictionary, keeping track of chroms
	bg_bin_count = numpy.zeros(int(1./gc_bin_width) + 1, dtype=int)
	gc_percs = {perc: [] for perc in range(len(bg_bin_count))}
	
	for chrom, percs in zip(chroms, chrom_percs):
		for key, values in percs.items():
			for value in values:
				if value not in mask[chrom]:
					gc_percs[key].append((chrom, value))
					bg_bin_count[key] += 1

	for key, value in gc_percs.items():
		random_state.shuffle(value)

	orig_bg_bin_count = bg_bin_count.copy()
	orig_loci_bin_count = loci_bin_count.copy()

	# Match the sizes
	matched_loci_bin_count = numpy.minimum(bg_bin_count, loci_bin_count)
	bg_bin_count -= matched_loci_bin_count
	loci_bin_count -= matched_loci_bin_count

	n = len(loci_bin_count)
	for i in range(n-1, -1, -1):
		if loci_bin_count[i] == 0:
			continue

		for offset in range(n):
			idx = i + offset
			if idx < n:
				count = min(bg_bin_count[idx], loci_bin_count[i])
				bg_bin_count[idx] -= count
				loci_bin_count[i] -= count
				matched_loci_bin_count[idx] += count

			if loci_bin_count[i] == 0:
				break

			idx = i - offset
			if idx >= 0:
				count = min(bg_bin_count[idx], loci_bin_count[i])
				bg_bin_count[idx] -= count
				loci_bin_count[i] -= count
				matched_loci_bin_count[idx] += count

			if loci_bin_count[i] == 0:
				break

	if verbose:
		numpy.set_printoptions(suppress=True)
		print("GC Bin\tBackground Count\tPeak Count\tChosen Count")
		for i in range(n):
			print("{:2.2f}: {:8d}\t{:8d}\t{:8d}".format(
				numpy.arange(0, 1.01, gc_bin_width)[i], 
				orig_bg_bin_count[i], orig_loci_bin_count[i], 
				matched_loci_bin_count[i]))

	# Extract the loci
	matched_loci = {'chrom': [], 'start': [], 'end': []}
	for i in range(n):
		for j in range(matched_loci_bin_count[i]):
			chrom, start = gc_percs[i][j]

			matched_loci['chrom'].append(chrom)
			matched_loci['start'].append(start*in_window)
			matched_loci['end'].append((start+1)*in_window)

	matched_loci = pandas.DataFrame(matched_loci)

	if verbose:     
		matched_gc = []
		for i,j in enumerate(matched_loci_bin_count):
			matched_gc.extend([i]*j)
            
		stats = ks_2samp(loci_gc, matched_gc)
		print("GC-bin KS test stat:{:3.3}, p-value {:3.3}".format(
			stats.statistic, stats.pvalue))

		if bigwig is not None:
			print("Processing matched loci.")
			coords = _loci_coords_generator(matched_loci, out_window)
			num_regions = len(matched_loci)
			matched_count_max = _counts_from_coords(bigwig, coords, num_regions, buffer=False, verbose=verbose).max()
			print("Peak Robust Signal Minimum: {}".format(robust_min))
			print("Matched Signal Maximum: {}".format(matched_count_max))
  
	matched_loci = matched_loci.sort_values(["chrom", "start"])
	return matched_loci
