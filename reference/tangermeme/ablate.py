# ablate.py
# Contact: Jacob Schreiber <jmschreiber91@gmail.com>

import torch
import inspect

from .ersatz import shuffle
from .predict import predict


def ablate(model, X, start, end, n=20, shuffle_fn=shuffle, args=None, 
	random_state=None, func=predict, additional_func_kwargs=None, **kwargs):
	"""Make predictions before and after shuffling a region of sequences.

	An ablation experiment is one where a motif (or region of interest) is
	shuffled to remove any potential signal that could be in it. Outputs
	are returned before and after the region is shuffled and for a given
	number of shuffles.

	Ablation experiments can be thought of as the conceptual opposite of
	marginalization experiments. Both involve applying a function before and
	after some sequence modification, but marginalizations usually involve 
	substituting a potentially-informative motif into a set of background
	sequences, but an ablation usually involves removing drivers of signal
	from a sequence.

	By default, `ablate` will apply the `predict` function to `X` before
	and after shuffling the given sequence. However, one can pass in any 
	function, including `deep_lift_shap` or even `saturated_mutagenesis`. These 
	functions may have additional arguments and those can be passed into 
	`marginalize` as-is and will be passed along to the function. If any 
	arguments would have had the same name as those used by this function, you 
	can use the `additional_func_kwargs` input to ensure those values get to 
	the function.

	Note: if `random_state` is passed in, it will make the shuffling step
	deterministic, but it will also be added to `additional_func_kwargs` if
	there is not already a key called `random_state` in it. Essentially,
	`random_state` makes shuffling deterministic and will also make the function
	deterministic if the function accepts a random state, but if you'd like to
	set your own separate state for the function it will not be overriden.


	Parameters
	----------
	model: torch.nn.Module
		A PyTorch model to use for making predictions. These models can take in
		any number of inputs and make any number of outputs. The additional
		inputs must be specified in the `args` parameter.

	X: torch.tensor, shape=(-1, len(alphabet), length)
		A one-hot encoded set of sequences to have a motif inserted into.

	start: int, optional
		The starting position of where to randomize the sequence, inclusive.
		Default is 0, shuffling the entire sequence.

	end: int, optional
		The ending position of where to randomize the sequence, not inclusive.
		Default is -1, shuffling the entire sequence.

	n: int, optional
		The number of times to shuffle that region. Default is 1.

	shuffle_fn: function
		A function that will shuffle a portion of the sequence. This can be
		`ersatz.shuffle`, `ersatz.dinucleotide_shuffle`, or any other function
		with the signature func(X, start, end, random_state) where `X` is a
		tensor with shape (-1, len(alphabet), length), `start` and `end` are
		coordinates on that sequence, and `random_state` is a seed to use to
		ensure determinism. Default is `ersatz.shuffle`. 

	args: tuple or None, optional
		An optional set of additional arguments to pass into the model. If
		provided, each element in the tuple or list is one input to the model
		and the element must be formatted to be the same batch size as `X`. If
		None, no additional arguments are passed into the forward function. This
		argument is provided here because the args must be copied for each
		shuffle that occurs. Default is None.

	random_state: int or None or numpy.random.RandomState, optional
		The random seed to use to ensure determinism of both the shuffling
		step and the function if the function also takes in a random state.
		If None, the run will not be deterministic. Default is None.

	func: function, optional
		A function to apply before and after making the ablation. Default 
		is `predict`.

	additional_func_kwargs: dict, optional
		Additional named arguments to pass into the function when it is called.
		This is provided as an alternate path to route arguments into the 
		function in case they overlap, name-wise, with those in this function,
		or if you want to be absolutely sure that the arguments are making
		their way into the function. Default is {}.

	kwargs: optional
		Additional named arguments that will get passed into the function when
		it is called. Default is no arguments are passed in.
 

	Returns
	-------
	y_before: torch.Tensor or list of torch.Tensors
		The predictions from the model before inserting the motif in. If the
		output from the model's forward function is a single tensor, it will
		return that. If the model outputs a list of tensors, it will return
		those.

	y_after: torch.Tensor or list of torch.Tensors
		The predictions from the model after inserting the motif in. If the
		output from the model's forward function is a single tensor, it will
		return that. If the model outputs a list of tensors, it will return
		those.
	"""

	additional_func_kwargs = additional_func_kwargs or {}
	if 'random_state' in inspect.signature(func).parameters.keys():
		if 'random_state' not in additional_func_kwargs:
			additional_func_kwargs['random_state'] = random_state


	X_perturb = shuffle_fn(X, start=start, end=end, n=n, 
		random_state=random_state)

	args_n = None if args is None else tuple(a.repeat_interleave(n, dim=0) 
		for a in args)

	y_before = func(model, X, args=args, **kwargs, **additional_func_kwargs)
	y_after = func(model, X_perturb.reshape(-1, *X_perturb.shape[2:]),
		args=args_n, **kwargs, **additional_func_kwargs)

	if isinstance(y_after, torch.Tensor):
		y_after = y_after.reshape(*X_perturb.shape[:2], *y_after.shape[1:])
	else:
		y_after = [y.reshape(*X_perturb.shape[:2], *y.shape[1:]) 
			for y in y_after]

	return y_before, y_after


def ablate_annotations(model, X, annotations, **kwargs):
	"""Ablate each annotation individually and return the deltas.

	This function takes in a model, a set of sequences, and a set of annotations
	and goes through the annotations one at a time ablating the sequence. The
	model predictions before and after ablation are returned, similar to the
	saturation_mutagenesis function. Each ablation is done individually, so
	the difference in model predictions is from just one annotation at a time.


	Parameters
	----------
	model: torch.nn.Module
		A PyTorch model to use for making predictions. These models can take in
		any number of inputs and make any number of outputs. The additional
		inputs must be specified in the `args` parameter.

	X: torch.tensor, shape=(-1, len(alphabet), length)
		A one-hot encoded set of sequences to have a motif inserted into.

	annotations: torch.Tensor, shape=(n_annotations, 3)
		A tensor of annotations where the first column is the example_idx, the
		second column is the start position (0-indexed) and the third column is
		the end position (0-indexed, not inclusive).

	kwargs: arguments
		Additional optional arguments to pass into the `ablate` function.

	
	Returns
	-------
	y_befores: torch.Tensor or list of torch.Tensors
		The application of `func` from the model BEFORE ablating the motif. If 
		the output from the model's forward function is a single tensor, it will 
		return that. If the model outputs a list of tensors, it will return 
		those.

	y_afters: torch.Tensor or list of torch.Tensors
		The application of `func` from the model AFTER ablating the motif. If 
		the output from the model's forward function is a single tensor, it will
		return that. If the model outputs a list of tensors, it will return
		those.
	"""

	y_befores, y_afters = [], []

	for idx, start, end in annotations:
		y_before, y_after = ablate(model, X[idx:idx+1], start=start, end=end, 
			**kwargs)

		y_befores.append(y_before)
		y_afters.append(y_after)

	if isinstance(y_afters[0], torch.Tensor):
		y_befores = torch.stack(y_befores)
		y_afters = torch.stack(y_afters)
	else:
		y_befores = [torch.stack([x[i] for x in y_befores]) for i in range(len(
			y_befores[0]))]
		y_afters = [torch.stack([x[i] for x in y_afters]) for i in range(len(
			y_afters[0]))]

	return y_befores, y_afters
