# io.py
# Author: Jacob Schreiber <jmschreiber91@gmail.com>
# Code adapted from Alex Tseng, Avanti Shrikumar, and Ziga Avsec

import numpy
import torch
import pandas

import pyfaidx
import pyBigWig

from tqdm import tqdm

from .utils import one_hot_encode


def _interleave_loci(loci, chroms=None):
	"""An internal function for processing the provided loci.

	There are two aspects that have to be considered when processing the loci.
	The first is that the user can pass in either strings containing filenames
	or pandas DataFrames. The second is that the user can pass in a single
	value or a list of values, and if a list of values the resulting dataframes
	must be interleaved.

	If a set of chromosomes is provided, each dataframe will be filtered to
	loci on those chromosomes before interleaving. If a more complicated form
	of filtering is desired, one should pre-filter the dataframes and pass those
	into this function for interleaving.


	Parameters
	----------
	loci: str, pandas.DataFrame, or list of those
		A filename to load, a pandas DataFrame in bed-format, or a list of
		either.

	chroms: list or None, optional
		A set of chromosomes to restrict the loci to. This is done before
		interleaving to ensure balance across sets of loci. If None, do not
		do filtering. Default is None.


	Returns
	-------
	interleaved_loci: pandas.DataFrame
		A single pandas DataFrame that interleaves rows from each of the
		provided examples.
	"""

	if chroms is not None:
		if not isinstance(chroms, (list, tuple)):
			raise ValueError("Provided chroms must be a list.")

	if isinstance(loci, (str, pandas.DataFrame)):
		loci = [loci]
	elif not isinstance(loci, (list, tuple)):
		raise ValueError("Provided loci must be a string or pandas " +
			"DataFrame, or a list/tuple of those.")

	names = ['chrom', 'start', 'end']
	loci_dfs = []
	for i, df in enumerate(loci):
		if isinstance(df, str):
			df = pandas.read_csv(df, sep='\t', usecols=[0, 1, 2], 
				header=None, index_col=False, names=names)
		elif isinstance(df, pandas.DataFrame):
			df = df.iloc[:, [0, 1, 2]].copy()
		else:
			raise ValueError("Provided loci must be a string or pandas " +
				"DataFrame, or a list/tuple of those.")

		if chroms is not None:
			df = df[numpy.isin(df['chrom'], chroms)]

		df['idx'] = numpy.arange(len(df)) * len(loci) + i
		loci_dfs.append(df)

	loci = pandas.concat(loci_dfs)
	loci = loci.set_index("idx").sort_index().reset_index(drop=True)
	return loci


def _load_signals(signals):
	"""An internal function for loading signals.

	The passed in signals must be a list but can either be a list of strings,
	which are interpreted as strings for bigwig files that should be opened,
	or dictionaries where the keys are chromosome names and the values are
	numpy arrays of values across the chromosome, which are kept as is.


	Parameters
	----------
	signals: list of strings or dicts or None
		A list of strings for bigwig files or dictionaries of numpy arrays.


	Returns
	-------
	_signals: list of dicts
		A list of either pointers to opened bigwig files or dictionaries of
		numpy a
	"""

	if signals is None:
		return None

	_signals = []
	for i, signal in enumerate(signals):
		if isinstance(signal, str):
			signal = pyBigWig.open(signal)
		elif not isinstance(signal, dict):
			raise ValueError("Signals must either be a list of strings " +
				"or a list of dictionaries.")
		elif not isinstance(list(signal.values())[0], numpy.ndarray):
			raise ValueError("Values in dictionaries must be numpy.ndarrays.")

		_signals.append(signal)

	return _signals


def _extract_locus_signal(signals, chrom, start, end):
	"""An internal function for extracting signal from a single locus.

	This function takes in a set of signals and a single locus and extracts
	the signal from each one of the loci.


	Parameters
	----------
	signals: list of pyBigWig objects or dictionaries
		A list of opened pyBigWig objects or dictionaries where the keys are
		chromosomes and the values are the signal at each position in the
		chromosome.

	chrom: str
		The name of the chromosome. Must be a key in the signals.

	start: int
		The starting coordinate to extract from, inclusive and base-0.

	end: int
		The ending coordinate to extract from, exclusive and base-0.


	Returns
	-------
	values: list of numpy.ndarrays, shape=(len(signals), end-start)
		The extracted signal from each of the signal files.
	"""

	if not isinstance(signals, (list, tuple)):
		raise ValueError("Provided signals must be in the form of a list.")

	values = []
	for i, signal in enumerate(signals):
		if isinstance(signal, dict):
			values_ = signal[chrom][start:end]
		else:
			try:
				values_ = signal.values(chrom, start, end, numpy=True)
			except:
				print(f"Warning: {chrom} {start} {end} not " +
					"valid bigwig indexes. Using zeros instead.")
				values_ = numpy.zeros(end-start)

		values_ = numpy.nan_to_num(values_)
		values.append(values_)

	return values


def extract_loci(loci, sequences, signals=None, in_signals=None, chroms=None, 
	in_window=2114, out_window=1000, max_jitter=0, min_counts=None,
	max_counts=None, target_idx=0, n_loci=None, alphabet=['A', 'C', 'G', 'T'], 
	ignore=['N'], verbose=False):
	"""Extract sequence and signal information for each provided locus.

	This function will take in a set of loci, sequences, and optionally signals,
	and return the sequences and signals at each of the loci. Each of these
	parameters can be a filename, which is loaded internally, or an appropriate
	Python object (see below for details). The nomenclature `in/out` refer to
	he expected inputs and outputs of the downstream machine learning model, 
	not this function.

	For each locus a sequence window of size `in_window` will be extracted from
	the sequences file and each of the `input_signals` files if provided, and
	a window of size `out_window` will be extracted from each of the `signals`
	files if provided. These windows are centered at the middle of the provided
	regions but all be of the same size, regardless of the size of the peak.

	If `max_jitter` is provided, it will expand the windows for both the input
	and output. The results are not actually jittered, but this expanded window
	allows for downstream data generators to created jittered data while
	reducing the memory footprint of the returned data.

	There are a few reasons that the returned elements may not match one-to-one
	with the provided loci:

		- (1) If any of the coordinates fall off the end of chromosomes after
		accounting for jitter, the locus will be removed.

		- (2) If any of the loci fall on chromosomes not in a provided list,
		they will be removed.

		- (3) If min_counts or max_counts are specified and the locus has a 
		number of counts not in those boundaries.
 

	Parameters
	----------
	loci: str or pandas.DataFrame or list/tuple of such
		Either the path to a bed file or a pandas DataFrame object containing
		three columns: the chromosome, the start, and the end, of each locus
		to train on. Alternatively, a list or tuple of strings/DataFrames where
		the intention is to train on the interleaved concatenation, i.e., when
		you want to train on peaks and negatives.

	sequences: str or dictionary
		Either the path to a fasta file to read from or a dictionary where the
		keys are the unique set of chromosoms and the values are one-hot
		encoded sequences as numpy arrays or memory maps.

	signals: list of strs or list of dictionaries or None, optional
		A list of filepaths to bigwig files, where each filepath will be read
		using pyBigWig, or a list of dictionaries where the keys are the same
		set of unique chromosomes and the values are numpy arrays or memory
		maps. If None, no signal tensor is returned. Default is None.

	input_signals: list of strs or list of dictionaries or None, optional
		A list of filepaths to bigwig files, where each filepath will be read
		using pyBigWig, or a list of dictionaries where the keys are the same
		set of unique chromosomes and the values are numpy arrays or memory
		maps. If None, no tensor is returned. Default is None. 

	chroms: list or None, optional
		A set of chromosomes to extact loci from. Loci in other chromosomes
		in the locus file are ignored. If None, all loci are used. Default is
		None.

	in_window: int, optional
		The input window size. Default is 2114.

	out_window: int, optional
		The output window size. Default is 1000.

	max_jitter: int, optional
		The maximum amount of jitter to add, in either direction, to the
		midpoints that are passed in. Default is 0.

	min_counts: float or None, optional
		The minimum number of counts, summed across the length of each example
		and across all tasks, needed to be kept. If None, no minimum. Default 
		is None.

	max_counts: float or None, optional
		The maximum number of counts, summed across the length of each example
		and across all tasks, needed to be kept. If None, no maximum. Default 
		is None.  

	target_idx: int, optional
		When specifying `min_counts` or `max_counts`, the single `signal`
		file to use when determining if a region has a number of counts in
		that range. Default is 0.

	n_loci: int or None, optional
		A cap on the number of loci to return. Note that this is not the
		number of loci that are considered. The difference is that some
		loci may be filtered out for various reasons, and those are not
		counted towards the total. If None, no cap. Default is None.

	alphabet : set or tuple or list
		A pre-defined alphabet where the ordering of the symbols is the same
		as the index into the returned tensor, i.e., for the alphabet ['A', 'B']
		the returned tensor will have a 1 at index 0 if the character was 'A'.
		Characters outside the alphabet are ignored and none of the indexes are
		set to 1. Default is ['A', 'C', 'G', 'T'].

	ignore: list, optional
		A list of characters to ignore in the sequence, meaning that no bits
		are set to 1 in the returned one-hot encoding. Put another way, the
		sum across characters is equal to 1 for all positions except those
		where the original sequence is in this list. Default is ['N'].

	verbose: bool, optional
		Whether to display a progress bar while loading. Default is False.


	Returns
	-------
	seqs: torch.tensor, shape=(n, 4, in_window+2*max_jitter)
		The extracted sequences in the same order as the loci in the locus
		file after optional filtering by chromosome.

	signals: torch.tensor, shape=(n, len(signals), out_window+2*max_jitter)
		The extracted signals where the first dimension is in the same order
		as loci in the locus file after optional filtering by chromosome and
		the second dimension is in the same order as the list of signal files.
		If no signal files are given, this is not returned.

	in_signals: torch.tensor, shape=(n, len(in_signals),out_window+2*max_jitter)
		The extracted in signals where the first dimension is in the same order
		as loci in the locus file after optional filtering by chromosome and
		the second dimension is in the same order as the list of in signal files.
		If no in signal files are given, this is not returned.
	"""

	seqs, signals_, in_signals_ = [], [], []
	in_width, out_width = in_window // 2, out_window // 2
	if signals is None and in_signals is None:
		out_width = 0

	# Load the sequences
	loci = _interleave_loci(loci, chroms)

	if isinstance(sequences, str):
		sequences = pyfaidx.Fasta(sequences)

	# Load the signal and optional in signal tracks if filenames are given
	signals = _load_signals(signals)
	in_signals = _load_signals(in_signals)

	desc = "Loading Loci"
	d = not verbose

	max_width = max(in_width, out_width)
	for chrom, start, end in tqdm(loci.values, disable=d, desc=desc):
		mid = start + (end - start) // 2
		start = mid - max(out_width, in_width) - max_jitter
		end = mid + max(out_width, in_width) + max_jitter

		if isinstance(sequences, dict):
			chrom_length = sequences[chrom].shape[-1]
		else:
			chrom_length = len(sequences[chrom])

		if start < 0 or end >= chrom_length: 
			continue

		if n_loci is not None and len(seqs) == n_loci:
			break 

		# Extract a window of signal using the output size
		start = mid - out_width - max_jitter
		end = mid + out_width + max_jitter + (out_window % 2)

		if signals is not None:
			signal = _extract_locus_signal(signals, chrom, start, end)

			if min_counts is not None and signal[target_idx].sum() < min_counts:
				continue

			if max_counts is not None and signal[target_idx].sum() > max_counts:
				continue

			signals_.append(signal)

		# Extract a window of signal using the input size
		start = mid - in_width - max_jitter
		end = mid + in_width + max_jitter + (in_window % 2)

		if in_signals is not None:
			in_signal = _extract_locus_signal(in_signals, chrom, start, end)
			in_signals_.append(in_signal)

		# Extract a window of sequence using the input size
		if isinstance(sequences, dict):
			seq = sequences[chrom][:, start:end]
		else:
			seq = one_hot_encode(sequences[chrom][start:end].seq.upper(),
				alphabet=alphabet, ignore=ignore)

		seqs.append(seq)

	if not isinstance(sequences, dict):
		sequences.close()

	seqs = torch.from_numpy(numpy.stack(seqs))
	y_return = [seqs]

	if signals is not None:
		y_return.append(torch.from_numpy(numpy.stack(signals_)))

	if in_signals is not None:
		y_return.append(torch.from_numpy(numpy.stack(in_signals_)))

	return y_return[0] if len(y_return) == 1 else y_return


def read_meme(filename, n_motifs=None):
	"""Read a MEME file and return a dictionary of PWMs.

	This method takes in the filename of a MEME-formatted file to read in
	and returns a dictionary of the PWMs where the keys are the metadata
	line and the values are the PWMs.


	Parameters
	----------
	filename: str
		The filename of the MEME-formatted file to read in


	Returns
	-------
	motifs: dict
		A dictionary of the motifs in the MEME file.
	"""

	motifs = {}

	with open(filename, "r") as infile:
		motif, width, i = None, None, 0

		for line in infile:
			if motif is None:
				if line[:5] == 'MOTIF':
					motif = line.replace('MOTIF ', '').strip("\r\n")
				else:
					continue

			elif width is None:
				if line[:6] == 'letter':
					width = int(line.split()[5])
					pwm = numpy.zeros((width, 4))

			else:
				pwm[i] = list(map(float, line.strip("\r\n").split()))
				i += 1

				if i == width:
					motifs[motif] = torch.from_numpy(pwm.T)
					motif, width, i = None, None, 0

					if n_motifs is not None and len(motifs) == n_motifs:
						break

	return motifs


def read_vcf(filename):
	"""Read a VCF file into a pandas DataFrame

	This function takes in the name of a file that is VCF formatted and returns
	a pandas DataFrame with the comments filtered out. This will only return the
	columns that are most commonly provided in VCF files.


	Parameters
	----------
	filename: str


	Returns
	-------
	vcf: pandas.DataFrame
		A pandas DataFrame containing the rows.
	"""

	names = ["CHROM", "POS", "ID", "REF", "ALT", "QUAL", "FILTER", "INFO", 
		"FORMAT"]
	dtypes = {name: str for name in names}
	dtypes['POS'] = int

	vcf = pandas.read_csv(filename, delimiter='\t', comment='#', names=names, 
		dtype=dtypes, usecols=range(9))
	return vcf