# utils.py
# Author: Jacob Schreiber <jmschreiber91@gmail.com>

import numpy
import numba
import torch

from tqdm import tqdm


def _validate_input(X, name, shape=None, dtype=None, min_value=None,
	max_value=None, ohe=False, ohe_dim=1, allow_N=False):
	"""An internal function for validating properties of the input.

	This function will take in an object and verify characteristics of it, such
	as the type, the datatype of the elements, its shape, etc. If any of these
	characteristics are not met, an error will be raised.


	Parameters
	----------
	X: torch.Tensor
		The object to be verified.

	name: str
		The name to reference the tensor by if an error is raised.

	shape: tuple or None, optional
		The shape the tensor must have. If a -1 is provided at any axis, that
		position is ignored.  If not provided, no check is performed. Default is
		None.

	dtype: torch.dtype or None, optional
		The dtype the tensor must have. If not provided, no check is performed.
		Default is None.

	min_value: float or None, optional
		The minimum value that can be in the tensor, inclusive. If None, no
		check is performed. Default is None.

	max_value: float or None, optional
		The maximum value that can be in the tensor, inclusive. If None, no
		check is performed. Default is None.

	ohe: bool, optional
		Whether the input must be a one-hot encoding, i.e., only consist of
		zeroes and ones. Default is False.

	allow_N: bool, optional
		Whether to allow the return of the character 'N' in the sequence, i.e.
		if pwm at a position is all 0's return N. Default is False.


	Returns
	X: torch.Tensor
		The same object, unmodified, for convenience.
	"""

	if not isinstance(X, torch.Tensor):
		raise ValueError("{} must be a torch.Tensor object".format(name))

	if shape is not None:
		if len(shape) != len(X.shape):
			raise ValueError("{} must have shape {}".format(name, shape))

		for i in range(len(shape)):
			if shape[i] != -1 and shape[i] != X.shape[i]:
				raise ValueError("{} must have shape {}".format(name, shape))


	if dtype is not None and X.dtype != dtype:
		raise ValueError("{} must have dtype {}".format(name, dtype))

	if min_value is not None and X.min() < min_value:
		raise ValueError("{} cannot have a value below {}".format(name,
			min_value))

	if max_value is not None and X.max() > max_value:
		raise ValueError("{} cannot have a value above {}".format(name,
			max_value))

	if ohe:
		values = torch.unique(X)
		if len(values) != 2:
			raise ValueError("{} must be one-hot encoded.".format(name))

		if not all(values == torch.tensor([0, 1], device=X.device)):
			raise ValueError("{} must be one-hot encoded.".format(name))

		if ((not (X.sum(axis=1) == 1).all()) and (not allow_N)
		  ) or ((allow_N) and (not ((X.sum(axis=ohe_dim) == 1) | (X.sum(axis=ohe_dim) == 0)).all())):
			raise ValueError("{} must be one-hot encoded ".format(name) +
				"and cannot have unknown characters.")

	return X


def _cast_as_tensor(value, dtype=None):
	"""Cast your input as a torch tensor.

	This function will take some array-like input and cast it as a torch
	tensor with optionally a desired dtype. If X is already a torch datatype,
	ensure that the dtype matches.


	Parameters
	----------
	value: array-like
		An array-like object to be cast into a torch.tensor

	dtype: torch.dtype
		A torch dtype to cast the values in the torch.tensor to


	Returns
	-------
	value: torch.tensor
		A tensor that has been created from the array-like with the provided
		dtype.
	""" 

	if value is None:
		return None

	_tdtype = (torch.nn.Parameter, torch.Tensor, torch.masked.MaskedTensor)
	if isinstance(value, _tdtype):
		if dtype is None:
			return value
		elif value.dtype == dtype:
			return value
		else:
			return value.type(dtype)
			
	if isinstance(value, list):
		if all(isinstance(v, numpy.ndarray) for v in value):
			value = numpy.array(value)
		
	if isinstance(value, (float, int, list, tuple, numpy.ndarray)):
		if dtype is None:
			return torch.tensor(value)
		else:
			return torch.tensor(value, dtype=dtype)


def characters(pwm, alphabet=['A', 'C', 'G', 'T'], force=False, allow_N=False):
	"""Converts a PWM/one-hot encoding to a string sequence.

	This function takes in a PWM or one-hot encoding and converts it to the
	most likely sequence. When the input is a one-hot encoding, this is the
	opposite of the `one_hot_encoding` function.


	Parameters
	----------
	pwm: torch.tensor, shape=(len(alphabet), seq_len)
		A numeric representation of the sequence. This can be one-hot encoded
		or contain numeric values. These numerics can be probabilities but can
		also be frequencies.

	alphabet : set or tuple or list
		A pre-defined alphabet where the ordering of the symbols is the same
		as the index into the returned tensor. This is used to determine the
		letters in the returned sequence. Default is the DNA alphabet.

	force: bool, optional
		Whether to force a sequence to be produced even when there are ties.
		At each position that there is a tight, the character earlier in the
		sequence will be used. Default is False.
  
	allow_N: bool, optional
		Whether to allow the return of the character 'N' in the sequence, i.e.
		if pwm at a position is all 0's return N. Default is False.


	Returns
	-------
	seq: str
		A string where the length is the second dimension of PWM.
	"""
 
	#if (batch, alphabet_size, motif_size) and batch = 1, remove batch axis
	if len(pwm.shape) == 3 and pwm.shape[0] == 1:
		pwm = pwm[0]

	if len(pwm.shape) != 2:
		raise ValueError("PWM must have two dimensions where the " +
			"first dimension is the length of the alphabet and the second " +
			"dimension is the length of the sequence.")

	if pwm.shape[0] != len(alphabet):
		raise ValueError("PWM must have the same alphabet size as the " +
			"provided alphabet.")

	pwm_ismax = pwm == pwm.max(dim=0, keepdims=True).values
	if pwm_ismax.sum(axis=0).max() > 1 and force == False and allow_N == False:
		raise ValueError("At least one position in the PWM has multiple " +
			"letters with the same probability.")

	alphabet = numpy.array(alphabet)
	if isinstance(pwm, torch.Tensor):
		pwm = pwm.numpy(force=True)

	if allow_N:
		n_inds = numpy.where(pwm.sum(axis=0)==0)[0]
		dna_chars = alphabet[pwm.argmax(axis=0)]
		dna_chars[n_inds] = 'N'
	else:
		dna_chars = alphabet[pwm.argmax(axis=0)]
	
	return ''.join(dna_chars)


@numba.njit("void(int8[:, :], int8[:], int8[:])", cache=True)
def _fast_one_hot_encode(X_ohe, seq, mapping):
	"""An internal function for quickly converting bytes to one-hot indexes."""

	for i in range(len(seq)):
		idx = mapping[seq[i]]
		if idx == -1:
			continue

		if idx == -2:
			raise ValueError("Encountered character that is not in " + 
				"`alphabet` or in `ignore`.")
			
		X_ohe[i, idx] = 1


def one_hot_encode(sequence, alphabet=['A', 'C', 'G', 'T'], dtype=torch.int8, 
	ignore=['N'], desc=None, verbose=False, **kwargs):
	"""Converts a string or list of characters into a one-hot encoding.

	This function will take in either a string or a list and convert it into a
	one-hot encoding. If the input is a string, each character is assumed to be
	a different symbol, e.g. 'ACGT' is assumed to be a sequence of four 
	characters. If the input is a list, the elements can be any size.

	Although this function will be used here primarily to convert nucleotide
	sequences into one-hot encoding with an alphabet of size 4, in principle
	this function can be used for any types of sequences.

	Parameters
	----------
	sequence : str or list
		The sequence to convert to a one-hot encoding.

	alphabet : set or tuple or list
		A pre-defined alphabet where the ordering of the symbols is the same
		as the index into the returned tensor, i.e., for the alphabet ['A', 'B']
		the returned tensor will have a 1 at index 0 if the character was 'A'.
		Characters outside the alphabet are ignored and none of the indexes are
		set to 1. Default is ['A', 'C', 'G', 'T'].

	dtype : str or torch.dtype, optional
		The data type of the returned encoding. Default is int8.

	ignore: list, optional
		A list of characters to ignore in the sequence, meaning that no bits
		are set to 1 in the returned one-hot encoding. Put another way, the
		sum across characters is equal to 1 for all positions except those
		where the original sequence is in this list. Default is ['N'].


	Returns
	-------
	ohe : numpy.ndarray
		A binary matrix of shape (alphabet_size, sequence_length) where
		alphabet_size is the number of unique elements in the sequence and
		sequence_length is the length of the input sequence.
	"""

	for char in ignore:
		if char in alphabet:
			raise ValueError("Character {} in the alphabet ".format(char) + 
				"and also in the list of ignored characters.")

	if isinstance(alphabet, list):
		alphabet = ''.join(alphabet)

	ignore = ''.join(ignore)

	e = "utf8"
	seq_idxs = numpy.frombuffer(bytearray(sequence, e), dtype=numpy.int8)
	alpha_idxs = numpy.frombuffer(bytearray(alphabet, e), dtype=numpy.int8)
	ignore_idxs = numpy.frombuffer(bytearray(ignore, e), dtype=numpy.int8)

	one_hot_mapping = numpy.zeros(256, dtype=numpy.int8) - 2
	for i, idx in enumerate(alpha_idxs):
		one_hot_mapping[idx] = i

	for i, idx in enumerate(ignore_idxs):
		one_hot_mapping[idx] = -1


	n, m = len(sequence), len(alphabet)

	one_hot_encoding = numpy.zeros((n, m), dtype=numpy.int8)
	_fast_one_hot_encode(one_hot_encoding, seq_idxs, one_hot_mapping)
	return torch.from_numpy(one_hot_encoding).type(dtype).T


def reverse_complement(seq, complement_map={"A": "T", "C": "G", "G": "C", 
	"T": "A"}, allow_N=True):
	"""Return the reverse complement of a single sequence.

	This function will take in a single one-hot encoding of a sequence, or a
	single string, and return the reverse complement. If the input is a torch
	tensor, the encoding is simply flipped along both axes. If the input is
	a string, it is flipped and then each value is flipped according to the
	provided complement map. 

	Note that this function will not convert your sequence to upper-case or
	modify it in any other manner.

	
	Parameters
	----------
	seq: str or torch.Tensor w/ shape (alphabet_size, length)
		The sequence to be reverse complemented.
	
	complement_map: dict, optional
		The ordering and complement of each nucleotide. When the input is a
		string, this is used to directly convert characters. When the input is
		a torch tensor, the ordering of *keys* is assumed to be the order of 
		characters in the alphabet and the manner in which to flip depends on 
		it. Default is the nucleotide alphabet.

	allow_N: bool, optional
		Whether to allow N characters when doing the reverse complement. Only
		matters when reverse complementing strings. Default is True.
	
	Returns
	-------
	rev_comp: str or torch.Tensor w/ shape (alphabet_size, length)
		The reverse complemented string or 
	"""

	if isinstance(seq, str):
		seq_rc = []

		for char in seq:
			if char in complement_map:
				seq_rc.append(complement_map[char])
			elif char == 'N' and allow_N:
				seq_rc.append('N')
			else:
				raise ValueError("'{}' not in complement map".format(char))

		seq_rc = ''.join(reversed(seq_rc))

	elif isinstance(seq, torch.Tensor):

		chars = list(complement_map.keys())
		idxs = [chars.index(char) for char in complement_map.values()]

		seq_rc = torch.flip(seq, dims=(-1,))[idxs]

	return seq_rc


def random_one_hot(shape, probs=None, dtype='int8', random_state=None):
	"""Generate random one-hot encodings. Useful for debugging.

	This function will generate random one-hot encodings where the second to
	last dimension has a single element being a one and every other element
	being a zero. Primary used for debugging. 


	Parameters
	----------
	shape: tuple
		The shape of the 3D tensor to generate.

	probs: tuple, list, numpy.ndarray, or None optional
		A 2D array of probabilities where the first dimension is the batch size
		equal to the batch size of `X` and the second dimension is the alphabet
		size. The values should be the probability of that character occuring
		in that sequence. If a batch size of 1 is used when the batch size of
		X is greater than 1, the same probabilities are used for each sequence.
		The sum of probabilities across the alphabet axis must be equal to 1.
		If None, use a uniform distribution across the axis specified in shape.
		Default is [[0.25, 0.25, 0.25, 0.25]].

	dtype: str or numpy.dtype, optional
		The datatype to return the matrix as. Default is 'int8'.

	random_state: int or numpy.random.RandomState or None, optional
		The random state to use for generation. If None, do not use a 
		deterministic seed. Default is None.


	Returns
	-------
	ohe: torch.Tensor
		A tensor with the specified shape that is one-hot encoded.
	"""

	if not isinstance(shape, tuple) or len(shape) != 3:
		raise ValueError("Shape must be a tuple with 3 dimensions.")

	if not isinstance(random_state, numpy.random.RandomState):
		random_state = numpy.random.RandomState(random_state)

	n = shape[1]
	ohe = numpy.zeros(shape, dtype=dtype)

	for i in range(ohe.shape[0]):
		if probs is None:
			probs_ = None
		elif probs.shape[0] == 1:
			probs_ = probs[0]
		else:
			probs_ = probs[i] 

		choices = random_state.choice(n, size=shape[2], p=probs_)
		ohe[i, choices, numpy.arange(shape[2])] = 1 

	return torch.from_numpy(ohe)


def chunk(X, size=1024, overlap=0):
	"""Chunk a set of sequences into overlapping blocks.

	This function will take a set of sequences of variable length and will
	return a set of fixed-length blocks that tile the sequence with a fixed
	amount of overlap. This is useful when applying a method, such as FIMO or
	even a larger predictive model, to variable length sequences such as
	chromosomes.

	Unless the total sequence length is a multiple of the size, the final chunk
	produced from a sequence will be shorter than the size. In this case, the
	final chunk is excluded because it would not be an accurate representation
	of that sequence regardless.


	Parameters
	----------
	X: list of torch.Tensors
		A list of one-hot encoded sequences that each are of shape (4, -1).

	size: int, optional
		The size of the chunks to produce from the sequence. Default is 1024.

	overlap: int, optional
		The overlap between adjacent chunks. This is, essentially, the stride
		of the unrolling process. Default is 0.


	Returns
	-------
	y: torch.Tensor, shape=(-1, len(alphabet), size)
		A single tensor containing strides across the sequences. The chunks
		are concatenated together across examples such that the final chunk
		from the first item is followed by first chunk from the second item.
	"""

	if not isinstance(X, list):
		raise ValueError("X must be a list of tensors.")

	if not isinstance(size, int) or size <= 0:
		raise ValueError("size must be a positive integer.")

	if not isinstance(overlap, int) or overlap < 0:
		raise ValueError("overlap must be a non-negative integer.")

	return torch.cat([x.unfold(-1, size, size-overlap).permute(1, 0, 2) 
		for x in X], dim=0)


def unchunk(X, lengths=None, overlap=0):
	"""Unchunk fixed-length segments back into variable-length sequences.

	After chunking a set of variable length sequences into fixed-length chunks
	and applying some method on the chunks that results in some bp-resolution
	result, merge the chunks back into a tensor of the same length as the
	original sequence. When the final chunk was discarded due to the original
	sequence not being divisible by the chosen size, that portion will not
	be reconstructed by this method. 

	The overlap value should be the same as when the sequence was chunked, and
	should correspond to the number of positions that are shared across adjacent
	examples. When overlap is set to a value greater than 0, half of the overlap
	goes to the elements as follows:

		<------------*    |
				  overlap 
				|    *-----------> 


	Parameters
	----------
	X: list or numpy.ndarray or torch.tensor, shape=(-1, n_outputs, size)
		A set of fixed-length tensors for any number of outputs. Usually the
		result of applying `chunk` and then some form of model.

	lengths: list or numpy.ndarray or torch.tensor, shape=(-1,) or None
		The *original lengths* of the elements that were chunked. This is not
		the number of chunks produced, which will be influenced by the overlap,
		but the actual length in bp of the original sequences. If None, assume
		that all chunks in `X` come from a single variable-length sequence.
		Default is None.

	overlap: int, optional
		The number of bp overlap between adjacent chunks. Default is 0.


	Returns
	-------
	y: list of torch.Tensors or one torch.Tensor, shape=(n_outputs, -1)
		A list of variable-length tensors if `lengths` is provided, otherwise
		a single tensor.
	"""

	X = _cast_as_tensor(X)
	if X.ndim <= 2:
		raise ValueError("`X` must have at least three dimensions, with the "
			"last dimension corresponding to length.")

	lengths = _validate_input(_cast_as_tensor(lengths), "lengths", shape=(-1,), 
		min_value=0)

	size = X.shape[-1]
	lengths = (lengths - size) // (size - overlap) + 1
	lengths_csum = 0

	y = []
	for length in lengths:
		X_ = X[lengths_csum:lengths_csum+length]

		if overlap > 0:
			s = overlap // 2
			e = -(overlap - s)

			if X_.shape[0] == 1:
				X_ = X_.moveaxis(0, -2).reshape(*X_.shape[1:-1], -1)
			elif X_.shape[0] == 2:
				X_ = torch.cat([X_[0, ..., :e], X_[1, ..., s:]], dim=-1)
			else:
				X_ = torch.cat([X_[0, ..., :e],
								X_[1:-1, ..., s:e].moveaxis(0, -2).reshape(*X_.shape[1:-1], -1),
								X_[-1, ..., s:]], dim=-1)
		else:
			X_ = X_.moveaxis(0, -2).reshape(*X_.shape[1:-1], -1)

		y.append(X_)
		lengths_csum += length

	return y
	

def pwm_consensus(X):
	"""Take in a PWM and return the consensus.

	This function will take in a PWM that encodes the probabilities of each
	character at each position and will return the consensus, which is the
	most likely individual sequence according to that PWM. This is done by
	taking the argmax at each position. When multiple characters at the same
	position have the maximum probability, the character in the earlier
	numerical position is chosen. If a column has a sum equal to 0 (no
	characters allowed there) the returned consensus also has entirely 0s.


	Parameters
	----------
	X: torch.Tensor, numpy.ndarray, shape=(alphabet_len, pwm_len)
		A PWM containing the probabilities of each character at each position.


	Returns
	-------
	Y: torch.Tensor, shape=(alphabet_len, pwm_len)
		A PWM of the same shape as `X` except with the maximum-value character
		set to 1.
	"""

	X = _cast_as_tensor(X)
	_validate_input(X, "X", shape=(-1, -1), min_value=0, max_value=1)

	alpha_idxs = X.argmax(dim=0)

	Y = torch.zeros_like(X)
	Y[alpha_idxs, torch.arange(X.shape[-1])] = 1
	Y[:, X.sum(dim=0) == 0] = 0
	return Y


def extract_signal(loci, X, verbose=False):
	"""Extracts the signal at coordinates from a tensor of examples.

	This function takes in a dataframe with the first three columns being the
	example index, the start (inclusive) and the end (not inclusive) and
	returns the signal sum across those coordinates from the tensor. This can
	be used, for instance, to extract attributions or genomics signal from
	windows. This sum is done separately for each signal in the tensor.


	Parameters
	----------
	loci: pandas.DataFrame
		A set of loci to extract signal from. Multiple loci can be present on
		the same example in X and the starts and ends can overlap.

	X: torch.Tensor, numpy.ndarray, shape=(-1, n_signals, sequence_length)
		A 3D tensor where the first dimension corresponds to the examples, the
		second dimension corresponds to the number of signals being measured
		at each position (e.g., different ChIP-seq tracks), and the third
		position corresponds to the sequence length.

	verbose: bool, optional
		Whether to print a progress bar tracking the extraction process. Default
		is False.


	Returns
	-------
	Y: torch.Tensor, shape=(n_loci, n_signals)
		The sum of the signal across all positions for each of the loci. The
		returned value is the sum of this signal.
	"""

	_validate_input(X, "X", shape=(-1, -1, -1))

	Y = torch.zeros(loci.shape[0], X.shape[1], dtype=X.dtype, device=X.device)

	loci = loci.values[:, :3].astype(int)
	for i, (idx, start, end) in enumerate(tqdm(loci, disable=not verbose)):
		Y[i] = X[idx, :, start:end].sum(dim=-1)

	return Y
