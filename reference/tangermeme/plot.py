# plot.py
# Contact: Jacob Schreiber <jmschreiber91@gmail.com>

import torch
import numpy
import pandas
import logomaker

from matplotlib import pyplot as plt


def plot_logo(X_attr, ax, color=None, annotations=None, start=None, end=None, 
	ylim=None, spacing=4, n_tracks=4, score_key='score', show_extra=True):
	"""Make a logo plot and optionally annotate it.

	This function will take in a matrix of weights for each character in a
	sequence and produce a plot where the characters have heights proportional
	to those weights. Attribution values from a predictive model are commonly
	used to weight the characters, but the weights can come from anywhere.

	Optionally, annotations can be provided in the form of a dataframe with
	contents described below in the parameters section. These annotations will
	be displayed underneath the characters in a manner that tries to avoid
	overlap across annotations.

	This function is largely a thin-wrapper around logomaker.


	Parameters
	----------
	X_attr: torch.tensor, shape=(4, -1)
		A tensor of the attributions. Can be either the hypothetical
		attributions, where the entire matrix has values, or the projected
		attributions, where only the actual bases have their attributions
		stored, i.e., 3 values per column are zero.

	ax: matplotlib.pyplot.subplot
		The art board to draw on.

	color: str or None, optional
		The color to plot all characters as. If None, plot according to
		standard coloring. Default is None.

	annotations: pandas.DataFrame, optional
		A set of annotations with the following columns in any order except for
		`motif_name`, which can be called anything but must come first:
		
			- motif_name: the name of the motif
			- start: the start of the hit relative to the window provided
			- end: the end of the hit relative to the window provided
			- strand: the strand the hit is on (optional)
			- score: the score of the hit

		These will probably come from the output of the hit caller. Default is
		None.

	start: int or None, optional
		The start of the sequence to visualize. Must be non-negative and cannot
		be longer than the length of `X_attr`. If None, visualize the full
		sequence. Default is None.

	end: int or None, optional
		The end of the sequence to visuaize. Must be non-negative and cannot be
		longer than the length of `X_attr`. If `start` is provided, `end` must 
		be larger. If None, visualize the full sequence. Default is None.

	ylim: tuple or None, optional
		The lower and upper bounds of the plot. Pass the bounds in here rather
		than setting them after calling this function if you want the annotation
		spacing to adjust to it. If None, use the default bounds. Default is
		None.

	spacing: int or None, optional
		The number of positions between motifs to include when determining
		overlap. If there is enough overlap, kick the motif down to the next
		row of annotations. Default is 4.

	n_tracks: int, optional
		The number of tracks of annotations to plot with bars before simply
		putting the name of the motif. Default is 4.

	score_key: str, optional
		When annotations are provided, the name of the key to use as a score.
		Must have the semantics that a higher value means a "better" annotation.
		Default is 'score'.

	show_extra: bool, optional
		Whether to show motifs past the `n_tracks` number of rows that include
		the motif and the bar indicating positioning. If False, do not show
		those motifs. Default is True.


	Returns
	-------
	ax: plt.subplot
		A subplot that contains the plot.
	"""

	try:
		import matplotlib.pyplot as plt
	except:
		raise ImportError("Must install matplotlib before using.")

	if start is not None and end is not None:
		X_attr = X_attr[:, start:end]

	df = pandas.DataFrame(X_attr.T, columns=['A', 'C', 'G', 'T'])
	df.index.name = 'pos'
	
	logo = logomaker.Logo(df, ax=ax)
	logo.style_spines(visible=False)

	if color is not None:
		alpha = numpy.array(['A', 'C', 'G', 'T'])
		seq = ''.join(alpha[numpy.abs(df.values).argmax(axis=1)])
		logo.style_glyphs_in_sequence(sequence=seq, color=color)

	if annotations is not None:
		start, end = start or 0, end or X_attr.shape[-1]

		annotations_ = annotations[annotations['start'] > start]
		annotations_ = annotations_[annotations_['end'] < end]
		annotations_ = annotations_.sort_values([score_key], ascending=False)

		ylim = ylim or max(abs(X_attr.min()), abs(X_attr.max()))
		ax.set_ylim(-ylim, ylim)
		r = ylim*2

		motifs = numpy.zeros((end-start, annotations_.shape[0]))
		for _, row in annotations_.iterrows():
			motif = row.values[0]
			motif_start = int(row['start'])
			motif_end = int(row['end'])
			score = row[score_key]

			motif_start -= start
			motif_end -= start
			y_offset = 0.1
			for i in range(annotations_.shape[0]):
				if motifs[motif_start:motif_end, i].max() == 0:
					if i < n_tracks:
						text = "{}: ({:3.3})".format(motif, score)
						motifs[motif_start:motif_end, i] = 1
						y_offset += 0.2*i
						
						xp = [motif_start, motif_end]
						yp = [-ylim*y_offset, -ylim*y_offset]

						ax.plot(xp, yp, color='0.3', linewidth=2)        
						ax.text(xp[0], -ylim*(y_offset+0.1), text, 
							color='0.3', fontsize=9)
						
					elif show_extra:
						s = motif_start

						motifs[motif_start:motif_start+len(str(motif))*2, i] = 1
						y_offset += -0.1 + 0.2*(n_tracks) + 0.1*(i-n_tracks)
						
						ax.text(motif_start, -ylim*(y_offset+0.1), motif, 
							color='0.7', fontsize=9)    
						
					break

	return logo


def plot_pwm(pwm, name=None, alphabet=['A', 'C', 'G', 'T'], eps=1e-7):
	"""Plots an information-content weighted PWM and its reverse complement.

	This function takes in a PWM, where the sum across all values in the
	alphabet is equal to 1, and plots the information-content weighted version
	of it, as well as the reverse complement. This should be used when you want
	to visualize a motif, perhaps from a motif database.


	Parameters
	----------
	pwm: torch.Tensor or numpy.ndarray, shape=(len(alphabet), length)
		The PWM to visualize. The rows must sum to 1.

	name: str or None, optional
		The name to put as the title for the plots. If None, do not put
		anything. Default is None.

	alphabet: list, optional
		A list of characters that comprise the alphabet. Default is
		['A', 'C', 'G', 'T'].

	eps: float, optional
		A small pseudocount to add to counts to make the log work correctly.
		Default is 1e-7.
	"""

	if isinstance(pwm, torch.Tensor):
		pwm = pwm.numpy(force=True)
	
	bg = 0.25 * numpy.log(0.25) / numpy.log(2)

	
	plt.figure(figsize=(8, 2.5))
	ax = plt.subplot(121)
	plt.title(name)
	
	ic = pwm * numpy.log(pwm + eps) / numpy.log(2) - bg
	ic = numpy.sum(ic, axis=0, keepdims=True)
	plot_logo(pwm * ic, ax=ax)
	plt.xlabel("Motif Position")
	plt.ylabel("Information Content (Bits)", fontsize=10)
	
	
	ax = plt.subplot(122)
	plt.title(name + "RC" if name is not None else "RC")
	pwm = pwm[::-1, ::-1]
	ic = pwm * numpy.log(pwm + eps) / numpy.log(2) - bg
	ic = numpy.sum(ic, axis=0, keepdims=True)
	plot_logo(pwm * ic, ax=ax)
	plt.xlabel("Motif Position")
	plt.ylabel("Information Content (Bits)", fontsize=10)
	
	plt.tight_layout()
	plt.show()
	