# ersatz.py
# Author: Jacob Schreiber <jmschreiber91@gmail.com>

import numba
import numpy
import torch
import pandas

import pyfaidx
import pyBigWig

from tqdm import tqdm
from itertools import compress

from .utils import _validate_input
from .utils import one_hot_encode
from .utils import random_one_hot


def insert(X, motif, start=None, alphabet=['A', 'C', 'G', 'T']):
	"""Insert a motif into a set of sequences at a defined position.

	This function will take in a tensor of one-hot encoded sequences or a string
	that can be one-hot encoded and insert the motif into the defined 
	position. It will then return a copy of the data with the insertion, 
	leaving the  original data unperturbed.

	Importantly, an *insertion* means that the entire original sequence is still
	present, albeit in two halves with the inserted motif in the middle.
	Specifically, if we have an original sequence AAAAAACCCCAAAAAA and want to
	insert GGGG in the middle, the `insert` function will return something
	corresponding to AAAAAACCGGGGCCAAAAAA. Hence, the returned sequence will be
	longer than the original sequence.

	If the motif is a string, it will be one-hot encoded according to the
	alphabet that is provided. If a motif with batch size of 1 is provided, 
	the same motif will be inserted into all sequences. If a motif with a 
	batch size equal to that of X is provided, there will be  1-1 correspondance 
	between the motifs and the sequence, i.e., that motif at index 5 will be 
	substituted into the sequence at index 5.


	Parameters
	----------
	X: torch.tensor, shape=(-1, len(alphabet), length)
		A one-hot encoded set of sequences to have a motif substituted into.

	motif: torch.tensor, shape=(-1, len(alphabet), motif_length)
		A one-hot encoded version of a short motif to substitute into the set of
		sequences.

	start: int or None, optional
		The starting position of where to substitute the motif. If None,
		substitute the motif into the middle of the sequence such that the 
		middle of the motif occurs at the middle of the sequence. Default is 
		None.

	alphabet : set or tuple or list, optional
		A pre-defined alphabet where the ordering of the symbols is the same
		as the index into the returned tensor, i.e., for the alphabet ['A', 'B']
		the returned tensor will have a 1 at index 0 if the character was 'A'.
		Characters outside the alphabet are ignored and none of the indexes are
		set to 1. This is not necessary or used if a one-hot encoded tensor is
		provided for the motif. Default is ['A', 'C', 'G', 'T'].


	Returns
	-------
	Y: torch.tensor, shape=(-1, len(alphabet), length)
		A one-hot encoded set of sequences that each have the motif substituted
		at the same position.
	"""

	if isinstance(motif, str):
		motif = one_hot_encode(motif, alphabet=alphabet).unsqueeze(0)

	if motif.shape[0] == 1:
		motif = motif.repeat(X.shape[0], 1, 1)

	_validate_input(X, "X", ohe=True, ohe_dim=1)
	_validate_input(motif, "motif", shape=(-1, X.shape[1], -1), ohe=True)

	if start is not None:
		if start < 0 or start > X.shape[-1]:
			raise ValueError("Provided start falls off the end of the sequence")
	else:
		start = X.shape[-1] // 2
	
	return torch.cat([X[:, :, :start], motif, X[:, :, start:]], dim=-1)


def substitute(X, motif, start=None, alphabet=['A', 'C', 'G', 'T']):
	"""Substitute a motif into a set of sequences at a defined position.

	This function will take in a tensor of one-hot encoded sequences or a string
	that can be one-hot encoded and will substitute a motif at a defined 
	position. It will then return a copy of the data with the substitution, 
	leaving the  original data unperturbed.

	Importantly, a *substitution* means that part of the original sequence will
	be missing. Specifically, if we have an original sequence AAAAAACCCCAAAAAA 
	and want to substitute a GGGG in the middle, the `substitute` function will 
	return something corresponding to AAAAAAGGGGAAAAAA. Note the missing Cs. 
	Hence, the returned sequence will be the same length as the original 
	sequence.

	If the motif is a string, it will be one-hot encoded according to the
	alphabet that is provided. If a motif with batch size of 1 is provided, 
	the same motif will be substituted into all sequences. If a motif with a 
	batch size equal to that of X is provided, there will be  1-1 correspondance 
	between the motifs and the sequence, i.e., that motif at index 5 will be 
	substituted into the sequence at index 5.


	Parameters
	----------
	X: torch.tensor, shape=(-1, len(alphabet), length)
		A one-hot encoded set of sequences to have a motif substituted into.

	motif: torch.tensor, shape=(-1, len(alphabet), motif_length)
		A one-hot encoded version of a short motif to substitute into the set of
		sequences.

	start: int or None, optional
		The starting position of where to substitute the motif. If None,
		substitute the motif into the middle of the sequence such that the 
		middle of the motif occurs at the middle of the sequence. Default is 
		None.

	alphabet : set or tuple or list, optional
		A pre-defined alphabet where the ordering of the symbols is the same
		as the index into the returned tensor, i.e., for the alphabet ['A', 'B']
		the returned tensor will have a 1 at index 0 if the character was 'A'.
		Characters outside the alphabet are ignored and none of the indexes are
		set to 1. This is not necessary or used if a one-hot encoded tensor is
		provided for the motif. Default is ['A', 'C', 'G', 'T'].


	Returns
	-------
	Y: torch.tensor, shape=(-1, len(alphabet), length)
		A one-hot encoded set of sequences that each have the motif substituted
		at the same position.
	"""

	if isinstance(motif, str):
		motif = one_hot_encode(motif, alphabet=alphabet).unsqueeze(0)

	_validate_input(X, "X", ohe=True)
	_validate_input(motif, "motif", shape=(-1, X.shape[1], -1), ohe=True)

	if motif.shape[-1] > X.shape[-1]:
		raise ValueError("Motif cannot be longer than sequence.")

	if start is not None:
		if start < 0 or start > (X.shape[-1] - motif.shape[-1]):
			raise ValueError("Provided start falls off the end of the sequence")
	else:
		start = X.shape[-1] // 2 - motif.shape[-1] // 2


	n = motif.shape[-1]

	X = torch.clone(X)
	X[:, :, start:start+n] = motif
	return X


def multisubstitute(X, motifs, spacing, start=None, 
	alphabet=['A', 'C', 'G', 'T']):
	"""Substitute a set of motif into sequences with provided spacings.

	This function will take in a list of tensors of one-hot encoded sequences 
	or of strings that can be one-hot encoded and will substitute the motifs 
	into the sequences given the provided spacings. It will then return a copy 
	of the data with the substitutions leaving the  original data unperturbed.

	This function is largely just a wrapper around the substitute function,
	calling it multiple times and figuring out the exact positioning internally.

	If the motif is a string, it will be one-hot encoded according to the
	alphabet that is provided. If a motif with batch size of 1 is provided, 
	the same motifs will be substituted into all sequences. If a motif with a 
	batch size equal to that of X is provided, there will be  1-1 correspondance 
	between the motifs and the sequence, i.e., that motif at index 5 will be 
	substituted into the sequence at index 5.


	Parameters
	----------
	X: torch.tensor, shape=(-1, len(alphabet), length)
		A one-hot encoded set of sequences to have a motif substituted into.

	motifs: list of torch.tensor, shape=(-1, len(alphabet), motif_length)
		A list of strings or of one-hot encoded version of a short motif to 
		substitute into the set of sequences.

	spacing: list or int
		An integer specifying a constant spacing between all motifs or a list
		of spacings of length equal to n-1 where n is the number of motifs. If
		a list is provided, the $i$-th entry should be interpreted as the
		distance after the $i$-th motif that the $i+1$-th motif begins.

	start: int or None, optional
		The starting position of where to substitute the motifs. If None,
		substitute the motif into the middle of the sequence such that the 
		middle of the motif occurs at the middle of the sequence. Default is 
		None.

	alphabet : set or tuple or list, optional
		A pre-defined alphabet where the ordering of the symbols is the same
		as the index into the returned tensor, i.e., for the alphabet ['A', 'B']
		the returned tensor will have a 1 at index 0 if the character was 'A'.
		Characters outside the alphabet are ignored and none of the indexes are
		set to 1. This is not necessary or used if a one-hot encoded tensor is
		provided for the motif. Default is ['A', 'C', 'G', 'T'].


	Returns
	-------
	Y: torch.tensor, shape=(-1, len(alphabet), length)
		A one-hot encoded set of sequences that each have the motifs substituted
		at the correct positions.
	"""

	motif_lengths = [len(motif) if isinstance(motif, str) else motif.shape[-1] 
		for motif in motifs]

	if not isinstance(spacing, (int, list)):
		raise ValueError("Spacings must be an integer or a list of integers.")

	if isinstance(spacing, int):
		spacing = [spacing for _ in range(len(motifs) - 1)]

	if len(spacing) != (len(motifs) - 1):
		raise ValueError("Must provide n-1 spacings for n motifs.")

	for l in spacing:
		if l < 0 or l >= X.shape[-1]:
			raise ValueError("Spacing cannot be smaller than zero or " +
				"larger than the sequence being inserted into.")

	if start is None:
		n = sum(spacing) + sum(motif_lengths)
		start = X.shape[-1] // 2 - n // 2

		if start < 0:
			raise ValueError("Sum of motif lengths and spacing cannot be " + 
				"larger than the sequence being inserted into.")

	for i in range(len(spacing)):
		X = substitute(X, motifs[i], start=start, alphabet=alphabet)
		start += motif_lengths[i] + spacing[i]

	X = substitute(X, motifs[-1], start=start, alphabet=alphabet)
	return X


def delete(X, start, end):
	"""Delete a portion of a sequence.

	This function will take in a tensor of one-hot encoded sequences and a pair
	of numbers representing the start and the end of the portion to remove, and
	will return a tensor that is missing those positions. Essentially, those
	positions get snipped out from the tensor.

	The sequence returned from this function will be shorter than the original
	sequence. Simply, it will be as if X[:, :, start:end] were removed from the
	sequence.


	Parameters
	----------
	X: torch.tensor, shape=(-1, len(alphabet), length)
		A one-hot encoded set of sequences to have a motif substituted into.

	start: int
		The starting position to remove, inclusive.

	end: int
		The final position to remove, not inclusive.


	Returns
	-------
	Y: torch.tensor, shape=(-1, len(alphabet), length-(end-start))
		A one-hot encoded set of sequences that each have a portion deleted.
	"""

	if start < 0 or start > X.shape[-1]:
		raise ValueError("Start cannot be below zero or greater than " + 
			"the length of the sequence.")

	if end < 0 or end > X.shape[-1] or end <= start:
		raise ValueError("End must come after start, must be greater " +
			"than zero, and cannot be greater than the length of the sequence.")

	_validate_input(X, "X", ohe=True, ohe_dim=1)	
	return torch.cat([X[:, :, :start], X[:, :, end:]], dim=-1)


def randomize(X, start, end, probs=[[0.25, 0.25, 0.25, 0.25]], n=1,
	random_state=None):
	"""Replace a region of the provided loci with randomly drawn sequence.

	This function will take in a batch of sequences and replace region specified
	by `start` and `end` with randomly generated sequences. It will do this `n`
	times for each sequence in X and so return a tensor with one more dimension
	than `X`. By default, the random sequences are uniformly generated, but the 
	composition of sequence can be specified with the `probs` parameter.

	Importantly, this function does not shuffle the sequence in the specified
	region but replaces it with a random substitution. If you want to shuffle or
	dinucleotide shuffle the given range, use those respective functions
	instead.


	Parameters
	----------
	X: torch.tensor, shape=(-1, len(alphabet), length)
		A one-hot encoded set of sequences where a portion should be randomized.

	start: int
		The starting position of where to randomize the sequence, inclusive. 

	end: int
		The ending position of where to randomize the sequence, not inclusive.

	probs: 2D matrix, optional
		A 2D matrix of probabilities, as either a list of lists, numpy array, or
		torch tensor. The shape of this matrix is either (1, len(alphabet)) or
		(len(X), len(alphabet)), and is interpreted as either having the same
		probabilities across all examples or an example-specific set of
		probabilities. Default is [[0.25, 0.25, 0.25, 0.25]].

	n: int, optional
		The number of times to shuffle that region. Default is 1.

	random_state: int, numpy.random.RandomState, or None, optional
		Whether to use a specific random seed when generating the random 
		substitution to ensure reproducibility. If None, do not use a 
		reproducible seed. Default is None.


	Returns
	-------
	X_rands: torch.tensor, shape=(-1, n, len(alphabet), length)
		A one-hot encoded set of sequences that each have a randomized
		substitution.
	"""

	if not isinstance(probs, torch.Tensor):
		probs = torch.tensor(probs)

	if not isinstance(random_state, numpy.random.RandomState):
		random_state = numpy.random.RandomState(random_state)

	_validate_input(X, "X", ohe=True)
	_validate_input(probs, "Probs", shape=(-1, -1), min_value=0, max_value=1)

	if end <= start:
		raise ValueError("End must come after start.")

	if end > X.shape[-1] or start < 0:
		raise ValueError("Start or end are falling off the edge of X.")

	X_rands = []
	for i in range(n):
		substitute_ohe = random_one_hot((X.shape[0], probs.shape[1], end-start), 
			probs=probs, random_state=random_state)

		X_rand = substitute(X, substitute_ohe, start=start)
		X_rands.append(X_rand)

	return torch.stack(X_rands).permute(1, 0, 2, 3)


def shuffle(X, start=0, end=-1, n=1, random_state=None):
	"""Replace a region of the provided loci with a shuffled version.

	This function will take in a batch of sequences and shuffle the specified
	region between `start` and `end`. This means that the returned sequences
	will have the same number of each nucleotide in the specified region, but
	in different positions. Importantly, this only preserves the number of times
	each character in the alphabet appears, not the number of times each
	dinucleotide appears. For that, use `dinucleotide_shuffle`.

	Importantly, the i-th shuffle of each sequence uses the same shuffling.
	Put another way, every sequence is shuffled *the same way* each iteration.
	This shuffling differs across iterations.


	Parameters
	----------
	X: torch.tensor, shape=(-1, len(alphabet), length)
		A one-hot encoded set of sequences where a portion will be shuffled.

	start: int, optional
		The starting position of where to randomize the sequence, inclusive.
		Default is 0, shuffling the entire sequence.

	end: int, optional
		The ending position of where to randomize the sequence, not inclusive.
		Default is -1, shuffling the entire sequence.

	n: int, optional
		The number of times to shuffle that region. Default is 1.

	random_state: int, numpy.random.RandomState, or None, optional
		Whether to use a specific random seed when generating the shuffle to
		ensure reproducibility. If None, do not use a reproducible seed. Default 
		is None.


	Returns
	-------
	Y: torch.tensor, shape=(-1, n, len(alphabet), length)
		A one-hot encoded set of sequences that each have a shuffled portion.
	"""

	_validate_input(X, "X", ohe=True)
	
	if end < 0:
		end = X.shape[-1] + 1 + end

	if end <= start:
		raise ValueError("End must come after start.")

	if end > X.shape[-1] or start < 0:
		raise ValueError("Start or end are falling off the edge of X.")

	if not isinstance(random_state, numpy.random.RandomState):
		random_state = numpy.random.RandomState(random_state)

	X_shufs = []
	for i in range(n):
		idxs = numpy.arange(end-start)
		random_state.shuffle(idxs)

		X_ = torch.clone(X)
		X_[:, :, start:end] = X[:, :, start:end][:, :, idxs]
		X_shufs.append(X_)

	return torch.stack(X_shufs).permute(1, 0, 2, 3)

		
params = 'void(int64, int64, int32[:], int32[:, :], int32[:], '
params += 'int32[:, :], float32[:, :, :], int32)'
@numba.jit(params, nopython=False, cache=True)
def _fast_shuffle(n_shuffles, n_chars, idxs, next_idxs, next_idxs_counts, 
	counters, shuffled_sequences, random_state):
	"""An internal function for fast dinucleotide shuffling using numba."""

	numpy.random.seed(random_state)

	for i in range(n_shuffles):
		for char in range(n_chars):
			n = next_idxs_counts[char]

			next_idxs_ = numpy.arange(n)
			next_idxs_[:-1] = numpy.random.permutation(n-1)  # Keep last index
			next_idxs[char, :n] = next_idxs[char, :n][next_idxs_]

		idx = 0
		shuffled_sequences[i, idxs[idx], 0] = 1
		for j in range(1, len(idxs)):
			char = idxs[idx]
			count = counters[i, char]
			idx = next_idxs[char, count]

			counters[i, char] += 1
			shuffled_sequences[i, idxs[idx], j] = 1


def _dinucleotide_shuffle(X, n_shuffles=1, random_state=None, verbose=False):
	"""An internal function for dinucleotide shuffling a single sequence.

	This function takes in a one-hot encoded sequence (not a string) and
	returns a set of one-hot encoded sequences that are dinucleotide
	shuffled. The approach constructs a transition matrix between
	nucleotides, keeps the first and last nucleotide constant, and then
	randomly at uniform selects transitions until all nucleotides have
	been observed. This is a Eulerian path. Because each nucleotide has
	the same number of transitions into it as out of it (except for the
	first and last nucleotides) the greedy algorithm does not need to
	check at each step to make sure there is still a path.

	This function has been adapted to work on PyTorch tensors instead of
	numpy arrays. Code has been adapted from
	https://github.com/kundajelab/deeplift/blob/master/deeplift/dinuc_shuffle.py


	Parameters
	----------
	X: torch.tensor, shape=(-1, len(alphabet), length)
		A one-hot encoded set of sequences to be shuffled.

	start: int, optional
		The starting position of where to randomize the sequence, inclusive.
		Default is 0, shuffling the entire sequence.

	end: int, optional
		The ending position of where to randomize the sequence, not inclusive.
		Default is -1, shuffling the entire sequence.

	n: int, optional
		The number of times to shuffle that region. Default is 1.

	random_state: int, numpy.random.RandomState, or None, optional
		Whether to use a specific random seed when generating the shuffle,
		to ensure reproducibility. If None, do not use a reproducible seed.
		Default is None.


	Returns
	-------
	shuffled_sequences: torch.tensor, shape=(n, k, -1)
		The shuffled sequences.
	"""

	if random_state is None:
		random_state = numpy.random.randint(0, 9999999)

	n_chars, seq_len = X.shape
	idxs = X.argmax(axis=0).numpy().astype(numpy.int32)

	next_idxs = numpy.zeros((n_chars, seq_len), dtype=numpy.int32)
	next_idxs_counts = numpy.zeros(n_chars, dtype=numpy.int32)

	for char in range(n_chars):
		next_idxs_ = numpy.where(idxs[:-1] == char)[0]
		n = len(next_idxs_)

		next_idxs[char][:n] = next_idxs_ + 1
		next_idxs_counts[char] = n

	shuffled_sequences = numpy.zeros((n_shuffles, *X.shape), 
		dtype=numpy.float32)
	counters = numpy.zeros((n_shuffles, n_chars), dtype=numpy.int32)

	_fast_shuffle(n_shuffles, n_chars, idxs, next_idxs, next_idxs_counts, 
		counters, shuffled_sequences, random_state)
	
	shuffled_sequences = torch.from_numpy(shuffled_sequences)

	conserved = shuffled_sequences[:, :, 1:-1].sum(dim=0)
	if conserved.max() == n_shuffles:
		if verbose:
			print("Warning: At least one position in dinucleotide shuffle " +
				"is identical across all positions.")
	if conserved.max(dim=0).values.min() == n_shuffles and n_shuffles > 1:
		raise ValueError("All dinucleotide shuffles yield identical " +
			"sequences, potentially due to a lack of diversity in sequence.")

	return shuffled_sequences


def dinucleotide_shuffle(X, start=0, end=-1, n=20, random_state=None, 
	verbose=False):
	"""Given a one-hot encoded sequence, dinucleotide shuffle it.

	This function takes in a one-hot encoded sequence (not a string) and
	returns a set of one-hot encoded sequences that are dinucleotide
	shuffled. The approach constructs a transition matrix between
	nucleotides, keeps the first and last nucleotide constant, and then
	randomly at uniform selects transitions until all nucleotides have
	been observed. This is a Eulerian path. Because each nucleotide has
	the same number of transitions into it as out of it (except for the
	first and last nucleotides) the greedy algorithm does not need to
	check at each step to make sure there is still a path.

	This function has been adapted to work on PyTorch tensors instead of
	numpy arrays. Code has been adapted from
	https://github.com/kundajelab/deeplift/blob/master/deeplift/dinuc_shuffle.py

	Parameters
	----------
	X: torch.tensor, shape=(-1, len(alphabet), length)
		A one-hot encoded set of sequences to be shuffled.

	start: int, optional
		The starting position of where to randomize the sequence, inclusive.
		Default is 0, shuffling the entire sequence.

	end: int, optional
		The ending position of where to randomize the sequence, not inclusive.
		Default is -1, shuffling the entire sequence.

	n: int, optional
		The number of times to shuffle that region. Default is 20.

	random_state: int or None, optional
		Whether to use a specific random seed when generating the random insert,
		to ensure reproducibility. If None, do not use a reproducible seed.
		Unlike other methods, cannot be a numpy.random.RandomState object. 
		Default is None.


	Returns
	-------
	shuffled_sequences: torch.tensor, shape=(-1, n, k, -1)
		The shuffled sequences.
	"""

	_validate_input(X, "X", shape=(-1, -1, -1), ohe=True, ohe_dim=1)

	if random_state is None:
		random_state = numpy.random.randint(0, 9999999)

	X_shufs = []
	for i in range(X.shape[0]):
		insert_ = _dinucleotide_shuffle(X[i, :, start:end], n_shuffles=n, 
			random_state=random_state+i, verbose=verbose)

		X_shuf = torch.clone(X[i:i+1]).repeat(n, 1, 1)
		X_shuf[:, :, start:end] = insert_
		X_shufs.append(X_shuf)

	return torch.stack(X_shufs)
