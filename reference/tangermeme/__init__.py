# tangermeme: biological sequence analysis for the modern age
# Author: Jacob Schreiber

__version__ = '0.4.2'
