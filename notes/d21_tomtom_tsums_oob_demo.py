import numpy, torch, sys
from tangermeme.tools.tomtom import tomtom
numpy.random.seed(0)
cols = numpy.random.dirichlet(numpy.ones(4), size=3).T
def rep(n, seed):
    r = numpy.random.RandomState(seed)
    return cols[:, r.randint(0, 3, size=n)]
Ts = [rep(n, n) for n in (60, 45, 52, 33, 41)]
Qs = [numpy.random.dirichlet(numpy.ones(4), size=k).T for k in numpy.random.randint(4, 12, size=64)]
ref = None
bad = 0
for trial in range(6):
    for nj in (1, 16, 8, 16):
        r = tomtom(Qs, Ts, n_jobs=nj)
        o = numpy.stack([x.numpy() for x in r])
        if ref is None: ref = o
        elif not numpy.array_equal(ref, o, equal_nan=True):
            bad += 1
            d = numpy.argwhere(~numpy.isclose(ref, o, equal_nan=True))
            print('trial', trial, 'n_jobs', nj, 'differs at', len(d), 'entries, e.g.', d[0], ref[tuple(d[0])], o[tuple(d[0])])
print('runs differing from the first:', bad)
sys.exit(1 if bad else 0)
