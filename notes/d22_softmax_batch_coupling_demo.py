import torch, warnings
warnings.filterwarnings("ignore")
from tangermeme.deep_lift_shap import deep_lift_shap
torch.manual_seed(0)
class M(torch.nn.Module):
    def __init__(s):
        super().__init__()
        s.conv = torch.nn.Conv1d(4, 3, 3, padding=1)
        s.sm = torch.nn.Softmax(dim=1)
        s.lin = torch.nn.Linear(3*8, 1)
    def forward(s, X):
        return s.lin(s.sm(s.conv(X)).reshape(X.shape[0], -1))
m = M().double()
X = torch.zeros(6, 4, 8, dtype=torch.float64)
idx = torch.randint(0, 4, (6, 8))
X.scatter_(1, idx[:, None, :], 1.0)
refs = torch.zeros(6, 3, 4, 8, dtype=torch.float64)
ridx = torch.randint(0, 4, (6, 3, 8))
refs.scatter_(2, ridx[:, :, None, :], 1.0)
outs = {}
for b in (1, 2, 3, 5, 18, 64):
    outs[b] = deep_lift_shap(m, X, references=refs, batch_size=b, device='cpu', warning_threshold=1e9)
alone = torch.cat([deep_lift_shap(m, X[i:i+1], references=refs[i:i+1], batch_size=64, device='cpu', warning_threshold=1e9) for i in range(6)])
bad = False
for b, o in outs.items():
    d = (o - outs[1]).abs().max().item()
    print("batch_size=%-3d max |attr - attr(batch_size=1)| = %.3e" % (b, d))
    bad |= d > 1e-9
d = (alone - outs[64]).abs().max().item()
print("each example alone vs all together: %.3e" % d)
bad |= d > 1e-9
raise SystemExit(1 if bad else 0)
