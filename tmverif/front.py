"""Frontend: parse /repo's working tree, index modules/functions, resolve names.

Nothing from /repo is imported or executed; everything is `ast`.
"""
import ast
import os
import re
import hashlib

REPO = os.environ.get("TMVERIF_REPO", "/repo")


class AnalysisError(Exception):
    """the analysis itself cannot stand (anchor vanished, unparsable file...)"""


class FuncInfo:
    def __init__(self, mod, node):
        self.mod = mod
        self.node = node
        self.name = node.name
        self.qual = mod.short + "." + node.name
        self.file = mod.path
        a = node.args
        self.params = [x.arg for x in a.posonlyargs + a.args + a.kwonlyargs]
        self.defaults = {}
        pos = a.posonlyargs + a.args
        for p, d in zip(pos[len(pos) - len(a.defaults):], a.defaults):
            self.defaults[p.arg] = d
        for p, d in zip(a.kwonlyargs, a.kw_defaults):
            if d is not None:
                self.defaults[p.arg] = d
        self.vararg = a.vararg.arg if a.vararg else None
        self.kwarg = a.kwarg.arg if a.kwarg else None
        self.doc = ast.get_docstring(node) or ""
        self._docparams = None
        self.numba = self._numba_flags()

    # ---- numba decorators
    def _numba_flags(self):
        flags = None
        for d in self.node.decorator_list:
            target = d.func if isinstance(d, ast.Call) else d
            name = dotted(target)
            if name is None:
                continue
            last = name.split(".")[-1]
            if last in ("njit", "jit"):
                flags = {"decorator": name, "parallel": False, "fastmath": False,
                         "cache": False, "nopython": last == "njit", "line": d.lineno,
                         "fastmath_node": None}
                if isinstance(d, ast.Call):
                    for kw in d.keywords:
                        if kw.arg in ("parallel", "cache", "nopython"):
                            flags[kw.arg] = bool(const_value(kw.value))
                        elif kw.arg == "fastmath":
                            flags["fastmath_node"] = kw.value
                            v = const_value(kw.value)
                            if v is True:
                                flags["fastmath"] = True
                            elif v in (False, None) and isinstance(kw.value, ast.Constant):
                                flags["fastmath"] = False
                            elif isinstance(kw.value, (ast.Set, ast.List, ast.Tuple)):
                                flags["fastmath"] = set(
                                    const_value(e) for e in kw.value.elts)
                            else:
                                flags["fastmath"] = "unknown"
        return flags

    # ---- numpy-doc parameter table
    def docparams(self):
        """name -> {'type': str, 'shape': str|None, 'kind': tensor|int|bool|callable|other}"""
        if self._docparams is not None:
            return self._docparams
        out = {}
        lines = self.doc.split("\n")
        insec = False
        for i, l in enumerate(lines):
            if l.strip() == "Parameters":
                insec = True
                continue
            if l.strip() in ("Returns", "Yields", "Raises"):
                insec = False
            if not insec:
                continue
            m = re.match(r"^(\w+)\s*:\s*(.*)$", l)
            if m and not l.startswith((" ", "\t")):
                name, typ = m.group(1), m.group(2)
                sh = _balanced_shape(typ)
                kind = "other"
                t = typ.lower()
                if "tensor" in t or "ndarray" in t:
                    kind = "tensor"
                elif re.match(r"\s*int\b", t):
                    kind = "int"
                elif re.match(r"\s*bool\b", t):
                    kind = "bool"
                elif "function" in t or "func" in t or "callable" in t:
                    kind = "callable"
                out[name] = {"type": typ, "shape": sh, "kind": kind}
        self._docparams = out
        return out

    def line(self, node):
        return "%s:%d" % (os.path.relpath(self.file, REPO), getattr(node, "lineno", self.node.lineno))


class ModInfo:
    def __init__(self, short, path, function_renames=None):
        self.short = short          # 'ersatz', 'tools.fimo'
        self.path = path
        with open(path, "rb") as f:
            raw = f.read()
        self.digest = hashlib.sha256(raw).hexdigest()
        self.src = raw.decode("utf8")
        try:
            self.tree = ast.parse(self.src, filename=path)
        except SyntaxError as e:
            raise AnalysisError("cannot parse %s: %s" % (path, e))
        from . import canon
        pre = canon.apply_function_renames(short, self.tree, function_renames) if function_renames and not os.environ.get("TMVERIF_NO_CANON") else []
        self.canon_log = canon.canonicalise_module(short, self.tree)
        if pre:
            self.canon_log.setdefault("<module>", []).extend(pre)
        self.funcs = {}
        self.imports = {}   # local name -> dotted origin  ('predict' -> 'predict.predict', 'numpy' -> 'numpy')
        for n in self.tree.body:
            if isinstance(n, ast.FunctionDef):
                self.funcs[n.name] = FuncInfo(self, n)
            elif isinstance(n, ast.Import):
                for a in n.names:
                    self.imports[a.asname or a.name.split(".")[0]] = a.name if a.asname else a.name.split(".")[0]
            elif isinstance(n, ast.ImportFrom):
                base = n.module or ""
                if n.level:
                    # relative to package of this module
                    pkg = short.split(".")[:-1]
                    up = n.level - 1
                    if up:
                        pkg = pkg[:-up]
                    base = ".".join([p for p in pkg if p] + ([base] if base else []))
                    base = "tangermeme." + base if base else "tangermeme"
                for a in n.names:
                    self.imports[a.asname or a.name] = base + "." + a.name


class Repo:
    def __init__(self, root=None):
        self.root = root or REPO
        self.mods = {}
        pkg = os.path.join(self.root, "tangermeme")
        if not os.path.isdir(pkg):
            raise AnalysisError("no tangermeme package under %s" % self.root)
        paths = {}
        for dirpath, dirs, files in os.walk(pkg):
            dirs[:] = [d for d in dirs if d != "__pycache__"]
            for fn in sorted(files):
                if fn.endswith(".py"):
                    path = os.path.join(dirpath, fn)
                    rel = os.path.relpath(path, pkg)[:-3].replace(os.sep, ".")
                    if rel.endswith("__init__"):
                        continue
                    paths[rel] = path
        # module-level functions that exist under another name in the reference (tmverif.canon N15): found on a first parse of every module
        renames = {}
        if not os.environ.get("TMVERIF_NO_CANON"):
            from . import canon
            sigs = {}
            for rel, path in paths.items():
                try:
                    with open(path, "rb") as f:
                        t = ast.parse(f.read().decode("utf8"))
                    r = canon.module_function_renames(rel, t)
                    if r:
                        renames[rel] = r
                    # signatures of the module-level functions (tmverif.canon N19), under their current and their reference names
                    for n in t.body:
                        if isinstance(n, ast.FunctionDef) and canon.signature_of(n) is not None:
                            sigs[(rel, n.name)] = canon.signature_of(n)
                            if n.name in r:
                                sigs[(rel, r[n.name])] = canon.signature_of(n)
                except (SyntaxError, UnicodeDecodeError):
                    pass
            canon.PACKAGE_SIGNATURES.clear()
            canon.PACKAGE_SIGNATURES.update(sigs)
        for rel, path in sorted(paths.items()):
            self.mods[rel] = ModInfo(rel, path, renames)
        self.consulted = set()

    def mod(self, short):
        if short not in self.mods:
            raise AnalysisError("module tangermeme.%s not found" % short)
        self.consulted.add(short)
        return self.mods[short]

    def func(self, qual):
        """'ersatz.substitute' or 'tools.fimo._fast_hits'"""
        modname, fname = qual.rsplit(".", 1)
        m = self.mod(modname)
        if fname not in m.funcs:
            moved = self._moved(modname, fname)
            if moved is not None:
                return moved
            raise AnalysisError("function %s not found (anchor vanished)" % qual)
        return m.funcs[fname]

    def _moved(self, modname, fname, _depth=0):
        """a function that was moved to another module of the package and is imported back under the same name
        (`from .validation import _validate_input`) is still the anchor"""
        m = self.mods.get(modname)
        if m is None or _depth > 3:
            return None
        origin = m.imports.get(fname)
        if not origin or not origin.startswith("tangermeme."):
            return None
        omod, oname = origin[len("tangermeme."):].rsplit(".", 1) if "." in origin[len("tangermeme."):] else (None, None)
        if omod is None or omod not in self.mods:
            return None
        self.consulted.add(omod)
        if oname in self.mods[omod].funcs:
            return self.mods[omod].funcs[oname]
        return self._moved(omod, oname, _depth + 1)

    def has_func(self, qual):
        modname, fname = qual.rsplit(".", 1)
        return modname in self.mods and (fname in self.mods[modname].funcs or self._moved(modname, fname) is not None)

    def all_funcs(self):
        for m in self.mods.values():
            for f in m.funcs.values():
                yield f

    def resolve_call(self, fi, call):
        """resolve a Call's callee to a package FuncInfo (or None)"""
        return self.resolve_name(fi, call.func)

    def resolve_name(self, fi, expr):
        name = dotted(expr)
        if name is None:
            return None
        head = name.split(".")[0]
        m = fi.mod
        if "." not in name:
            if name in m.funcs:
                return m.funcs[name]
            org = m.imports.get(name)
            if org and org.startswith("tangermeme."):
                q = org[len("tangermeme."):]
                if "." in q and self.has_func(q):
                    return self.func(q)
            return None
        org = m.imports.get(head)
        if org and org.startswith("tangermeme"):
            q = (org + name[len(head):])[len("tangermeme."):]
            if "." in q and self.has_func(q):
                return self.func(q)
        return None

    def digest(self):
        h = hashlib.sha256()
        for k in sorted(self.mods):
            h.update(k.encode())
            h.update(self.mods[k].digest.encode())
        return h.hexdigest()[:16]


def _balanced_shape(typ):
    i = typ.find("shape=(")
    if i < 0:
        return None
    j = i + len("shape=(")
    depth = 1
    k = j
    while k < len(typ) and depth:
        if typ[k] == "(":
            depth += 1
        elif typ[k] == ")":
            depth -= 1
        k += 1
    return typ[j:k - 1] if depth == 0 else None


def split_top(s):
    """split a shape string at top-level commas"""
    out, depth, cur = [], 0, ""
    for ch in s:
        if ch == "(":
            depth += 1
        elif ch == ")":
            depth -= 1
        if ch == "," and depth == 0:
            out.append(cur.strip())
            cur = ""
        else:
            cur += ch
    if cur.strip():
        out.append(cur.strip())
    return out


# ---------------------------------------------------------------- ast helpers
def dotted(e):
    if isinstance(e, ast.Name):
        return e.id
    if isinstance(e, ast.Attribute):
        b = dotted(e.value)
        return None if b is None else b + "." + e.attr
    return None


def const_value(e, default=None):
    if isinstance(e, ast.Constant):
        return e.value
    if isinstance(e, ast.UnaryOp) and isinstance(e.op, ast.USub) and isinstance(e.operand, ast.Constant):
        return -e.operand.value
    return default


def unparse(e):
    return ast.unparse(e) if e is not None else "None"


def names_in(e):
    return {n.id for n in ast.walk(e) if isinstance(n, ast.Name)}


def walk_no_nested(node):
    """pre-order (source order) walk that does not descend into nested function/lambda definitions"""
    todo = [node]
    while todo:
        n = todo.pop()
        yield n
        kids = [c for c in ast.iter_child_nodes(n)
                if not isinstance(c, (ast.FunctionDef, ast.Lambda, ast.AsyncFunctionDef))]
        todo.extend(reversed(kids))


def calls_in(node, name=None):
    out = []
    for n in ast.walk(node):
        if isinstance(n, ast.Call):
            d = dotted(n.func)
            if name is None or d == name or (d and d.split(".")[-1] == name):
                out.append(n)
    return sorted(out, key=lambda n: (n.lineno, n.col_offset))


def kwarg(call, name, pos=None):
    for kw in call.keywords:
        if kw.arg == name:
            return kw.value
    if pos is not None and len(call.args) > pos:
        return call.args[pos]
    return None


def parent_map(root):
    pm = {}
    for n in ast.walk(root):
        for c in ast.iter_child_nodes(n):
            pm[c] = n
    return pm


def stmt_of(pm, node):
    while node in pm and not isinstance(node, ast.stmt):
        node = pm[node]
    return node


def enclosing(pm, node, types):
    out = []
    while node in pm:
        node = pm[node]
        if isinstance(node, types):
            out.append(node)
    return out


def assigned_names(stmts):
    """names (re)bound anywhere inside the statement list"""
    out = set()
    for s in stmts if isinstance(stmts, list) else [stmts]:
        for n in ast.walk(s):
            if isinstance(n, ast.Name) and isinstance(n.ctx, (ast.Store, ast.Del)):
                out.add(n.id)
    return out
