"""Mutation sweep (development aid + thorough-tier evidence): generate first-order AST mutants of the functions a property
is anchored in, run the property's check on each (scratch copy, nothing of the mutant is executed) and classify
  VIOLATION   the check reports it
  ERROR       exit 2 (shape not recognised / anchor vanished): not a silent pass, not an alarm
  SILENT      the check still says the property holds -> either an equivalent mutant, a mutant outside the property's clauses,
              or a hole in the check: these are listed for manual triage
usage: tools/mutsweep.py <PID> --funcs mod.func,mod.func [--jobs 16] [--limit N] [--json out.json]
"""
import ast, copy, json, os, shutil, subprocess, sys, tempfile
from concurrent.futures import ProcessPoolExecutor
VERIF = os.path.dirname(os.path.dirname(os.path.abspath(__file__)))
REPO = os.environ.get("TMVERIF_REPO", "/repo")

CMP = {ast.Lt: ast.LtE, ast.LtE: ast.Lt, ast.Gt: ast.GtE, ast.GtE: ast.Gt, ast.Eq: ast.NotEq, ast.NotEq: ast.Eq}


def mutants_of(func):
    """yield (description, mutate(tree_copy_func) in place) for one FunctionDef"""
    out = []
    nodes = list(ast.walk(func))
    for idx, n in enumerate(nodes):
        if isinstance(n, ast.Compare) and len(n.ops) == 1 and type(n.ops[0]) in CMP:
            out.append(("cmp %s -> %s @%d `%s`" % (type(n.ops[0]).__name__, CMP[type(n.ops[0])].__name__, n.lineno, ast.unparse(n)[:50]),
                        ("cmp", idx)))
        if isinstance(n, ast.BinOp) and isinstance(n.op, (ast.Add, ast.Sub)) and isinstance(n.right, ast.Constant) \
                and isinstance(n.right.value, int) and not isinstance(n.right.value, bool) and n.right.value in (1, 2):
            out.append(("drop %s%d @%d `%s`" % ("+" if isinstance(n.op, ast.Add) else "-", n.right.value, n.lineno, ast.unparse(n)[:50]), ("dropconst", idx)))
        if isinstance(n, ast.BinOp) and isinstance(n.op, (ast.Add, ast.Sub)) and not (isinstance(n.right, ast.Constant)):
            out.append(("swap +/- @%d `%s`" % (n.lineno, ast.unparse(n)[:50]), ("swapop", idx)))
        if isinstance(n, ast.BoolOp) and len(n.values) == 2:
            out.append(("drop 2nd operand of %s @%d `%s`" % (type(n.op).__name__, n.lineno, ast.unparse(n)[:50]), ("dropbool", idx)))
        if isinstance(n, ast.Slice):
            for which in ("lower", "upper"):
                b = getattr(n, which)
                if b is not None and not (isinstance(b, ast.Constant) and b.value is None):
                    out.append(("slice %s + 1 @%d `%s`" % (which, getattr(b, "lineno", 0), ast.unparse(n)[:40]), ("slice+1", idx, which)))
        if isinstance(n, ast.Call) and isinstance(n.func, ast.Name) and n.func.id in ("range", "trange", "prange") and n.args:
            out.append(("range end - 1 @%d `%s`" % (n.lineno, ast.unparse(n)[:50]), ("range-1", idx)))
            out.append(("range end + 1 @%d `%s`" % (n.lineno, ast.unparse(n)[:50]), ("range+1", idx)))
        if isinstance(n, (ast.Assign, ast.AugAssign, ast.Expr)) and not (isinstance(n, ast.Expr) and isinstance(n.value, ast.Constant)):
            out.append(("delete stmt @%d `%s`" % (n.lineno, ast.unparse(n).split("\n")[0][:60]), ("delete", idx)))
        if isinstance(n, ast.If) and not n.orelse and any(isinstance(b, (ast.Raise, ast.Continue, ast.Break, ast.Return)) for b in n.body):
            out.append(("delete guard @%d `if %s`" % (n.lineno, ast.unparse(n.test)[:50]), ("delete", idx)))
        if isinstance(n, ast.keyword) and isinstance(n.value, ast.Constant) and isinstance(n.value.value, bool):
            out.append(("flip %s=%s @%d" % (n.arg, n.value.value, n.value.lineno), ("flipbool", idx)))
        if isinstance(n, ast.Subscript) and isinstance(n.slice, ast.Tuple) and len(n.slice.elts) >= 2 and isinstance(n.ctx, (ast.Load, ast.Store)):
            out.append(("swap first two indices @%d `%s`" % (n.lineno, ast.unparse(n)[:50]), ("swapidx", idx)))
    return out


def apply(func, spec):
    nodes = list(ast.walk(func))
    kind, idx = spec[0], spec[1]
    n = nodes[idx]
    if kind == "cmp":
        n.ops = [CMP[type(n.ops[0])]()]
    elif kind == "dropconst":
        _replace(func, n, n.left)
    elif kind == "swapop":
        n.op = ast.Sub() if isinstance(n.op, ast.Add) else ast.Add()
    elif kind == "dropbool":
        _replace(func, n, n.values[0])
    elif kind == "slice+1":
        b = getattr(n, spec[2])
        setattr(n, spec[2], ast.BinOp(left=b, op=ast.Add(), right=ast.Constant(value=1)))
    elif kind in ("range-1", "range+1"):
        k = 0 if len(n.args) == 1 else 1
        n.args[k] = ast.BinOp(left=n.args[k], op=ast.Sub() if kind == "range-1" else ast.Add(), right=ast.Constant(value=1))
    elif kind == "delete":
        _delete(func, n)
    elif kind == "flipbool":
        n.value = ast.Constant(value=not n.value.value)
    elif kind == "swapidx":
        e = n.slice.elts
        e[0], e[1] = e[1], e[0]
    ast.fix_missing_locations(func)


def _replace(root, old, new):
    for p in ast.walk(root):
        for f, v in ast.iter_fields(p):
            if v is old:
                setattr(p, f, new)
                return
            if isinstance(v, list):
                for i, x in enumerate(v):
                    if x is old:
                        v[i] = new
                        return


def _delete(root, stmt):
    for p in ast.walk(root):
        for f in ("body", "orelse", "finalbody"):
            b = getattr(p, f, None)
            if isinstance(b, list) and stmt in b:
                i = b.index(stmt)
                if len(b) == 1:
                    b[i] = ast.Pass()
                else:
                    del b[i]
                return


def run_one(args):
    pid, relpath, fname, spec, desc = args
    tmp = tempfile.mkdtemp(prefix="mutsweep-")
    try:
        shutil.copytree(os.path.join(REPO, "tangermeme"), os.path.join(tmp, "tangermeme"), ignore=shutil.ignore_patterns("__pycache__"))
        path = os.path.join(tmp, relpath)
        src = open(path).read()
        tree = ast.parse(src)
        f = [n for n in tree.body if isinstance(n, ast.FunctionDef) and n.name == fname][0]
        apply(f, spec)
        try:
            new = ast.unparse(tree)
            compile(new, path, "exec")
        except Exception as e:
            return desc, "INVALID", str(e)[:80]
        if ast.dump(ast.parse(new)) == ast.dump(ast.parse(src)):
            return desc, "INVALID", "no change"
        open(path, "w").write(new)
        r = subprocess.run([os.path.join(VERIF, "check"), pid, "--repo", tmp, "--no-evidence"], capture_output=True, text=True, timeout=900)
        if r.returncode == 1:
            rules = sorted({l.split("rule=")[1].split()[0] for l in r.stdout.split("\n") if l.strip().startswith("rule=")})
            return desc, "VIOLATION", ",".join(rules)
        if r.returncode == 0:
            return desc, "SILENT", ""
        return desc, "ERROR", "; ".join(l[:120] for l in r.stdout.split("\n") if l.startswith("ANALYSIS-ERROR"))[:240]
    finally:
        shutil.rmtree(tmp, ignore_errors=True)


def tasks_for(pid, funcs):
    tasks = []
    for q in funcs:
        mod, fname = q.rsplit(".", 1)
        rel = os.path.join("tangermeme", *mod.split(".")) + ".py"
        try:
            tree = ast.parse(open(os.path.join(REPO, rel)).read())
        except OSError:
            continue
        f = [n for n in tree.body if isinstance(n, ast.FunctionDef) and n.name == fname]
        if not f:
            continue
        for desc, spec in mutants_of(f[0]):
            tasks.append((pid, rel, fname, spec, "%s: %s" % (q, desc)))
    return tasks


def sample_sweep(pid, funcs, k=40, seed=0, jobs=16):
    """run a seeded sample of first-order mutants; -> summary dict (no verdict: sensitivity information only)"""
    import random
    tasks = tasks_for(pid, funcs)
    rnd = random.Random(seed)
    rnd.shuffle(tasks)
    tasks = tasks[:k]
    res = []
    if tasks:
        with ProcessPoolExecutor(max_workers=min(jobs, len(tasks))) as ex:
            res = list(ex.map(run_one, tasks))
    counts = {}
    for d, s_, x in res:
        counts[s_] = counts.get(s_, 0) + 1
    return {"mutants_available": len(tasks_for(pid, funcs)), "sampled": len(res), "counts": counts,
            "silent_examples": [d for d, s_, x in res if s_ == "SILENT"][:12],
            "reported_examples": ["%s -> %s" % (d, x) for d, s_, x in res if s_ == "VIOLATION"][:12],
            "note": "SILENT = equivalent mutant, mutant outside this property's clauses, or a gap; ERROR = exit 2 (never a silent pass)"}


def main():
    pid = sys.argv[1]
    funcs, jobs, limit, jout = [], 16, None, None
    a = sys.argv[2:]
    while a:
        x = a.pop(0)
        if x == "--funcs":
            funcs = a.pop(0).split(",")
        elif x == "--jobs":
            jobs = int(a.pop(0))
        elif x == "--limit":
            limit = int(a.pop(0))
        elif x == "--json":
            jout = a.pop(0)
    tasks = []
    for q in funcs:
        mod, fname = q.rsplit(".", 1)
        rel = os.path.join("tangermeme", *mod.split(".")) + ".py"
        tree = ast.parse(open(os.path.join(REPO, rel)).read())
        f = [n for n in tree.body if isinstance(n, ast.FunctionDef) and n.name == fname]
        if not f:
            print("no such function", q)
            continue
        for desc, spec in mutants_of(f[0]):
            tasks.append((pid, rel, fname, spec, "%s: %s" % (q, desc)))
    if limit:
        tasks = tasks[:limit]
    res = []
    with ProcessPoolExecutor(max_workers=jobs) as ex:
        for r in ex.map(run_one, tasks):
            res.append(r)
    counts = {}
    for d, s, x in res:
        counts[s] = counts.get(s, 0) + 1
    print("mutsweep %s: %d mutants -> %s" % (pid, len(res), counts))
    for d, s, x in res:
        if s == "SILENT":
            print("  SILENT  ", d)
    for d, s, x in res:
        if s == "ERROR":
            print("  ERROR   ", d, "|", x[:100])
    if jout:
        json.dump({"property": pid, "counts": counts, "results": res}, open(jout, "w"), indent=1)


if __name__ == "__main__":
    main()
