"""C09 - saturation mutagenesis reports each single-character mutant at its own index."""
import ast
from ..affine import Lin
from ..front import dotted, const_value, unparse, walk_no_nested, parent_map, kwarg
from ..core import holds, violation, unrecognised, named
from ..flow import AbsInt
from ..rules import pure_params, inline_locals
from ..axes import chain, flat_args, apply_perm, PERMUTERS
from .. import terms

ID = "C09"
ANCHORS = 'ism._attribution_score,ism._edit_distance_one,ism.saturation_mutagenesis'.split(",")
MIN_INSTANCES = 10
# rule families whose findings in this module are derived by an engine (not by comparing spellings): exempt from the rewrite gate
SEMANTIC_RULES = {"R-PURE"}
EXPLANATION = (
    "R-AXES: the producer ism._edit_distance_one enumerates mutants with itertools.product; its operand order gives the "
    "flat layout (major -> minor) and extents; every reshape that un-flattens the stacked predictions in "
    "saturation_mutagenesis must list the same labels in the same order, followed by permutations that end in "
    "[example, character, position]. COUNT: the number of replicated copies equals the product of the extents. "
    "MUTANT: column k is zeroed and character j set. ARGS: extra arguments of example i are replicated once per "
    "mutant. R-TERM: _attribution_score equals the documented formula (difference from y0, centred over characters, "
    "averaged over trailing axes) by polynomial normal form. MASK: result masked by X[:, :, start:end] unless hypothetical."
)
ASSUMPTIONS = [
    "itertools.product enumerates the last operand fastest; torch reshape is row-major; predict preserves the leading order (C03)",
    "torch.stack/cat over the per-example list is example-major",
]


def classify(e, ai, st, W):
    """label a reshape dimension expression: N / A / W / REST / ?"""
    t = unparse(e)
    if t in ("X.shape[0]", "len(X)"):
        return "N"
    if t in ("X.shape[1]", "X.shape[-2]"):
        return "A"
    c = const_value(e)
    if c == -1:
        return "W"
    l = ai.lin(st.copy(), e)
    if l is not None and W is not None and l == W:
        return "W"
    if t in ("X.shape[2]", "X.shape[-1]"):
        return "L"
    return "?"


def run(repo, tier):
    out = []
    prod = repo.func("ism._edit_distance_one")
    sm = repo.func("ism.saturation_mutagenesis")

    # ------------------------------------------------------------ producer layout
    layout, res = producer_layout(prod)
    out += res

    # ------------------------------------------------------------ consumers
    ai = AbsInt(sm, int_params={"start", "end"})
    reshapes = [n for n in walk_no_nested(sm.node) if isinstance(n, ast.Call) and isinstance(n.func, ast.Attribute)
                and n.func.attr in ("reshape", "view", "unflatten")]
    pm = parent_map(sm.node)
    role_base = "un-flatten of the stacked mutant predictions lists [example, %s] in the producer's order"
    if layout is None:
        pass
    elif len(reshapes) < 2:
        out.append(unrecognised("R-AXES", sm, role_base % "...", "expected a reshape in the tensor branch and in the tuple branch, found %d" % len(reshapes)))
    else:
        for k, r in enumerate(reshapes):
            # the full chain this reshape is part of
            top = r
            while isinstance(pm.get(top), ast.Attribute) and isinstance(pm.get(pm.get(top)), ast.Call):
                top = pm[pm[top]]
            stmt = top
            while not isinstance(stmt, ast.stmt):
                stmt = pm[stmt]
            sts = ai.states_at(stmt)
            st = sts[0] if sts else ai.init
            W = None
            s2 = st.copy()
            le, ls = ai.lin(s2, ast.Name(id="end", ctx=ast.Load())), ai.lin(s2, ast.Name(id="start", ctx=ast.Load()))
            if le is not None and ls is not None:
                W = le - ls
            dims = flat_args(r)
            labels = []
            for star, e in dims:
                labels.append("REST" if star else classify(e, ai, st, W))
            branch = "tuple/list-output branch" if any(isinstance(a, ast.ListComp) for a in _anc(pm, r)) else "tensor-output branch"
            role = (role_base % ", ".join(layout)) + " (%s)" % branch
            want = ["N"] + layout
            got = labels[:len(want)]
            if "?" in got:
                out.append(unrecognised("R-AXES", sm, role, "cannot label reshape dimensions %s" % [unparse(e) for _, e in dims], r))
                continue
            # follow permutations after the reshape
            _, ops = chain(top)
            names = [m for m, _ in ops]
            idx = [i for i, (m, c) in enumerate(ops) if c is r][0]
            cur = list(labels)
            bad = None
            for m, c in ops[idx + 1:]:
                if m in PERMUTERS:
                    nxt = apply_perm(cur, m, c)
                    if nxt is None:
                        bad = "cannot interpret `.%s(...)`" % m
                        break
                    cur = nxt
            if bad:
                out.append(unrecognised("R-AXES", sm, role, bad, r))
                continue
            if got != want and (any(x in ("REST", "?", None) for x in got) or len(got) != len(want)):
                out.append(unrecognised("R-AXES", sm, role, "the reshape's leading extents are not written out (%s): layout labels unknown" % got, r))
                continue
            if got != want:
                out.append(named("R-AXES", sm, role,
                                     "reshape lists %s but mutants are enumerated %s-major: flat index = %s" % (
                                         got, layout[0], " * ".join(layout)), r,
                                     witness={"reshape": unparse(r)[:120], "producer_layout": layout, "reshape_labels": labels}))
                continue
            if cur[:3] != ["N", "A", "W"]:
                out.append(violation("R-AXES", sm, role, "after permutations the layout is %s, documented is [N, A, W, ...]" % cur[:4], r))
                continue
            out.append(holds("R-AXES", sm, role, "reshape labels %s, final layout %s" % (labels, cur), r))

    # ------------------------------------------------------------ call of the producer, y0, args replication
    out += caller_roles(sm, pm)
    # ------------------------------------------------------------ attribution formula
    out += attribution_term(repo)
    # ------------------------------------------------------------ masking
    out += mask_rule(sm, ai)
    # ------------------------------------------------------------ purity
    out += pure_params(repo, sm, ["X"])
    out += pure_params(repo, prod, ["X"])
    from .c03 import args_as_given_rule
    if repo.has_func("ism.saturation_mutagenesis"):
        out += args_as_given_rule(repo.func("ism.saturation_mutagenesis"))
    return out


def _anc(pm, n):
    while n in pm:
        n = pm[n]
        yield n


def producer_layout(prod):
    """-> (['A','W'] or ['W','A'] , results)"""
    out = []
    role = "mutants are enumerated by itertools.product over (character, position in [start,end))"
    prods = [n for n in walk_no_nested(prod.node) if isinstance(n, ast.Call) and dotted(n.func) == "itertools.product"]
    loops = [n for n in walk_no_nested(prod.node) if isinstance(n, ast.For)]
    if len(prods) != 1 or not loops:
        return None, [unrecognised("R-AXES", prod, role, "expected one itertools.product and a loop over it")]
    p = prods[0]
    loop = loops[0]
    tgt = loop.target
    if not (isinstance(tgt, ast.Tuple) and len(tgt.elts) == 2 and isinstance(tgt.elts[0], ast.Name)
            and isinstance(tgt.elts[1], ast.Tuple) and len(tgt.elts[1].elts) == 2
            and all(isinstance(x, ast.Name) for x in tgt.elts[1].elts)):
        return None, [unrecognised("R-AXES", prod, role, "loop target is not `i, (a, b)`", loop)]
    it = loop.iter
    if not (isinstance(it, ast.Call) and dotted(it.func) == "enumerate"):
        return None, [unrecognised("R-AXES", prod, role, "loop does not enumerate the coordinates", loop)]
    ivar = tgt.elts[0].id
    v0, v1 = tgt.elts[1].elts[0].id, tgt.elts[1].elts[1].id
    if len(p.args) != 2:
        return None, [unrecognised("R-AXES", prod, role, "product has %d operands" % len(p.args), p)]

    def kind(op):
        t = unparse(op)
        if t in ("range(X.shape[0])", "range(len(X))", "range(0, X.shape[0])"):
            return "A"
        if t in ("range(start, end)",):
            return "W"
        return "?"
    kinds = [kind(a) for a in p.args]
    if "?" in kinds or sorted(kinds) != ["A", "W"]:
        return None, [violation("R-AXES", prod, role, "product operands %s are not (all characters) x (positions start..end)" % [unparse(a) for a in p.args], p)]
    var_of = {kinds[0]: v0, kinds[1]: v1}
    # stores: X_[i, :, pos] = 0 ; X_[i, char, pos] = 1
    stores = [s for s in loop.body if isinstance(s, ast.Assign) and isinstance(s.targets[0], ast.Subscript)]
    zero = one = None
    for s in stores:
        idx = s.targets[0].slice.elts if isinstance(s.targets[0].slice, ast.Tuple) else [s.targets[0].slice]
        if len(idx) != 3:
            continue
        t = [unparse(x) for x in idx]
        if t[0] == ivar and t[1] == ":" and t[2] == var_of["W"] and const_value(s.value) == 0:
            zero = s
        if t[0] == ivar and t[1] == var_of["A"] and t[2] == var_of["W"] and const_value(s.value) == 1:
            one = s
    role2 = "mutant i zeroes the column at its position and sets its character (in this order)"
    if zero is None or one is None or loop.body.index(zero) > loop.body.index(one):
        bad = stores[0] if stores else loop
        out.append(violation("MUTANT", prod, role2, "stores in the loop are %s" % [unparse(s)[:40] for s in stores], bad))
    elif len(stores) != 2:
        out.append(violation("MUTANT", prod, role2, "unexpected extra store in the mutant loop", stores[-1]))
    else:
        out.append(holds("MUTANT", prod, role2, "X_[i, :, %s] = 0 then X_[i, %s, %s] = 1" % (var_of["W"], var_of["A"], var_of["W"]), zero))
    out.append(holds("R-AXES", prod, role, "product(%s): flat index is %s-major" % (", ".join(unparse(a) for a in p.args), kinds[0]), p))
    # count
    role3 = "number of replicated copies equals |characters| * |positions|"
    reps = [n for n in walk_no_nested(prod.node) if isinstance(n, ast.Call) and isinstance(n.func, ast.Attribute) and n.func.attr == "repeat"]
    ai = AbsInt(prod, int_params={"start", "end"}, ranks={"X": 2})
    ok = None
    for r in reps:
        stmt = [s for s in prod.node.body if any(x is r for x in ast.walk(s))]
        sts = ai.states_at(stmt[0]) if stmt else []
        for st in sts:
            st = st.copy()
            c = ai.lin(st, r.args[0]) if r.args else None
            A = Lin.atom(ai.shape_atom(st, "X", 0))
            e, s_ = ai.lin(st, ast.Name(id="end", ctx=ast.Load())), ai.lin(st, ast.Name(id="start", ctx=ast.Load()))
            exp = ai.lin(st, ast.parse("(end - start) * X.shape[0]", mode="eval").body)
            ok = (c is not None and exp is not None and c == exp)
            if not ok:
                out.append(violation("COUNT", prod, role3, "copies = %r, expected %r" % (c, exp), r))
                break
        if ok is False:
            break
    if ok is None:
        out.append(unrecognised("COUNT", prod, role3, "no X.repeat(count, 1, 1) found"))
    elif ok:
        out.append(holds("COUNT", prod, role3, "repeat count == (end - start) * X.shape[0] on every path", reps[0]))
    # negative end: -1 means through the last position
    role4 = "a negative end is normalised to L + 1 + end inside the producer"
    nz = [s_ for s_ in prod.node.body if isinstance(s_, ast.Assign) and unparse(s_.targets[0]) == "end"]
    if not nz:
        out.append(unrecognised("COUNT", prod, role4, "normalisation of `end` not found"))
    else:
        t = unparse(nz[0].value)
        if t in ("end if end >= 0 else X.shape[-1] + 1 + end", "X.shape[-1] + 1 + end if end < 0 else end"):
            out.append(holds("COUNT", prod, role4, t, nz[0], nontrivial=False))
        elif "X.shape[-1] + end" in t.replace("X.shape[-1] + 1 + end", "") or "X.shape[-1] - 1 + end" in t or "end > 0" in t:
            out.append(violation("COUNT", prod, role4, "normalisation is `%s`: end=-1 no longer reaches the last position" % t, nz[0]))
        else:
            out.append(unrecognised("COUNT", prod, role4, t, nz[0]))
    return kinds, out


def caller_roles(sm, pm):
    out = []
    role = "mutants of example i are built from X[i] over the caller's [start, end)"
    calls = [n for n in walk_no_nested(sm.node) if isinstance(n, ast.Call) and dotted(n.func) == "_edit_distance_one"]
    loop = None
    if calls:
        for a in _anc(pm, calls[0]):
            if isinstance(a, ast.For):
                loop = a
                break
    if len(calls) != 1 or loop is None or not isinstance(loop.target, ast.Name):
        return [unrecognised("ROLE", sm, role, "expected one call of _edit_distance_one inside the per-example loop")]
    iv = loop.target.id
    c = calls[0]
    args = [unparse(a) for a in c.args] + ["%s=%s" % (k.arg, unparse(k.value)) for k in c.keywords]
    if not (unparse(loop.iter) in ("range(X.shape[0])", "range(len(X))")):
        out.append(violation("ROLE", sm, role, "per-example loop iterates `%s`" % unparse(loop.iter), loop))
    elif args[:3] != ["X[%s]" % iv, "start", "end"] and args != ["X[%s]" % iv, "start=start", "end=end"]:
        out.append(violation("ROLE", sm, role, "_edit_distance_one(%s)" % ", ".join(args), c))
    else:
        out.append(holds("ROLE", sm, role, "_edit_distance_one(%s)" % ", ".join(args), c, nontrivial=False))
    # y0
    role = "y0 is the prediction on the unmodified X with its own args"
    y0 = [n for n in sm.node.body if isinstance(n, ast.Assign) and isinstance(n.targets[0], ast.Name) and n.targets[0].id == "y0"]
    y0_all = [n for n in walk_no_nested(sm.node) if isinstance(n, ast.Assign) and any(isinstance(t, ast.Name) and t.id == "y0" for t in n.targets)]
    any_eval_of_X = [n for n in walk_no_nested(sm.node) if isinstance(n, ast.Call) and (dotted(n.func) == "predict" or dotted(n.func) == "model") and
                     any(isinstance(a, ast.Name) and a.id == "X" for a in n.args)]
    if len(y0) != 1 or not (isinstance(y0[0].value, ast.Call) and dotted(y0[0].value.func) == "predict"):
        derived = [n for n in y0_all if not any(isinstance(x, ast.Call) and dotted(x.func) in ("predict", "model") for x in ast.walk(n.value))
                   and any(isinstance(x, ast.Name) and x.id in ("y_hat", "y_hats", "y_hat_") for x in ast.walk(n.value))]
        if derived and not any_eval_of_X:
            out.append(named("ROLE", sm, role, "`%s`: y0 is read out of the mutant predictions and the model is never evaluated on X itself; a mutant "
                             "equals the original only where the edited column is one-hot (an all-zero N column has no such mutant)" % unparse(derived[0])[:70], derived[0]))
        else:
            out.append(unrecognised("ROLE", sm, role, "y0 = predict(...) not found"))
    else:
        c0 = y0[0].value
        a = [unparse(x) for x in c0.args]
        ka = kwarg(c0, "args", 2)
        xstores = [n for n in walk_no_nested(sm.node) if isinstance(n, ast.Name) and n.id == "X" and isinstance(n.ctx, ast.Store)
                   and n.lineno < c0.lineno]
        if a[:2] != ["model", "X"] or ka is None or unparse(ka) != "args" or xstores:
            out.append(violation("ROLE", sm, role, "y0 = %s" % unparse(c0)[:80], c0))
        else:
            out.append(holds("ROLE", sm, role, unparse(c0)[:80], c0, nontrivial=False))
    # args replication
    role = "extra arguments of example i are replicated once per mutant, along the leading axis"
    comps = [n for n in walk_no_nested(loop) if isinstance(n, (ast.GeneratorExp, ast.ListComp)) and any(
        isinstance(g.iter, ast.Name) and g.iter.id == "args" for g in n.generators)]
    if not comps:
        out.append(violation("ARGS", sm, role, "args are not expanded for the mutant batch", loop))
    else:
        g = comps[0]
        av = g.generators[0].target.id if isinstance(g.generators[0].target, ast.Name) else None
        elt = g.elt
        ok = False
        why = "element is `%s`" % unparse(elt)[:70]
        if isinstance(elt, ast.Call) and isinstance(elt.func, ast.Attribute) and elt.func.attr in ("repeat", "expand", "repeat_interleave"):
            base = unparse(elt.func.value)
            first = unparse(elt.args[0]) if elt.args else ""
            src = None
            for s in loop.body:
                if isinstance(s, ast.Assign) and isinstance(s.targets[0], ast.Name) and isinstance(s.value, ast.Call) \
                        and dotted(s.value.func) == "_edit_distance_one":
                    src = s.targets[0].id
            if base == "%s[%s]" % (av, iv) and src and first in ("%s.shape[0]" % src, "len(%s)" % src):
                ok = True
            elif base != "%s[%s]" % (av, iv):
                why = "replicates `%s`, not the argument row of example %s" % (base, iv)
            else:
                why = "replication count `%s` is not the number of mutants" % first
        out.append((holds if ok else violation)("ARGS", sm, role, why if not ok else unparse(elt)[:70], elt))
    # the replicated args are what predict receives with the mutants
    role = "the mutant batch is predicted together with its replicated args"
    pc = [n for n in walk_no_nested(loop) if isinstance(n, ast.Call) and dotted(n.func) == "predict"]
    if len(pc) != 1:
        out.append(unrecognised("ROLE", sm, role, "expected one predict call in the per-example loop"))
    else:
        ka = kwarg(pc[0], "args", 2)
        tgt = None
        for s in loop.body:
            for n in ast.walk(s):
                if isinstance(n, ast.Assign) and isinstance(n.targets[0], ast.Name) and any(x is comps[0] for x in ast.walk(n.value)) if comps else False:
                    tgt = n.targets[0].id
        x1 = unparse(pc[0].args[1]) if len(pc[0].args) > 1 else ""
        ok = ka is not None and tgt is not None and unparse(ka) == tgt
        out.append((holds if ok else violation)("ROLE", sm, role, unparse(pc[0])[:90], pc[0], nontrivial=False))
    return out


EXPECTED_ATTR = """
attr = y_hat[:, :, :, target] - y0[:, None, None, target]
attr = attr - torch.mean(attr, dim=1, keepdims=True)
if len(attr.shape) > 3:
    attr = torch.mean(attr, dim=tuple(range(3, len(attr.shape))))
return attr
"""


def attribution_term(repo):
    fi = repo.func("ism._attribution_score")
    role = "attribution = (y_hat - y0)[target], centred over characters, averaged over trailing axes"
    got, te, why = terms.eval_function(fi)
    if got is None:
        return [unrecognised("R-TERM", fi, role, why)]
    exp, te2 = terms.eval_source(EXPECTED_ATTR)
    # `attr` inside len(attr.shape) is referenced by name: evaluate both under the same convention
    v = terms.compare(got, exp, te)
    if v == "EQUAL":
        return [holds("R-TERM", fi, role, "normal form equals the documented formula", fi.node)]
    if v == "DIFFERENT":
        return [violation("R-TERM", fi, role, "computed term differs from the documented formula", fi.node,
                          semantic=terms.structural_difference(got, exp), witness={"got": terms.canon(got)[:600], "expected": terms.canon(exp)[:600]})]
    return [unrecognised("R-TERM", fi, role, "term contains operators outside the fragment: %s" % sorted(te.opaque)[:3])]


def mask_rule(sm, ai):
    role = "attributions are masked by the observed characters of X[:, :, start:end] unless hypothetical"
    rets = [n for n in walk_no_nested(sm.node) if isinstance(n, ast.Return)]
    ifexps = [r for r in rets if isinstance(r.value, ast.IfExp)]
    if not ifexps:
        return [unrecognised("MASK", sm, role, "no `masked if not hypothetical else raw` return found")]
    out = []
    # mode flag: attributions are returned when raw_outputs is False, (y0, y_hat) otherwise
    role2 = "raw_outputs selects between the attribution and the raw (y0, y_hat) pair"
    mode = [n for n in sm.node.body if isinstance(n, ast.If) and "raw_outputs" in unparse(n.test)]
    tail = [n for n in sm.node.body if isinstance(n, ast.Return)]
    if len(mode) == 1 and tail:
        t = unparse(mode[0].test)
        attr_in = any(isinstance(x, ast.Return) for x in ast.walk(mode[0])) and any("_attribution_score" in unparse(x) for x in mode[0].body)
        raw_tail = unparse(tail[-1].value) == "(y0, y_hat)"
        if t in ("raw_outputs == False", "not raw_outputs") and attr_in and raw_tail:
            out.append(holds("MASK", sm, role2, "if %s: attribution; else (y0, y_hat)" % t, mode[0], nontrivial=False))
        elif t in ("raw_outputs != False", "raw_outputs == True", "raw_outputs") and attr_in and raw_tail:
            out.append(violation("MASK", sm, role2, "`%s` returns the attribution when raw outputs were requested and vice versa" % t, mode[0]))
        else:
            out.append(unrecognised("MASK", sm, role2, t))
    else:
        out.append(unrecognised("MASK", sm, role2, "mode branch not found"))
    for r in ifexps:
        e = r.value
        t = unparse(e.test)
        masked, raw = (e.body, e.orelse) if t in ("hypothetical == False", "not hypothetical", "hypothetical is False") else \
            ((e.orelse, e.body) if t in ("hypothetical == True", "hypothetical", "hypothetical is True") else (None, None))
        if masked is None:
            return [unrecognised("MASK", sm, role, "test `%s` not recognised" % t, r)]
        if not (isinstance(raw, ast.Name) and raw.id == "attr"):
            return [violation("MASK", sm, role, "hypothetical output is `%s`" % unparse(raw), r)]
        if not (isinstance(masked, ast.BinOp) and isinstance(masked.op, ast.Mult)):
            return [violation("MASK", sm, role, "non-hypothetical output `%s` is not a product with X" % unparse(masked), r)]
        xs = masked.left if unparse(masked.right) == "attr" else masked.right
        other = masked.right if xs is masked.left else masked.left
        if unparse(other) != "attr":
            return [violation("MASK", sm, role, "masked output `%s`" % unparse(masked), r)]
        if isinstance(xs, ast.Name) and xs.id == "X":
            # whole-sequence mask: only valid when the window is the whole sequence (guarded by end <= 0 / end == -1)
            guard = [s for s in sm.node.body if isinstance(s, ast.If) and any(x is r for x in ast.walk(s))]
            anc_if = [a for a in ast.walk(sm.node) if isinstance(a, ast.If) and r in a.body]
            if not anc_if or unparse(anc_if[0].test) not in ("end <= 0", "end < 0", "end == -1"):
                return [violation("MASK", sm, role, "mask uses the whole X although attr covers [start, end)", r)]
            continue
        if isinstance(xs, ast.Subscript) and isinstance(xs.value, ast.Name) and xs.value.id == "X":
            idx = [unparse(i) for i in (xs.slice.elts if isinstance(xs.slice, ast.Tuple) else [xs.slice])]
            if idx != [":", ":", "start:end"]:
                return [violation("MASK", sm, role, "mask window is X[%s], expected X[:, :, start:end]" % ", ".join(idx), r)]
            continue
        return [violation("MASK", sm, role, "mask `%s` is not (a window of) X" % unparse(xs), r)]
    return out + [holds("MASK", sm, role, "%d masked return(s)" % len(ifexps), ifexps[0])]


LEVEL_TEXT = ("Static layout typing: the flat order in which mutants are produced (itertools.product operand order and "
              "extents) is compared with every reshape/permutation that names them, for both output branches, together "
              "with the replication of args, the identity of y0 and an algebraic normal-form comparison of the attribution "
              "formula. Valid for all alphabet sizes, windows, batch sizes and output arities since none enters the argument.")
LEVEL_NOTE = ("Decides index layout, mutant construction, args replication, y0 role, attribution formula, mask window. Not decided: "
              "numeric values; negative `end` other than -1 in the caller's reshape (raises, does not mis-index). Trusted: "
              "itertools.product order, row-major reshape, predict's order preservation (C03).")
TECHNIQUE = "dimension-label (layout) typing of producer/consumer + polynomial normal-form term comparison over ast"
