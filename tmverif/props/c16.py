"""C16 - loaded loci, signals and motifs are exactly what the files contain (structural clauses)."""
import ast
from ..affine import Lin, ge, decide
from ..front import dotted, const_value, unparse, walk_no_nested, parent_map, kwarg
from ..core import holds, violation, unrecognised, named
from ..flow import AbsInt
from ..rules import decide_states

ID = "C16"
ANCHORS = 'io.read_meme,io._interleave_loci,io.extract_loci'.split(",")
MIN_INSTANCES = 10
# rule families whose findings in this module are derived by an engine (not by comparing spellings): exempt from the rewrite gate
SEMANTIC_RULES = {"WINDOW"}
EXPLANATION = (
    "R-FLUSH (read_meme): the line parser is a three-state machine; the rule requires that a motif is committed in the same "
    "iteration that reads its last matrix row (after the row counter reaches the declared width) so that no following line is "
    "needed or consumed, that the state is reset afterwards, and that rows are parsed after stripping CR/LF. "
    "extract_loci (linear-constraint proofs for every window size/jitter): the signal window has width out_window + 2*jitter, the "
    "sequence window in_window + 2*jitter (using 2*(w//2) + w%2 = w), both are centred on the locus midpoint and contained in "
    "[0, chrom_length] given the edge filter, which tests the window expanded by max(in,out)//2 + jitter with start < 0 or end >= "
    "chrom_length; the three output lists are appended in the same iteration after every `continue` filter (rows stay aligned). "
    "_interleave_loci: index row*len(loci)+set computed on the chromosome-filtered frame, then sorted (round-robin order)."
)
ASSUMPTIONS = ["pyfaidx / pyBigWig return the bases / values of the requested half-open interval (file semantics: NOT decided)",
               "pandas sort_index is stable for the unique interleave keys"]
IO = "io"


def _conjuncts(t):
    if isinstance(t, ast.BoolOp) and isinstance(t.op, ast.And):
        r = []
        for v in t.values:
            r += _conjuncts(v)
        return r
    return [t]


def count_filter_rule(fi, loop, role):
    """min_counts / max_counts: `continue` exactly when the threshold is given (is not None - 0 is a legal threshold) and the
    target signal sum is strictly below / above it; n_loci: `break` when given and reached."""
    from ..rules import inline_locals
    pm = parent_map(fi.node)
    out = []
    found = {}
    for n in walk_no_nested(loop):
        if not isinstance(n, ast.If):
            continue
        for p in ("min_counts", "max_counts", "n_loci"):
            if any(isinstance(x, ast.Name) and x.id == p for x in ast.walk(n.test)):
                found.setdefault(p, []).append(n)
    for p, want_op, exitk in (("min_counts", "<", ast.Continue), ("max_counts", ">", ast.Continue), ("n_loci", "==", ast.Break)):
        r = role + " [%s]" % p
        ifs = found.get(p, [])
        if len(ifs) != 1:
            out.append(unrecognised("FILTER", fi, r, "%d tests mention %s" % (len(ifs), p)))
            continue
        n = ifs[0]
        if n.orelse or not any(isinstance(b, exitk) for b in n.body):
            out.append(violation("FILTER", fi, r, "`if %s` does not %s" % (unparse(n.test), exitk.__name__.lower()), n))
            continue
        conj = _conjuncts(n.test)
        # enclosing `if p is not None:` also counts as the nullness conjunct
        q = pm.get(n)
        while q is not None and q is not loop:
            if isinstance(q, ast.If) and any(n is x for b in q.body for x in ast.walk(b)):
                conj = _conjuncts(q.test) + conj
            q = pm.get(q)
        nul = [c for c in conj if unparse(c) in ("%s is not None" % p, "not %s is None" % p, "not (%s is None)" % p)]
        truthy = [c for c in conj if isinstance(c, ast.Name) and c.id == p]
        cmps = [c for c in conj if isinstance(c, ast.Compare) and len(c.ops) == 1 and c not in nul and
                any(isinstance(x, ast.Name) and x.id == p for x in ast.walk(c))]
        rest = [c for c in conj if c not in nul and c not in truthy and c not in cmps and
                unparse(c) not in ("signals is not None",)]
        if truthy:
            out.append(named("FILTER", fi, r, "the filter is guarded by the truth value of `%s` (`%s`): a threshold of 0 is a legal value and "
                                 "silently disables the filter; the documented switch is `%s is not None`" % (p, unparse(n.test), p), n))
            continue
        if rest or len(cmps) != 1 or not nul:
            out.append(unrecognised("FILTER", fi, r, "test `%s` (nullness=%d, comparisons=%d, other=%s)" % (unparse(n.test), len(nul), len(cmps), [unparse(x) for x in rest]), n))
            continue
        c = cmps[0]
        l, op, rgt = c.left, c.ops[0], c.comparators[0]
        ops = {ast.Lt: "<", ast.LtE: "<=", ast.Gt: ">", ast.GtE: ">=", ast.Eq: "==", ast.NotEq: "!="}
        flip = {"<": ">", "<=": ">=", ">": "<", ">=": "<=", "==": "==", "!=": "!="}
        o = ops.get(type(op))
        if isinstance(l, ast.Name) and l.id == p:
            l, rgt, o = rgt, l, flip.get(o)
        if not (isinstance(rgt, ast.Name) and rgt.id == p) or o is None:
            out.append(unrecognised("FILTER", fi, r, "comparison `%s`" % unparse(c), n))
            continue
        val = unparse(inline_locals(fi, l))
        want_val = "len(seqs)" if p == "n_loci" else "signal[target_idx].sum()"
        alt_vals = ("len(seqs)", "len(seqs_)") if p == "n_loci" else ("signal[target_idx].sum()", "signal[target_idx, :].sum()", "torch.sum(signal[target_idx])", "signal[target_idx].sum(dim=-1)")
        if p == "n_loci" and o == ">=":
            o = "=="                                    # len(seqs) grows by one per iteration: >= and == stop at the same locus
        if o != want_op:
            what = {"<=": "a locus whose signal equals the bound is dropped", ">=": "a locus whose signal equals the bound is dropped"}.get(o, "count filter is inverted / wrong relation")
            out.append(violation("FILTER", fi, r, "%s: `%s`, expected `%s %s %s`" % (what, unparse(c), want_val, want_op, p), n))
        elif val not in alt_vals:
            if p != "n_loci" and "target_idx" not in val and "signal" in val:
                out.append(violation("FILTER", fi, r, "the filtered quantity is `%s`, not the sum of the target track `signal[target_idx]`" % val, n))
            else:
                out.append(unrecognised("FILTER", fi, r, "filtered quantity `%s`" % val, n))
        else:
            out.append(holds("FILTER", fi, r, "if %s is not None and %s %s %s: %s" % (p, val, want_op, p, exitk.__name__.lower()), n))
    return out


def run(repo, tier):
    out = []
    out += meme_rules(repo)
    out += interleave_rules(repo)
    out += loci_rules(repo)
    return out


def meme_rules(repo):
    fi = repo.func(IO + ".read_meme")
    out = []
    loops = [n for n in walk_no_nested(fi.node) if isinstance(n, ast.For) and unparse(n.iter) in ("infile", "f", "lines")]
    role = "a motif is committed in the iteration that reads its last matrix row (no following line needed or consumed)"
    if not loops:
        return [unrecognised("R-FLUSH", fi, role, "line loop not found")]
    loop = loops[0]
    pm = parent_map(fi.node)
    # named hazard: a text-to-matrix parser that squeezes a single row to 1-D (numpy.loadtxt / genfromtxt without ndmin=2): a motif of width 1
    # then comes back with shape (4,) instead of (4, 1)
    for n_ in walk_no_nested(fi.node):
        if isinstance(n_, ast.Call) and dotted(n_.func) in ("numpy.loadtxt", "numpy.genfromtxt", "np.loadtxt", "np.genfromtxt"):
            nd = kwarg(n_, "ndmin")
            if nd is None or const_value(nd) != 2:
                return [named("MEME", fi, "every motif is returned as a 2-d (alphabet, width) matrix, also for width 1",
                              "`%s` returns a 1-d array for a block of ONE row (no ndmin=2): a width-1 motif loses its position axis" % unparse(n_)[:60], n_)]
    commits = [s for s in walk_no_nested(loop) if isinstance(s, ast.Assign) and isinstance(s.targets[0], ast.Subscript)
               and unparse(s.targets[0].value) == "motifs"]
    rows = [s for s in walk_no_nested(loop) if isinstance(s, ast.Assign) and isinstance(s.targets[0], ast.Subscript)
            and unparse(s.targets[0].value) == "pwm"]
    if len(commits) != 1 or len(rows) != 1:
        return [unrecognised("R-FLUSH", fi, role, "expected one commit `motifs[...] = ...` and one row store `pwm[i] = ...`")]
    c, r = commits[0], rows[0]

    def block_of(s):
        p = pm[s]
        for f in ("body", "orelse"):
            b = getattr(p, f, None)
            if isinstance(b, list) and s in b:
                return p, f, b
        return p, None, []
    rp, rf, rb = block_of(r)
    # the commit must be nested inside the block that parses the row, after the row store and the counter increment
    anc = []
    n = c
    while n in pm and n is not loop:
        n = pm[n]
        anc.append(n)
    in_row_block = any(x in rb for x in anc) or c in rb
    if not in_row_block:
        out.append(named("R-FLUSH", fi, role,
                             "the commit sits in a different branch than the row parser: it is triggered by the NEXT line, which is consumed "
                             "(last motif lost without a trailing line; a MOTIF line directly after a matrix is swallowed)", c,
                             witness={"file": "MOTIF a\\nletter-probability matrix: alength= 4 w= 1\\n0.25 0.25 0.25 0.25<EOF>", "effect": "motif a missing"}))
    else:
        top = c if c in rb else [x for x in anc if x in rb][0]
        incs = [s for s in rb if isinstance(s, ast.AugAssign) and unparse(s) == "i += 1"]
        ok_order = rb.index(r) < rb.index(top) and bool(incs) and rb.index(incs[0]) < rb.index(top)
        guard = top if isinstance(top, ast.If) else None
        gt = unparse(guard.test) if guard is not None else None
        if not ok_order:
            out.append(violation("R-FLUSH", fi, role, "commit precedes the row store / counter increment", c))
        elif gt not in ("i == width", "width == i", "i >= width"):
            if gt in ("i > width", "i == width - 1", "i + 1 == width") or gt is None:
                out.append(violation("R-FLUSH", fi, role, "commit is guarded by `%s`, not by 'all declared rows read'" % gt, c))
            else:
                out.append(unrecognised("R-FLUSH", fi, role, "guard `%s`" % gt, c))
        else:
            out.append(holds("R-FLUSH", fi, role, "pwm[i] = row; i += 1; if %s: commit" % gt, c))
    # reset after commit
    role = "after a commit the parser state is reset (name, width, row counter)"
    cp, cf, cb = block_of(c)
    after_c = [s for s in cb[cb.index(c) + 1:] if isinstance(s, ast.Assign)] if c in cb else []
    rs = [s for s in after_c if unparse(s.targets[0]) == "(motif, width, i)"]
    sep = {unparse(s.targets[0]): unparse(s.value) for s in after_c if isinstance(s.targets[0], ast.Name)}
    ok = (bool(rs) and unparse(rs[0].value) == "(None, None, 0)") or \
        (sep.get("motif") == "None" and sep.get("width") == "None" and sep.get("i") == "0")
    if ok:
        out.append(holds("R-FLUSH", fi, role, unparse(rs[0]) if rs else "motif = None; width = None; i = 0", rs[0] if rs else after_c[0]))
    elif not rs and "i" not in sep:
        # named deviation: the row counter survives the commit, so the next motif's rows are stored at stale indices
        out.append(violation("R-FLUSH", fi, role, "the row counter `i` is not reset after the commit", c))
    else:
        out.append(unrecognised("R-FLUSH", fi, role, "; ".join(unparse(s) for s in after_c)[:120]))
    # committed value
    role = "the committed matrix is the parsed rows transposed to (alphabet, width) under the motif's name"
    t = unparse(c)
    ok = t == "motifs[motif] = torch.from_numpy(pwm.T)"
    if ok:
        out.append(holds("MEME", fi, role, t, c, nontrivial=False))
    elif "pwm)" in t and ".T" not in t:
        out.append(violation("MEME", fi, role, "matrix is not transposed: `%s`" % t, c))
    else:
        out.append(unrecognised("MEME", fi, role, t))
    role = "rows are parsed after stripping CR/LF; width comes from the `w=` field"
    rt = unparse(r.value)
    wt = [unparse(s.value) for s in walk_no_nested(loop) if isinstance(s, ast.Assign) and unparse(s.targets[0]) == "width" and "int(" in unparse(s.value)]
    ok = rt in ("list(map(float, line.strip('\\r\\n').split()))", "list(map(float, line.split()))", "[float(x) for x in line.split()]") and \
        wt == ["int(line.split()[5])"]
    out.append((holds if ok else unrecognised)("MEME", fi, role, "%s ; width=%s" % (rt, wt), r, nontrivial=False))
    role = "reading stops only after n_motifs motifs were committed"
    brk = [n for n in walk_no_nested(loop) if isinstance(n, ast.If) and any(isinstance(b, ast.Break) for b in n.body)]
    ok = len(brk) == 1 and unparse(brk[0].test) == "n_motifs is not None and len(motifs) == n_motifs" and brk[0].lineno > c.lineno
    out.append((holds if ok else (unrecognised if brk else holds))("MEME", fi, role, unparse(brk[0].test) if brk else "no early stop", brk[0] if brk else loop, nontrivial=False))
    role = "parser states are entered on lines starting with MOTIF / letter-probability"
    tests = [unparse(n.test) for n in walk_no_nested(loop) if isinstance(n, ast.If)]
    if "line[:5] == 'MOTIF'" in tests and "line[:6] == 'letter'" in tests:
        out.append(holds("MEME", fi, role, "line[:5] == 'MOTIF'; line[:6] == 'letter'", loop, nontrivial=False))
    elif any(t in ("line[:5] != 'MOTIF'", "line[:6] != 'letter'") for t in tests):
        out.append(violation("MEME", fi, role, "a state test is inverted: %s" % [t for t in tests if "line[" in t], loop))
    elif any(t.startswith("line.startswith(") for t in tests):
        ok = "line.startswith('MOTIF')" in tests and any(t.startswith("line.startswith('letter") for t in tests)
        out.append((holds if ok else unrecognised)("MEME", fi, role, str([t for t in tests if "line" in t]), loop, nontrivial=False))
    else:
        out.append(unrecognised("MEME", fi, role, str([t for t in tests if "line" in t])))
    # name
    role = "motif name is the text after `MOTIF `"
    nm = [unparse(s.value) for s in walk_no_nested(loop) if isinstance(s, ast.Assign) and unparse(s.targets[0]) == "motif" and "line" in unparse(s.value)]
    ok = nm == ["line.replace('MOTIF ', '').strip('\\r\\n')"]
    out.append((holds if ok else unrecognised)("MEME", fi, role, str(nm), loop, nontrivial=False))
    return out


def interleave_rules(repo):
    fi = repo.func(IO + "._interleave_loci")
    out = []
    role = "interleave key = row * number_of_sets + set index, computed on the chromosome-filtered frame"
    loops = [n for n in fi.node.body if isinstance(n, ast.For) and unparse(n.iter) == "enumerate(loci)"]
    if not loops:
        return [unrecognised("INTERLEAVE", fi, role, "loop over the locus sets not found")]
    loop = loops[0]
    key = [s for s in loop.body if isinstance(s, ast.Assign) and unparse(s.targets[0]) == "df['idx']"]
    flt = [s for s in loop.body if isinstance(s, ast.If) and "chroms" in unparse(s.test) and any("isin" in unparse(x) for x in s.body)]
    app = [s for s in loop.body if isinstance(s, ast.Expr) and unparse(s.value) == "loci_dfs.append(df)"]
    if not key:
        out.append(unrecognised("INTERLEAVE", fi, role, "key assignment not found"))
    else:
        t = unparse(key[0].value)
        iv = loop.target.elts[0].id if isinstance(loop.target, ast.Tuple) else "i"
        good = {"numpy.arange(len(df)) * len(loci) + %s" % iv, "%s + numpy.arange(len(df)) * len(loci)" % iv,
                "numpy.arange(len(df)) * len(loci_dfs_all) + %s" % iv}
        if t not in good:
            if "* len(df)" in t or "+ len(loci)" in t or ("len(loci)" not in t):
                out.append(violation("INTERLEAVE", fi, role, "key is `%s`" % t, key[0]))
            else:
                out.append(unrecognised("INTERLEAVE", fi, role, t, key[0]))
        elif flt and loop.body.index(flt[0]) > loop.body.index(key[0]):
            out.append(named("INTERLEAVE", fi, role, "the key is computed before the chromosome filter: after filtering the keys no longer "
                                 "enumerate the kept rows, so the sort does not give a round-robin order of the kept loci", key[0],
                                 witness={"sets": 2, "chroms": "given", "set0": "excluded locus listed before kept ones"}))
        elif not app or loop.body.index(app[0]) < loop.body.index(key[0]):
            out.append(named("INTERLEAVE", fi, role, "frame is appended before its key is set", key[0]))
        else:
            out.append(holds("INTERLEAVE", fi, role, t, key[0]))
    role = "the concatenated frame is ordered by the interleave key"
    tail = [unparse(s) for s in fi.node.body if isinstance(s, ast.Assign) and unparse(s.targets[0]) == "loci"]
    ok = "loci = pandas.concat(loci_dfs)" in tail and "loci = loci.set_index('idx').sort_index().reset_index(drop=True)" in tail
    if ok:
        out.append(holds("INTERLEAVE", fi, role, tail[-1], fi.node))
    elif not any("sort" in t for t in tail):
        out.append(violation("INTERLEAVE", fi, role, "frames are concatenated without sorting by the key: %s" % tail, fi.node))
    else:
        out.append(unrecognised("INTERLEAVE", fi, role, str(tail)))
    return out


def loci_rules(repo):
    fi = repo.func(IO + ".extract_loci")
    out = []
    ai = AbsInt(fi, int_params={"in_window", "out_window", "max_jitter", "start", "end", "mid", "chrom_length"}, nonneg_params=("max_jitter", "in_window", "out_window"),
                null_preserving=_null_preserving(repo))
    loops = [n for n in fi.node.body if isinstance(n, ast.For) and "loci.values" in unparse(n.iter)]
    if not loops:
        return [unrecognised("WINDOW", fi, "locus loop", "loop over loci.values not found")]
    loop = loops[0]
    pm = parent_map(fi.node)

    def stmt_of(n):
        while not isinstance(n, ast.stmt):
            n = pm[n]
        return n
    # --- signal window
    sig = [n for n in walk_no_nested(loop) if isinstance(n, ast.Call) and dotted(n.func) == "_extract_locus_signal"]
    seqs = [n for n in walk_no_nested(loop) if isinstance(n, ast.Subscript) and isinstance(n.ctx, ast.Load)
            and unparse(n.value) in ("sequences[chrom]",) and isinstance(n.slice, (ast.Slice, ast.Tuple))]

    def window_obls(st, s_expr, e_expr, width_param, need_signals):
        s_, e_ = ai.lin(st, s_expr), ai.lin(st, e_expr)
        if s_ is None or e_ is None:
            return None
        W = Lin.atom(width_param) + Lin.atom("max_jitter").scale(2)
        CL = st.env.get("chrom_length")
        ob = [("width >= window + 2*jitter", (e_ - s_) - W), ("width <= window + 2*jitter", W - (e_ - s_))]
        if CL is not None:
            ob += [("start >= 0", s_), ("end <= chrom_length", CL - e_)]
        mid = st.env.get("mid")
        if mid is not None:
            half = ai.lin(st, ast.parse("%s // 2" % width_param, mode="eval").body)
            ob += [("centred: start == mid - w//2 - jitter", s_ - (mid - half - Lin.atom("max_jitter"))),
                   ("centred: start == mid - w//2 - jitter'", (mid - half - Lin.atom("max_jitter")) - s_)]
        return ob

    roles = []
    for k, c in enumerate(sig):
        a = c.args
        which = unparse(a[0]) if a else "?"
        wp = "out_window" if which == "signals" else "in_window"
        role = "window passed to _extract_locus_signal(%s, ...) is the centred %s (+2*jitter) inside the chromosome" % (which, wp)
        if len(a) != 4 or unparse(a[1]) != "chrom":
            out.append(unrecognised("WINDOW", fi, role, unparse(c)))
            continue

        def mk(st, a=a, wp=wp):
            # out_width is forced to 0 only when no signals are requested: this call is then unreachable
            return window_obls(st, a[2], a[3], wp, True)
        # only states where out_width was not zeroed are relevant for the signal window
        out.append(_decide_filtered(ai, fi, stmt_of(c), mk, "WINDOW", role))
    if not sig:
        out.append(unrecognised("WINDOW", fi, "signal windows", "no call of _extract_locus_signal in the locus loop"))
    for k, sub in enumerate(seqs):
        sl = sub.slice.elts[-1] if isinstance(sub.slice, ast.Tuple) else sub.slice
        role = "sequence window #%d is the centred in_window (+2*jitter) inside the chromosome" % k
        if not isinstance(sl, ast.Slice) or sl.lower is None or sl.upper is None:
            out.append(unrecognised("WINDOW", fi, role, unparse(sub)))
            continue

        def mk(st, sl=sl):
            return window_obls(st, sl.lower, sl.upper, "in_window", False)
        out.append(_decide_filtered(ai, fi, stmt_of(sub), mk, "WINDOW", role))
    if len(seqs) < 2:
        out.append(unrecognised("WINDOW", fi, "sequence windows", "expected the in-memory and the FASTA extraction, found %d" % len(seqs)))

    # --- edge filter shape
    role = "a locus is dropped exactly when its window expanded by max(in,out)//2 + jitter touches or crosses a chromosome end"
    ef = [s for s in loop.body if isinstance(s, ast.If) and "chrom_length" in unparse(s.test) and any(isinstance(b, ast.Continue) for b in s.body)]
    if len(ef) != 1:
        out.append(unrecognised("EDGE", fi, role, "edge filter not found"))
    else:
        t = unparse(ef[0].test)
        if t in ("start < 0 or end >= chrom_length", "end >= chrom_length or start < 0"):
            # the tested start/end are the expanded window
            sts = ai.states_at(ef[0])
            ok = True
            for st in sts:
                st = st.copy()
                s_, e_, mid = st.env.get("start"), st.env.get("end"), st.env.get("mid")
                mx = ai.lin_alts(st, ast.parse("max(out_width, in_width)", mode="eval").body)
                if s_ is None or e_ is None or mid is None or mx is None:
                    ok = None
                    break
                okk = False
                for m, cons in mx:
                    G = st.G + [c for c in cons if not c.is_const()]
                    if any(c.is_const() and c.c < 0 for c in cons):
                        continue
                    j = Lin.atom("max_jitter")
                    if decide(G, s_ - (mid - m - j))[0] == "PROVED" and decide(G, (mid - m - j) - s_)[0] == "PROVED" and \
                            decide(G, e_ - (mid + m + j))[0] == "PROVED" and decide(G, (mid + m + j) - e_)[0] == "PROVED":
                        okk = True
                if not okk:
                    ok = False
            if ok is None:
                out.append(unrecognised("EDGE", fi, role, "expanded window not linear"))
            elif ok:
                out.append(holds("EDGE", fi, role, t, ef[0]))
            else:
                out.append(violation("EDGE", fi, role, "the tested interval is not mid -/+ (max(in,out)//2 + jitter)", ef[0]))
        elif t in ("start < 0 or end > chrom_length", "start <= 0 or end >= chrom_length", "start < 0", "end >= chrom_length"):
            out.append(violation("EDGE", fi, role, "edge test is `%s`" % t, ef[0]))
        else:
            out.append(unrecognised("EDGE", fi, role, t, ef[0]))
    # --- count filters and n_loci cap
    role = "a locus is dropped by the count filters only when its target signal is below min_counts / above max_counts; loading stops at n_loci"
    out += count_filter_rule(fi, loop, role)
    # --- midpoint
    role = "the midpoint is start + (end - start)//2 of the locus"
    md = [s for s in loop.body if isinstance(s, ast.Assign) and unparse(s.targets[0]) == "mid"]
    t = unparse(md[0].value) if md else ""
    if t in ("start + (end - start) // 2", "(start + end) // 2"):
        out.append(holds("EDGE", fi, role, t, md[0], nontrivial=False))
    elif md:
        out.append(violation("EDGE", fi, role, "mid = %s" % t, md[0]))
    else:
        out.append(unrecognised("EDGE", fi, role, "mid not found"))
    # --- aligned appends
    role = "sequence / signal / in-signal rows of one locus are appended in the same iteration after every filter (rows stay aligned)"
    apps = [s for s in walk_no_nested(loop) if isinstance(s, ast.Expr) and isinstance(s.value, ast.Call)
            and isinstance(s.value.func, ast.Attribute) and s.value.func.attr == "append"
            and unparse(s.value.func.value) in ("seqs", "signals_", "in_signals_")]
    names = sorted(unparse(s.value.func.value) for s in apps)
    skips = [n for n in walk_no_nested(loop) if isinstance(n, (ast.Continue, ast.Break))]
    if names != ["in_signals_", "seqs", "signals_"]:
        out.append(unrecognised("ALIGN", fi, role, "appends found: %s" % names))
    else:
        first = min(s.lineno for s in apps)
        late = [n for n in skips if n.lineno > first]
        if late:
            out.append(named("ALIGN", fi, role, "a `%s` at line %d can skip the remaining appends of this locus after `%s` was appended" % (
                type(late[0]).__name__.lower(), late[0].lineno, unparse([s for s in apps if s.lineno == first][0].value.func.value)), late[0]))
        else:
            # what is appended
            amap = {unparse(s.value.func.value): unparse(s.value.args[0]) for s in apps}
            ok = amap == {"seqs": "seq", "signals_": "signal", "in_signals_": "in_signal"}
            out.append((holds if ok else unrecognised)("ALIGN", fi, role, str(amap), apps[0]))
    role = "outputs are stacked in list order"
    tail = [unparse(s) for s in walk_no_nested(fi.node) if isinstance(s, (ast.Assign, ast.Expr)) and "numpy.stack" in unparse(s)]
    ok = len(tail) == 3 and "seqs = torch.from_numpy(numpy.stack(seqs))" in tail and \
        "y_return.append(torch.from_numpy(numpy.stack(signals_)))" in tail and "y_return.append(torch.from_numpy(numpy.stack(in_signals_)))" in tail
    out.append((holds if ok else unrecognised)("ALIGN", fi, role, "; ".join(tail)[:140], fi.node, nontrivial=False))
    return out


def _null_preserving(repo):
    """_load_signals(None) is None and every other return is a list: confirmed from its source"""
    f = repo.func(IO + "._load_signals")
    body = [s for s in f.node.body if not (isinstance(s, ast.Expr) and isinstance(s.value, ast.Constant))]
    rets = [n for n in walk_no_nested(f.node) if isinstance(n, ast.Return)]
    ok = bool(body) and isinstance(body[0], ast.If) and unparse(body[0].test) == "signals is None" and \
        len(body[0].body) == 1 and isinstance(body[0].body[0], ast.Return) and const_value(body[0].body[0].value, 0) is None and \
        all(r is body[0].body[0] or (r.value is not None and not (isinstance(r.value, ast.Constant) and r.value.value is None)) for r in rets)
    return {"_load_signals"} if ok else set()


def _decide_filtered(ai, fi, stmt, mk, rule, role):
    return decide_states(ai, fi, stmt, mk, rule, role)


LEVEL_TEXT = ("Typestate-style rule for the MEME line parser (commit with the last row, independent of what follows) and linear-"
              "constraint proofs, for all window sizes, parities and jitters, that extracted windows have the documented width, are "
              "centred, and lie inside the chromosome given the edge filter; ordering/alignment rules for interleaving and appends.")
LEVEL_NOTE = ("Decides: motif commit/reset protocol, window width/centre/containment, edge filter interval, aligned appends, interleave "
              "key and sort. NOT decided (not applicable): that bases/signal values equal the file contents, file-vs-memory equality "
              "(pyfaidx/pyBigWig semantics).")
TECHNIQUE = "parser-state (flush) rule + abstract interpretation of window arithmetic (linear constraints with floor-div axioms) over ast"
