"""C03 - predict is transparent to batching and keeps extra arguments aligned."""
import ast
from ..affine import Lin, decide
from ..front import dotted, const_value, unparse, walk_no_nested, parent_map, kwarg
from ..core import holds, violation, unrecognised
from ..flow import AbsInt
from ..rules import decide_states, pure_params, Must, call_matcher, fmt_trace
from .c07 import nograd_eval

ID = "C03"
ANCHORS = 'predict.predict'.split(",")
MIN_INSTANCES = 9
# rule families whose findings in this module are derived by an engine (not by comparing spellings): exempt from the rewrite gate
SEMANTIC_RULES = {"R-PURE", "R-EVAL", "R-NOGRAD", "R-MODEL"}
EXPLANATION = (
    "R-ARGWIN: in predict's batch loop the slice applied to X and the slice applied to every element of args are the "
    "same linear forms (lo = loop variable, hi = lo + step) and the loop is range(0, N, step) with the window width equal "
    "to the step, so the tiles partition [0, N) and example i always meets args[k][i]. ORDER: per-batch results are "
    "appended unconditionally in loop order and only concatenated along axis 0 / transposed by zip(*y). ARGS-CHECK: the "
    "leading-dimension test on args raises and dominates the first forward call. R-NOGRAD/R-EVAL, R-PURE for X and args."
)
ASSUMPTIONS = [
    "python slice clipping for the last partial tile; torch.cat default dim=0 keeps order",
    "the model is a per-example function (not decided)",
]


def run(repo, tier):
    fi = repo.func("predict.predict")
    out = []
    ai = AbsInt(fi, int_params={"batch_size"}, ranks={})
    pm = parent_map(fi.node)
    fwd = [n for n in walk_no_nested(fi.node) if isinstance(n, ast.Call) and isinstance(n.func, ast.Name) and n.func.id == "model"]
    if not fwd:
        return [unrecognised("R-ARGWIN", fi, "forward calls", "no model(...) call")]
    # the batch loop = innermost For enclosing the forward calls
    loop = None
    n = fwd[0]
    while n in pm:
        n = pm[n]
        if isinstance(n, ast.For):
            loop = n
            break
    if loop is None or not isinstance(loop.target, ast.Name):
        return [unrecognised("R-ARGWIN", fi, "batch loop", "forward call is not inside a for loop with a simple target")]
    lv = loop.target.id

    # ---- loop header: range(0, N, step)
    it = loop.iter
    role = "batch loop enumerates tile starts 0, step, 2*step, ... < N"
    if not (isinstance(it, ast.Call) and dotted(it.func) in ("range", "trange", "tqdm.trange") and len(it.args) == 3):
        out.append(unrecognised("R-ARGWIN", fi, role, "loop header `%s` is not range(lo, hi, step)" % unparse(it)[:60], loop))
        return out
    pre = ai.states_at(loop)
    if not pre:
        out.append(unrecognised("R-ARGWIN", fi, role, "loop unreachable"))
        return out
    ok_hdr = True
    why = ""
    for st in pre:
        st = st.copy()
        lo, hi, step = (ai.lin(st, a) for a in it.args)
        N = Lin.atom("X.shape[-%d]" % st.rank["X"]) if st.rank.get("X") else Lin.atom("X.shape[0]")
        if lo is None or hi is None or step is None:
            ok_hdr = False
            why = "non-linear loop bounds"
            break
        if not (lo.is_const() and lo.c == 0):
            ok_hdr, why = False, "tiles start at %r, not 0" % lo
            break
        if hi != N and hi != Lin.atom("X.shape[0]") and hi != Lin.atom("len(X)"):
            ok_hdr, why = False, "loop stops at %r, not at the number of examples" % hi
            break
    out.append((holds if ok_hdr else violation)("R-ARGWIN", fi, role, why or "range(0, X.shape[0], step)", loop))

    # ---- windows: every slice of X / args elements in the loop body
    subs = []
    arg_iter_vars = set()
    for n in walk_no_nested(loop):
        if isinstance(n, ast.comprehension) and isinstance(n.iter, ast.Name) and n.iter.id == "args" and isinstance(n.target, ast.Name):
            arg_iter_vars.add(n.target.id)
        if isinstance(n, ast.For) and n is not loop and isinstance(n.iter, ast.Name) and n.iter.id == "args" and isinstance(n.target, ast.Name):
            arg_iter_vars.add(n.target.id)
    for s in loop.body:
        for n in walk_no_nested(s):
            if isinstance(n, ast.Subscript) and isinstance(n.value, ast.Name) and isinstance(n.ctx, ast.Load) \
                    and (n.value.id == "X" or n.value.id in arg_iter_vars or n.value.id == "args"):
                subs.append((s, n))
    xs = [(s, n) for s, n in subs if n.value.id == "X"]
    as_ = [(s, n) for s, n in subs if n.value.id in arg_iter_vars]
    role = "X is windowed by [start, start+step) of the loop variable"
    if not xs:
        out.append(unrecognised("R-ARGWIN", fi, role, "no slice of X in the batch loop"))
        return out

    def window(st, sub):
        sl = sub.slice
        if not isinstance(sl, ast.Slice) or sl.step is not None:
            return None
        lo = ai.lin(st, sl.lower) if sl.lower is not None else Lin(0)
        hi = ai.lin(st, sl.upper) if sl.upper is not None else Lin.atom("extent(%s)" % sub.value.id)
        if lo is None or hi is None:
            return None
        return lo, hi

    for s, n in xs:
        def mk(st, n=n):
            w = window(st, n)
            if w is None:
                return None
            step = ai.lin(st, it.args[2])
            v = st.env.get(lv, Lin.atom(st.sver.get(lv, lv)))
            lo, hi = w
            from ..affine import entails as _ent
            # a window narrower than the step is fine when it ends at the end of X (explicit clamp instead of slice clipping)
            wide = ("window width >= step (no example skipped)", (hi - lo) - step)
            if not _ent(st.G, (hi - lo) - step):
                N_ = ai.lin(st, ast.parse("X.shape[0]", mode="eval").body)
                if N_ is not None and _ent(st.G, hi - N_):
                    wide = ("a window narrower than the step reaches the end of X", hi - N_)
            return [("window starts at the loop variable", lo - v), ("window starts at the loop variable'", v - lo), wide,
                    ("window width <= step (no example evaluated twice)", step - (hi - lo))]
        if not isinstance(n.slice, ast.Slice):
            out.append(violation("R-ARGWIN", fi, role, "X is indexed by `%s`, not by a contiguous window" % unparse(n.slice), n))
        else:
            out.append(decide_states(ai, fi, s, mk, "R-ARGWIN", role))

    role = "every extra argument is windowed by exactly the slice applied to X"
    has_args_path = any(isinstance(n, ast.Starred) for c in fwd for n in c.args)
    if not as_:
        if has_args_path:
            out.append(violation("R-ARGWIN", fi, role, "args are forwarded to the model but never windowed with X's slice", fwd[0]))
        else:
            out.append(unrecognised("R-ARGWIN", fi, role, "no forward call with extra arguments found"))
    for s, n in as_:
        xsub = xs[0][1]

        def mk(st, n=n, xsub=xsub):
            wa = window(st, n)
            wx = window(st, xsub)
            if wa is None or wx is None:
                return None
            return [("arg lower >= X lower", wa[0] - wx[0]), ("arg lower <= X lower", wx[0] - wa[0]),
                    ("arg upper >= X upper", wa[1] - wx[1]), ("arg upper <= X upper", wx[1] - wa[1])]
        if not isinstance(n.slice, ast.Slice):
            out.append(violation("R-ARGWIN", fi, role, "argument indexed by `%s`" % unparse(n.slice), n))
        else:
            out.append(decide_states(ai, fi, s, mk, "R-ARGWIN", role))

    # forward call receives the windowed X first and the windowed args in order
    role = "the model is called with the windowed X followed by the windowed args in their given order"
    bad = None
    for c in fwd:
        if not c.args or not isinstance(c.args[0], ast.Name):
            bad = (c, "first positional argument is not the windowed batch")
            break
        # the first argument must derive from a slice of X in this iteration
        src = c.args[0].id
        defs = [s for s in loop.body if isinstance(s, ast.Assign) and any(isinstance(t, ast.Name) and t.id == src for t in s.targets)]
        if not defs or not any(isinstance(x, ast.Subscript) and isinstance(x.value, ast.Name) and x.value.id == "X"
                               for x in ast.walk(defs[0].value)):
            bad = (c, "`%s` is not derived from the window of X" % src)
            break
    for n in walk_no_nested(loop):
        if isinstance(n, (ast.ListComp, ast.GeneratorExp)) and any(
                isinstance(g.iter, ast.Name) and g.iter.id == "args" for g in n.generators):
            pass
        if isinstance(n, ast.Call) and dotted(n.func) in ("reversed", "sorted") and any(
                isinstance(x, ast.Name) and x.id in ("args", "args_") for a in n.args for x in ast.walk(a)):
            bad = (n, "extra arguments are reordered by `%s`" % unparse(n)[:40])
    out.append(violation("R-ARGWIN", fi, role, bad[1], bad[0]) if bad else
               holds("R-ARGWIN", fi, role, "%d forward call(s)" % len(fwd), fwd[0], nontrivial=False))

    # ---- ARGS-AS-GIVEN: the windowed extra arguments reach the model as the caller supplied them (device move only)
    out += args_as_given_rule(fi)
    # ---- ORDER
    out += order_rule(fi, loop, pm)
    # ---- ARGS-CHECK
    out += args_check(fi, loop, fwd, pm)
    # ---- no_grad / eval
    out += nograd_eval(repo)
    # ---- purity
    out += pure_params(repo, fi, ["X", "args"])
    out += container_rule(fi)
    return out


DTYPE_CHANGERS = {"type", "float", "double", "half", "bfloat16", "long", "int", "short", "bool", "byte", "char", "type_as", "astype"}


def args_as_given_rule(fi):
    """model(X[i], args[0][i], ...): every element of `args` reaches the model with the caller's values and dtype.  The element expression of
    the comprehension over `args` is a window of the element followed by device moves only (`.to(device)`, `.cuda()`, `.cpu()`); a
    conversion (`.to(device, dtype)`, `.type(..)`, `.float()` ...) changes what the model sees for integer / boolean / float64 arguments."""
    from ..core import named
    role = "every extra argument reaches the model as supplied: windowed and moved to the device, never converted"
    comps = [n for n in ast.walk(fi.node) if isinstance(n, (ast.ListComp, ast.GeneratorExp)) and any(
        isinstance(g.iter, ast.Name) and g.iter.id == "args" for g in n.generators)]
    comps = [c for c in comps if isinstance(c.generators[0].target, ast.Name) and
             any(isinstance(x, ast.Name) and x.id == c.generators[0].target.id for x in ast.walk(c.elt)) and
             not (isinstance(c.elt, ast.Call) and isinstance(c.elt.func, ast.Name)) and
             not isinstance(c.elt, (ast.Compare, ast.BoolOp, ast.UnaryOp)) and     # boolean tests over the elements are validation, not forwarding
             not (isinstance(c.elt, ast.Subscript) and isinstance(c.elt.value, ast.Attribute) and c.elt.value.attr == "shape") and   # extents
             not (isinstance(c.elt, ast.Attribute) and c.elt.attr in ("shape", "dtype", "device", "ndim"))]
    if not comps:
        return [unrecognised("ARGS-GIVEN", fi, role, "no comprehension that selects from the elements of `args`")]
    out = []
    for c in comps:
        var = c.generators[0].target.id if isinstance(c.generators[0].target, ast.Name) else None
        e = c.elt
        verdict = None
        while True:
            if isinstance(e, ast.Call) and isinstance(e.func, ast.Attribute):
                f = e.func.attr
                if f == "to":
                    kws = {k.arg for k in e.keywords}
                    if len(e.args) > 1 or "dtype" in kws or any(isinstance(a, ast.Attribute) and isinstance(a.value, ast.Name) and a.value.id == "torch" for a in e.args) \
                            or any(isinstance(a, ast.Name) and a.id == "dtype" for a in e.args):
                        verdict = ("bad", "`%s` also converts the dtype" % unparse(e)[:60])
                        break
                    if kws - {"device", "non_blocking"}:
                        verdict = ("unknown", unparse(e)[:60])
                        break
                elif f in DTYPE_CHANGERS:
                    verdict = ("bad", "`.%s(..)` converts the argument" % f)
                    break
                elif f not in ("cuda", "cpu", "contiguous", "detach", "pin_memory", "repeat", "repeat_interleave", "expand", "unsqueeze", "clone"):
                    verdict = ("unknown", unparse(e)[:60])
                    break
                e = e.func.value
            elif (isinstance(e, ast.Subscript) and isinstance(e.value, ast.Name) and e.value.id == var) or (isinstance(e, ast.Name) and e.id == var):
                whole = isinstance(e, ast.Name)
                tiled = [x for x in ast.walk(c.elt) if isinstance(x, ast.Call) and isinstance(x.func, ast.Attribute) and x.func.attr in ("repeat", "tile")]
                if whole and tiled:
                    # a.repeat(n, 1, ..) on the WHOLE argument tiles the batch (rows 0..N-1, 0..N-1, ..): row k of the replicated batch
                    # belongs to example k % N, whereas the replicated inputs keep each example's rows together (k // n)
                    verdict = ("bad", "`%s` tiles the whole argument: replicated row k carries example k %% N while the inputs are grouped example by "
                               "example (repeat_interleave keeps them aligned)" % unparse(tiled[0])[:50])
                else:
                    verdict = ("ok", "")
                break
            else:
                verdict = ("unknown", unparse(e)[:60])
                break
        if verdict[0] == "bad" and "tiles the whole" in verdict[1]:
            out.append(named("ARGS-GIVEN", fi, role, verdict[1], c))
        elif verdict[0] == "bad":
            out.append(named("ARGS-GIVEN", fi, role, "%s: integer index / boolean mask / float64 arguments no longer reach the model as given" % verdict[1], c))
        elif verdict[0] == "unknown":
            out.append(unrecognised("ARGS-GIVEN", fi, role, "element expression `%s` is not a window followed by device moves" % verdict[1], c))
        else:
            out.append(holds("ARGS-GIVEN", fi, role, unparse(c.elt)[:60], c, nontrivial=True))
    return out


def container_rule(fi):
    """the returned container mirrors the model's: a tensor for a tensor, a list with one entry per output for a tuple / list - decided by the
    TYPE of a batch output, never by the number of outputs"""
    role = "a model returning a tuple / list of k tensors yields a list of k tensors (also for k = 1); a tensor yields a tensor"
    rets = [n for n in walk_no_nested(fi.node) if isinstance(n, ast.Return) and n.value is not None]
    if not rets:
        return [unrecognised("CONTAINER", fi, role, "no return")]
    r = rets[-1]
    txt = unparse(r.value)
    # a length test that unwraps
    lens = [n for n in ast.walk(r.value) if isinstance(n, ast.Compare) and "len(" in unparse(n) and any(const_value(c) == 1 for c in n.comparators + [n.left])]
    pm_ = parent_map(fi.node)
    g = pm_.get(r)
    if isinstance(g, ast.If) and "len(" in unparse(g.test) and any(isinstance(n, ast.Constant) and n.value == 1 for n in ast.walk(g.test)):
        lens.append(g.test)
    if lens and ("[0]" in txt):
        from ..core import named
        return [named("CONTAINER", fi, role, "the result is unwrapped when it has ONE element (`%s`): a model that returns a 1-tuple gets a bare tensor back, "
                      "so y[0] is the first example instead of the first output" % txt[:70], r)]
    tests = [n for n in walk_no_nested(fi.node) if isinstance(n, ast.If) and unparse(n.test) in ("isinstance(y[0], torch.Tensor)", "torch.is_tensor(y[0])")]
    if txt == "y" and tests:
        return [holds("CONTAINER", fi, role, "container chosen by `%s`" % unparse(tests[-1].test), tests[-1], nontrivial=False)]
    return [unrecognised("CONTAINER", fi, role, "return `%s`" % txt[:80], r)]


def order_rule(fi, loop, pm):
    role = "per-batch outputs are appended unconditionally in loop order and only concatenated along axis 0"
    appends = []
    for s in loop.body:
        if isinstance(s, ast.Expr) and isinstance(s.value, ast.Call) and isinstance(s.value.func, ast.Attribute) \
                and s.value.func.attr == "append" and isinstance(s.value.func.value, ast.Name):
            appends.append(s)
    if len(appends) != 1:
        nested = [n for n in walk_no_nested(loop) if isinstance(n, ast.Call) and isinstance(n.func, ast.Attribute)
                  and n.func.attr in ("append", "insert", "extend") and isinstance(n.func.value, ast.Name)]
        if nested and not appends:
            return [violation("ORDER", fi, role, "results are accumulated conditionally or by `%s`" % unparse(nested[0])[:50], nested[0])]
        return [unrecognised("ORDER", fi, role, "expected exactly one top-level <list>.append in the batch loop, found %d" % len(appends), loop)]
    acc = appends[0].value.func.value.id
    # the only skip allowed before the append is the empty-slice guard (`X_.shape[0] == 0` / `len(X_) == 0`): any other continue / break in
    # the loop body means that the outputs of some batches are dropped
    k_app = loop.body.index(appends[0])
    from ..affine import _infeasible, ge as _ge
    ai_ = AbsInt(fi, int_params={"batch_size"}, ranks={})
    for s_ in loop.body[:k_app]:
        for n_ in walk_no_nested(s_):
            if isinstance(n_, (ast.Continue, ast.Break)):
                g = pm.get(n_)
                gt = unparse(g.test) if isinstance(g, ast.If) else ""
                sts = ai_.states_at(n_)
                if not sts:
                    return [unrecognised("ORDER", fi, role, "a `%s` precedes the append and its path is not analysable" % type(n_).__name__.lower(), n_)]
                for st in sts:
                    st = st.copy()
                    ext = ai_.lin(st, ast.parse("X_.shape[0]", mode="eval").body)
                    if ext is None:
                        return [unrecognised("ORDER", fi, role, "a `%s` under `%s` precedes the append" % (type(n_).__name__.lower(), gt[:60]), n_)]
                    if not _infeasible(list(st.G) + [_ge(ext, 1)]):
                        from ..core import named
                        return [named("ORDER", fi, role, "a `%s` under `%s` precedes the append and is reachable with a NON-EMPTY batch: the outputs of those "
                                      "batches are dropped and the rows no longer line up with the examples" % (type(n_).__name__.lower(), gt[:60]), n_)]
    # what is appended must be the forward output of this iteration
    appended = appends[0].value.args[0] if appends[0].value.args else None
    uses = [n for n in walk_no_nested(fi.node) if isinstance(n, ast.Name) and n.id == acc]
    bad = None
    for u in uses:
        p = pm.get(u)
        if isinstance(p, ast.Attribute) and p.attr in ("insert", "reverse", "sort", "pop", "remove", "extend"):
            bad = (p, "`%s.%s` changes the order/content of the accumulated outputs" % (acc, p.attr))
        if isinstance(p, ast.Subscript) and p.value is u:
            sl = p.slice
            if isinstance(sl, ast.Slice) and (sl.step is not None or sl.lower is not None or sl.upper is not None):
                bad = (p, "accumulated outputs are sliced/reversed: `%s`" % unparse(p))
            if isinstance(p.ctx, ast.Store):
                bad = (p, "accumulated outputs are overwritten: `%s`" % unparse(p))
        if isinstance(p, ast.Call) and dotted(p.func) in ("reversed", "sorted", "set", "random.shuffle", "numpy.random.shuffle"):
            bad = (p, "accumulated outputs pass through `%s`" % dotted(p.func))
    # concatenations after the loop
    cats = [n for n in walk_no_nested(fi.node) if isinstance(n, ast.Call) and dotted(n.func) in ("torch.cat", "torch.concatenate", "torch.stack", "torch.vstack", "torch.hstack")]
    for c in cats:
        d = dotted(c.func)
        dim = kwarg(c, "dim", 1)
        if d in ("torch.stack", "torch.hstack"):
            bad = (c, "per-batch outputs are combined with %s (adds/merges the wrong axis)" % d)
        elif dim is not None and const_value(dim) != 0:
            bad = (c, "per-batch outputs are concatenated along dim=%s, not the example axis" % unparse(dim))
    if not cats:
        return [unrecognised("ORDER", fi, role, "no concatenation of the accumulated outputs found")]
    if bad:
        return [violation("ORDER", fi, role, bad[1], bad[0])]
    return [holds("ORDER", fi, role, "`%s.append(...)` once per iteration; %d concatenation(s) along axis 0" % (acc, len(cats)), appends[0])]


def args_check(fi, loop, fwd, pm):
    role = "an args entry whose leading dimension differs from X raises before any forward call"
    found = None
    for n in walk_no_nested(fi.node):
        if isinstance(n, ast.If) and isinstance(n.test, ast.Compare) and len(n.test.ops) == 1 and isinstance(n.test.ops[0], ast.NotEq):
            l, r = unparse(n.test.left), unparse(n.test.comparators[0])
            pair = {l, r}
            xs = {"X.shape[0]", "len(X)"}
            if pair & xs and any(isinstance(b, ast.Raise) for b in n.body):
                other = (pair - xs)
                if other:
                    o = other.pop()
                    # the other side is <v>.shape[0] / len(<v>) of a loop variable over args
                    loops = [a for a in walk_no_nested(fi.node) if isinstance(a, ast.For) and isinstance(a.iter, ast.Name)
                             and a.iter.id == "args" and isinstance(a.target, ast.Name)]
                    for lp in loops:
                        v = lp.target.id
                        if o in ("%s.shape[0]" % v, "len(%s)" % v) and any(x is n for x in ast.walk(lp)):
                            found = (n, lp)
    if found is None:
        # one-sided rejection: a raising test that compares a leading extent derived from `args` with X's by an ORDER comparison only
        from ..core import named
        def derived_from_args(e):
            names = {x.id for x in ast.walk(e) if isinstance(x, ast.Name)}
            if "args" in names:
                return True
            for a_ in walk_no_nested(fi.node):
                if isinstance(a_, ast.Assign) and any(isinstance(t, ast.Name) and t.id in names for t in a_.targets) and \
                        any(isinstance(x, ast.Name) and x.id == "args" for x in ast.walk(a_.value)):
                    return True
            return False
        for n in walk_no_nested(fi.node):
            if isinstance(n, ast.If) and isinstance(n.test, ast.Compare) and len(n.test.ops) == 1 and any(isinstance(b, ast.Raise) for b in n.body) and \
                    isinstance(n.test.ops[0], (ast.Lt, ast.LtE, ast.Gt, ast.GtE)):
                sides = [n.test.left, n.test.comparators[0]]
                xside = [e for e in sides if unparse(e) in ("X.shape[0]", "len(X)")]
                oside = [e for e in sides if e not in xside]
                if xside and oside and derived_from_args(oside[0]):
                    return [named("ARGS-CHECK", fi, role, "`if %s: raise` rejects a leading dimension on ONE side of X's only; an args entry that is %s than X "
                                  "is accepted" % (unparse(n.test)[:50], "longer" if isinstance(n.test.ops[0], (ast.Lt, ast.LtE)) == (sides[1] is xside[0]) else "shorter"), n)]
        return [violation("ARGS-CHECK", fi, role, "no `if <arg>.shape[0] != X.shape[0]: raise` over every element of args", fi.node)]
    chk, lp = found
    # dominance: the checking loop is a statement executed before the batch loop on every path with args not None
    top = lp
    while pm.get(top) is not fi.node and top in pm:
        top = pm[top]
    ltop = loop
    while pm.get(ltop) is not fi.node and ltop in pm:
        ltop = pm[ltop]
    body = fi.node.body
    if top not in body or ltop not in body or body.index(top) >= body.index(ltop):
        return [violation("ARGS-CHECK", fi, role, "the check does not precede the batch loop", chk)]
    # guarded only by `args is not None`
    anc = []
    n = lp
    while pm.get(n) is not fi.node:
        n = pm[n]
        anc.append(n)
    for a in anc:
        if not (isinstance(a, ast.If) and unparse(a.test) in ("args is not None", "args != None", "args")):
            return [violation("ARGS-CHECK", fi, role, "the check is conditional on `%s`" % unparse(getattr(a, "test", a))[:50], a)]
    # early exit inside the checking loop?
    if any(isinstance(x, (ast.Break, ast.Return)) for x in ast.walk(lp)):
        return [violation("ARGS-CHECK", fi, role, "the checking loop can stop before looking at every argument", lp)]
    return [holds("ARGS-CHECK", fi, role, "check over every element of args precedes the batch loop and raises", chk)]


LEVEL_TEXT = ("Static proof that the windows applied to X and to every extra argument are the same linear forms of the loop "
              "variable, that the tiles partition [0, N), that outputs are accumulated in order and joined along the example "
              "axis, that the args check raises before any forward, and that forward runs under eval()+no_grad; holds for every "
              "n, batch size and number of args because nothing depends on their values.")
LEVEL_NOTE = ("Decides alignment/partition/order/mode/purity. Not decided: that the model is a per-example function, numeric "
              "equality of outputs; trusted: slice clipping, torch.cat semantics.")
TECHNIQUE = "abstract interpretation of loop/slice bounds (linear forms) + structural order/dominance rules over ast"
