"""C07 - a model is left behaviourally unchanged by every call, even one that fails."""
import ast
from ..front import dotted, const_value, unparse, walk_no_nested, parent_map, kwarg
from ..core import holds, violation, unrecognised, Result, HOLDS, named
from ..typestate import ReleaseRule
from ..rules import Must, call_matcher

ID = "C07"
ANCHORS = 'deep_lift_shap._register_hooks,deep_lift_shap._clear_hooks,predict.predict'.split(",")
MIN_INSTANCES = 20
# rule families whose findings in this module are derived by an engine (not by comparing spellings): exempt from the rewrite gate
SEMANTIC_RULES = {"R-RELEASE", "R-MODEL", "R-NOGRAD", "R-EVAL"}
EXPLANATION = (
    "R-RELEASE (typestate): in deep_lift_shap the hook resource acquired by model.apply(<registrar>) must be released "
    "by model.apply(<clearer>) on every exit; every may-raise statement executed while the hooks are installed must be "
    "enclosed by a try whose finally - or catch-all handler - releases, every normal exit must be dominated by a release. "
    "HOOK-PAIRING: every register_*_hook result is stored in module.handles and the clearer removes every stored handle. "
    "R-MODEL: every use of the `model` parameter in every package function is an effect from a whitelist (forward call, "
    ".to/.eval, reading parameters, apply of the registrar/clearer, passing on to func/package functions); "
    "train()/zero_grad()/load_state_dict()/dtype casts/attribute stores/.backward()/optimizer steps are reported. "
    "R-NOGRAD/EVAL for predict. A positive control (synthetic function with model.train()) must be matched on every run."
)
ASSUMPTIONS = [
    "user-supplied func/references/model.forward are outside the analysed program (defaults are resolved and analysed)",
    "torch.autograd.grad does not accumulate .grad on parameters; handle.remove() removes exactly that hook",
    "an exception type outside Exception (KeyboardInterrupt, SystemExit) is outside the property's crash points",
]

FORBIDDEN_METHODS = {
    "train": "switches the model back to training mode",
    "zero_grad": "clears parameter gradients",
    "load_state_dict": "overwrites parameters",
    "requires_grad_": "changes requires_grad of every parameter",
    "register_forward_hook": "installs a hook outside the paired registrar",
    "register_forward_pre_hook": "installs a hook outside the paired registrar",
    "register_full_backward_hook": "installs a hook outside the paired registrar",
    "register_backward_hook": "installs a hook outside the paired registrar",
    "register_full_backward_pre_hook": "installs a hook outside the paired registrar",
    "register_buffer": "adds a buffer", "register_parameter": "adds a parameter", "add_module": "adds a submodule",
    "half": "casts parameters", "float": "casts parameters", "double": "casts parameters", "bfloat16": "casts parameters",
    "type": "casts parameters", "share_memory": "changes storage", "requires_grad": "changes requires_grad",
    "fuse": "rewrites modules", "zero_": "zeroes storage", "fill_": "overwrites storage",
    "copy_": "overwrites storage", "normal_": "overwrites storage", "uniform_": "overwrites storage",
    "add_": "in-place arithmetic on model storage", "mul_": "in-place arithmetic on model storage",
    "sub_": "in-place arithmetic on model storage", "div_": "in-place arithmetic on model storage",
    "clamp_": "in-place arithmetic on model storage", "detach_": "detaches parameter in place",
    "step": "optimizer step", "backward": "accumulates .grad on the parameters",
}
MODEL_ITERATORS = {"modules", "parameters", "named_parameters", "named_modules", "children", "buffers",
                   "named_buffers", "named_children"}
HOOK_REG = {"register_forward_hook", "register_forward_pre_hook", "register_full_backward_hook",
            "register_backward_hook", "register_full_backward_pre_hook"}
ALLOWED_SCRATCH_ATTRS = {"_NON_LINEAR_OPS"}
EXCLUDED = {"deep_lift_shap._captum_deep_lift_shap":
            "private debugging wrapper that hands the model to Captum (not installed, not among the property's API functions)"}


def registrars_and_clearers(repo):
    """package functions that register hooks on their argument / remove handles"""
    reg, clr = set(), set()
    for f in repo.all_funcs():
        for n in walk_no_nested(f.node):
            if isinstance(n, ast.Call) and isinstance(n.func, ast.Attribute):
                if n.func.attr in HOOK_REG:
                    reg.add(f.qual)
                if n.func.attr == "remove" and not n.args:
                    clr.add(f.qual)
    return reg, clr


def apply_of(repo, fi, call, targets):
    """call is  <obj>.apply(f)  with f resolving to a function in `targets`"""
    if not (isinstance(call.func, ast.Attribute) and call.func.attr == "apply" and len(call.args) == 1):
        return False
    t = repo.resolve_name(fi, call.args[0])
    return t is not None and t.qual in targets


def run(repo, tier):
    out = []
    reg, clr = registrars_and_clearers(repo)
    dls = repo.func("deep_lift_shap.deep_lift_shap")

    # ------------------------------------------------------------ R-RELEASE
    def is_acq(c):
        return apply_of(repo, dls, c, reg)

    def is_rel(c):
        if apply_of(repo, dls, c, clr):
            return True
        # a helper function whose body releases unconditionally
        callee = repo.resolve_call(dls, c)
        if callee is not None and callee.qual not in clr:
            rr = ReleaseRule(callee, lambda x: False, lambda x: apply_of(repo, callee, x, clr))
            return bool(rr.releases) and rr.block_must_release(callee.node.body)
        return False

    role = "hooks installed by model.apply(<registrar>) are removed on every exit, normal or exceptional"
    rr = ReleaseRule(dls, is_acq, is_rel, int_params={"n_shuffles", "batch_size"})
    if not rr.acquires:
        out.append(unrecognised("R-RELEASE", dls, role, "no model.apply(<hook registrar>) found (registrars: %s)" % sorted(reg)))
    else:
        seen = set()
        unc = []
        for n, why in rr.uncovered:
            if id(n) not in seen:
                seen.add(id(n))
                unc.append((n, why))
        if unc or rr.bad_exits:
            items = ["%s: `%s` (%s)" % (dls.line(n), unparse(n).split("\n")[0][:70], why) for n, why in unc[:12]]
            items += ["%s: %s" % (dls.line(n), why) for n, why in rr.bad_exits[:4]]
            first = (unc + rr.bad_exits)[0][0]
            out.append(violation("R-RELEASE", dls, role,
                                 "%d may-raise statements and %d exits are reachable with the hooks installed and no releasing "
                                 "handler/finally around them; first: %s" % (len(unc), len(rr.bad_exits), items[0]),
                                 first, witness={"uncovered": items}))
        else:
            out.append(holds("R-RELEASE", dls, role,
                             "%d acquire site(s), %d release site(s); %d may-raise statements in the held region, all inside a "
                             "releasing try; no exit with the resource held" % (len(rr.acquires), len(rr.releases), rr.covered),
                             rr.acquires[0]))

    # scratch attribute: note only
    out += scratch_attr_note(repo, dls)

    # ------------------------------------------------------------ hook pairing inside registrar / clearer
    out += hook_pairing(repo, reg, clr)

    # ------------------------------------------------------------ R-MODEL
    n_model_funcs = 0
    for f in sorted(repo.all_funcs(), key=lambda f: f.qual):
        if "model" not in f.params:
            continue
        if f.qual in EXCLUDED:
            out.append(Result("R-MODEL", f.qual, "excluded", HOLDS, EXCLUDED[f.qual], f.line(f.node), note=True))
            continue
        n_model_funcs += 1
        out.append(model_uses(repo, f, reg, clr))
    if n_model_funcs < 12:
        out.append(unrecognised("R-MODEL", "package", "functions with a model parameter",
                                "only %d functions with a `model` parameter found (expected >= 12)" % n_model_funcs))

    # positive control: the rule must fire on a synthetic function
    ctl = control_fires(repo, reg, clr)
    out.append(ctl)

    # ------------------------------------------------------------ backward() anywhere in the package functions that take a model
    out += no_backward(repo)

    # ------------------------------------------------------------ R-NOGRAD / EVAL in predict
    out += nograd_eval(repo)
    out += eval_rule(repo, "deep_lift_shap.deep_lift_shap")
    for q in ("product.apply_pairwise", "product.apply_product"):
        if repo.has_func(q):
            out += eval_rule(repo, q)
    return out


def scratch_attr_note(repo, dls):
    sets = [n for n in walk_no_nested(dls.node) if isinstance(n, ast.Assign) and any(
        isinstance(t, ast.Attribute) and t.attr == "_NON_LINEAR_OPS" for t in n.targets)]
    dels = [n for n in walk_no_nested(dls.node) if isinstance(n, ast.Delete) and any(
        isinstance(t, ast.Attribute) and t.attr == "_NON_LINEAR_OPS" for t in n.targets)]
    return [Result("R-RELEASE", dls.qual, "scratch attribute _NON_LINEAR_OPS set/deleted", HOLDS,
                   "%d set site(s), %d delete site(s) (informational: the property's observables are hooks, parameters, "
                   "outputs and gradients)" % (len(sets), len(dels)), dls.line(dls.node), note=True)]


def hook_pairing(repo, reg, clr):
    out = []
    for q in sorted(reg):
        f = repo.func(q)
        role = "every registered hook handle is recorded for removal"
        pm = parent_map(f.node)
        regs = [n for n in walk_no_nested(f.node) if isinstance(n, ast.Call) and isinstance(n.func, ast.Attribute)
                and n.func.attr in HOOK_REG]
        lost = []
        for r in regs:
            p = pm.get(r)
            ok = False
            # <x>.handles.append(<register call>)
            if isinstance(p, ast.Call) and isinstance(p.func, ast.Attribute) and p.func.attr in ("append",) \
                    and isinstance(p.func.value, ast.Attribute) and p.func.value.attr == "handles":
                ok = True
            # h = register(...) ; ... handles.append(h) / handles = [h, ...]
            if isinstance(p, ast.Assign) and len(p.targets) == 1 and isinstance(p.targets[0], ast.Name):
                nm = p.targets[0].id
                for n in walk_no_nested(f.node):
                    if isinstance(n, ast.Call) and isinstance(n.func, ast.Attribute) and n.func.attr in ("append", "extend") \
                            and isinstance(n.func.value, ast.Attribute) and n.func.value.attr == "handles" \
                            and any(isinstance(x, ast.Name) and x.id == nm for a in n.args for x in ast.walk(a)):
                        ok = True
            if isinstance(p, (ast.List, ast.Tuple)):
                pp = pm.get(p)
                if isinstance(pp, ast.Assign) and any(isinstance(t, ast.Attribute) and t.attr == "handles" for t in pp.targets):
                    ok = True
            if not ok:
                lost.append(r)
        if not regs:
            out.append(unrecognised("HOOK-PAIRING", f, role, "no register_*_hook call"))
        elif lost:
            out.append(violation("HOOK-PAIRING", f, role, "handle of `%s` is not stored in module.handles: it can never be removed"
                                 % unparse(lost[0])[:80], lost[0]))
        else:
            out.append(holds("HOOK-PAIRING", f, role, "%d registrations, each appended to module.handles" % len(regs), regs[0]))
        # idempotence: resetting the handle record is only safe when modules that already carry hooks are skipped first
        role2 = "re-visiting a module (shared instance under two parents, leftover hooks) cannot overwrite its handle record"
        resets = [s_ for s_ in f.node.body if isinstance(s_, ast.Assign) and any(
            isinstance(t, ast.Attribute) and t.attr == "handles" for t in s_.targets) and isinstance(s_.value, (ast.List, ast.Call))]
        if resets:
            guards = [s_ for s_ in f.node.body if isinstance(s_, ast.If) and any(isinstance(b, ast.Return) for b in s_.body)
                      and f.node.body.index(s_) < f.node.body.index(resets[0])
                      and any(k in unparse(s_.test) for k in ("_backward_hooks", "handles", "_forward_hooks"))]
            if guards:
                out.append(holds("HOOK-PAIRING", f, role2, "early return `if %s` precedes `%s`" % (unparse(guards[0].test), unparse(resets[0])), guards[0]))
            else:
                out.append(violation("HOOK-PAIRING", f, role2,
                                     "`%s` runs for every visit: model.apply reaches a module instance shared by two parents twice, the second visit "
                                     "discards the first three handles, which are then never removed" % unparse(resets[0]), resets[0],
                                     witness={"model": "act = ReLU(); Sequential(Block(conv, act), Block(conv, act))", "effect": "3 hooks survive the call"}))
        else:
            out.append(holds("HOOK-PAIRING", f, role2, "the handle record is never reset", f.node, nontrivial=False))
    for q in sorted(clr):
        f = repo.func(q)
        role = "the clearer removes every recorded handle"
        loops = [n for n in walk_no_nested(f.node) if isinstance(n, ast.For)]
        ok = False
        why = "no loop over <module>.handles calling handle.remove()"
        for l in loops:
            it = l.iter
            if isinstance(it, ast.Attribute) and it.attr == "handles" and isinstance(l.target, ast.Name):
                body_calls = [s for s in l.body if isinstance(s, ast.Expr) and isinstance(s.value, ast.Call)
                              and isinstance(s.value.func, ast.Attribute) and s.value.func.attr == "remove"
                              and isinstance(s.value.func.value, ast.Name) and s.value.func.value.id == l.target.id]
                has_skip = any(isinstance(n, (ast.Break, ast.Continue, ast.Return)) for s in l.body for n in ast.walk(s))
                if body_calls and l.body[0] is body_calls[0] and not has_skip:
                    ok = True
                else:
                    why = "removal inside the loop is conditional or can be skipped"
            elif isinstance(it, ast.Subscript) and isinstance(it.value, ast.Attribute) and it.value.attr == "handles":
                why = "the loop covers only a slice of the handles: `%s`" % unparse(it)
        # the guard around the loop may only test for presence of handles
        out.append((holds if ok else violation)("HOOK-PAIRING", f, role,
                   "loop over module.handles removes each handle unconditionally" if ok else why, f.node))
    return out


def model_aliases(f):
    """names that hold the model object: the parameter and rebinding chains model = model.to(..).eval()"""
    names = {"model"}
    return names


def is_model_expr(e, names):
    """expression evaluating to the model itself (through .to/.eval/.cpu/.cuda chains)"""
    if isinstance(e, ast.Name):
        return e.id in names
    if isinstance(e, ast.Call) and isinstance(e.func, ast.Attribute) and e.func.attr in ("to", "eval", "cpu", "cuda"):
        return is_model_expr(e.func.value, names)
    return False


def model_uses(repo, f, reg, clr):
    role = "only whitelisted effects reach the model"
    names = model_aliases(f)
    pm = parent_map(f.node)
    derived = set()          # loop variables over model.modules()/parameters()
    problems = []
    n_uses = 0
    for n in walk_no_nested(f.node):
        if isinstance(n, (ast.For, ast.comprehension)):
            it = n.iter
            if isinstance(it, ast.Call) and isinstance(it.func, ast.Attribute) and it.func.attr in MODEL_ITERATORS \
                    and is_model_expr(it.func.value, names):
                for x in ast.walk(n.target):
                    if isinstance(x, ast.Name):
                        derived.add(x.id)
    for n in walk_no_nested(f.node):
        if isinstance(n, ast.Name) and (n.id in names or n.id in derived) and isinstance(n.ctx, ast.Load):
            n_uses += 1
            p = pm.get(n)
            isder = n.id in derived
            if isinstance(p, ast.Attribute) and p.value is n:
                pp = pm.get(p)
                attr = p.attr
                if isinstance(p.ctx, (ast.Store, ast.Del)):
                    if attr in ALLOWED_SCRATCH_ATTRS:
                        continue
                    problems.append((p, "attribute `%s.%s` of the model is %s" % (n.id, attr,
                                     "assigned" if isinstance(p.ctx, ast.Store) else "deleted")))
                    continue
                called = isinstance(pp, ast.Call) and pp.func is p
                if called and attr == "apply":
                    if not (apply_of(repo, f, pp, reg) or apply_of(repo, f, pp, clr)):
                        problems.append((pp, "model.apply(%s): not the paired hook registrar/clearer" % unparse(pp.args[0] if pp.args else None)))
                    continue
                if attr in FORBIDDEN_METHODS and (called or attr in ("requires_grad",)):
                    problems.append((pp if called else p, "`%s.%s(...)` %s" % (n.id, attr, FORBIDDEN_METHODS[attr])))
                    continue
                # chained: model.parameters().__next__ etc fine; p.data / p.grad stores
                q = pp
                cur = p
                while isinstance(q, ast.Attribute) and q.value is cur:
                    if isinstance(q.ctx, (ast.Store, ast.Del)):
                        problems.append((q, "store to `%s` reaches model storage" % unparse(q)))
                        break
                    qq = pm.get(q)
                    if isinstance(qq, ast.Call) and qq.func is q and q.attr in FORBIDDEN_METHODS:
                        problems.append((qq, "`%s(...)` %s" % (unparse(q), FORBIDDEN_METHODS[q.attr])))
                        break
                    cur, q = q, qq
                if isinstance(q, ast.Subscript) and isinstance(q.ctx, ast.Store):
                    problems.append((q, "subscript store `%s` reaches model storage" % unparse(q)[:60]))
                if isinstance(q, ast.AugAssign) and q.target is cur:
                    problems.append((q, "augmented assignment on model storage `%s`" % unparse(q)[:60]))
            elif isinstance(p, ast.Subscript) and p.value is n and isinstance(p.ctx, ast.Store) and isder:
                problems.append((p, "subscript store into a parameter/buffer"))
            elif isinstance(p, ast.AugAssign) and p.target is n:
                problems.append((p, "augmented assignment on a model object"))
            elif isinstance(p, ast.Call) and n in p.args:
                d = dotted(p.func) or ""
                last = d.split(".")[-1]
                if d.startswith("torch.optim") or last in ("SGD", "Adam", "AdamW") or \
                        d in ("torch.nn.utils.clip_grad_norm_", "torch.nn.init.zeros_", "torch.nn.utils.clip_grad_value_"):
                    problems.append((p, "model handed to `%s`" % d))
    # optimiser over model.parameters()
    for n in walk_no_nested(f.node):
        if isinstance(n, ast.Call):
            d = dotted(n.func) or ""
            if d.startswith("torch.optim.") or d.endswith(".step") and False:
                problems.append((n, "optimizer constructed over the model: `%s`" % unparse(n)[:60]))
    if problems:
        n0, why = problems[0]
        return violation("R-MODEL", f, role, why + (" (+%d more)" % (len(problems) - 1) if len(problems) > 1 else ""), n0,
                         witness={"uses": ["%s: %s" % (f.line(x), w) for x, w in problems[:6]]})
    return holds("R-MODEL", f, role, "%d uses of the model object, all whitelisted" % n_uses, f.node,
                 nontrivial=n_uses > 0)


def control_fires(repo, reg, clr):
    """positive control: a synthetic function with a forbidden effect must be reported by model_uses"""
    src = "def _ctl(model, X):\n\tmodel = model.to('cpu').eval()\n\ty = model(X)\n\tmodel.train()\n\treturn y\n"
    tree = ast.parse(src)

    class _F:
        qual = "control._ctl"
        node = tree.body[0]
        params = ["model", "X"]
        mod = None

        def line(self, n):
            return "control:%d" % getattr(n, "lineno", 0)
    class _R:
        def resolve_name(self, fi, e):
            return None
    r = model_uses(_R(), _F(), reg, clr)
    if r.status == "VIOLATION":
        return Result("R-MODEL", "control._ctl", "positive control (model.train()) is reported", HOLDS,
                      "rule fires on the synthetic violating function", "", nontrivial=False)
    return unrecognised("R-MODEL", "control._ctl", "positive control (model.train()) is reported",
                        "the rule did not fire on the synthetic violating function")


def no_backward(repo):
    out = []
    for f in sorted(repo.all_funcs(), key=lambda f: f.qual):
        if f.qual in EXCLUDED:
            continue
        if f.mod.short not in ("deep_lift_shap",) and "model" not in f.params:
            continue
        bad = [n for n in walk_no_nested(f.node) if isinstance(n, ast.Call) and (
            (isinstance(n.func, ast.Attribute) and n.func.attr == "backward") or dotted(n.func) == "torch.autograd.backward")]
        if f.qual == "deep_lift_shap.deep_lift_shap":
            role = "gradients are taken with torch.autograd.grad w.r.t. the inputs (no .grad accumulation on parameters)"
            grads = [n for n in walk_no_nested(f.node) if isinstance(n, ast.Call) and dotted(n.func) == "torch.autograd.grad"]
            if bad:
                out.append(violation("R-MODEL", f, role, "`%s` accumulates .grad on every parameter" % unparse(bad[0])[:60], bad[0]))
            elif not grads:
                out.append(unrecognised("R-MODEL", f, role, "no torch.autograd.grad call found"))
            else:
                g = grads[0]
                inputs = g.args[1] if len(g.args) > 1 else kwarg(g, "inputs")
                txt = unparse(inputs)
                if "parameters" in txt or "model" in txt:
                    out.append(violation("R-MODEL", f, role, "gradient taken w.r.t. `%s`" % txt, g))
                else:
                    out.append(holds("R-MODEL", f, role, "autograd.grad(%s, %s)" % (unparse(g.args[0]) if g.args else "?", txt), g))
        elif bad:
            out.append(violation("R-MODEL", f, "no .backward() in a function that takes a model",
                                 "`%s` accumulates .grad on the parameters" % unparse(bad[0])[:60], bad[0]))
    return out


def nograd_eval(repo):
    f = repo.func("predict.predict")
    out = []
    pm = parent_map(f.node)
    fwd = [n for n in walk_no_nested(f.node) if isinstance(n, ast.Call) and isinstance(n.func, ast.Name) and n.func.id == "model"]
    role = "every forward call in predict is inside torch.no_grad()"
    if not fwd:
        return [unrecognised("R-NOGRAD", f, role, "no model(...) call in predict")]
    bad = []
    infer = []
    for c in fwd:
        ok = False
        n = c
        while n in pm:
            n = pm[n]
            if isinstance(n, ast.With):
                for it in n.items:
                    d = dotted(it.context_expr.func) if isinstance(it.context_expr, ast.Call) else None
                    if d == "torch.no_grad":
                        ok = True
                    if d == "torch.inference_mode":
                        infer.append(c)
                    if d in ("torch.set_grad_enabled", "torch.autograd.set_grad_enabled") and \
                            const_value(it.context_expr.args[0] if it.context_expr.args else None) is False:
                        ok = True
        if not ok:
            bad.append(c)
    if infer:
        out.append(named("R-NOGRAD", f, role, "`%s` runs under torch.inference_mode(): every tensor the model creates and keeps during that forward (a lazily "
                         "built mask / positional table) is an inference tensor and makes a later ordinary backward() on the same model raise - "
                         "no_grad() does not have that after-effect" % unparse(infer[0])[:50], infer[0]))
    else:
        out.append(violation("R-NOGRAD", f, role, "`%s` runs with autograd enabled" % unparse(bad[0])[:50], bad[0]) if bad else
                   holds("R-NOGRAD", f, role, "%d forward call(s), all lexically inside no_grad" % len(fwd), fwd[0]))
    out += eval_rule(repo, "predict.predict")
    return out


def eval_rule(repo, qual):
    """R-EVAL for a function that calls the model directly: on EVERY path `.eval()` has been applied to the model object before a forward
    call (a conditional eval - `if model.training:`, `if <not on device>:` - leaves a path on which the children keep their mode), the
    name `model` still denotes that object, and training mode is not switched on again before the last forward call."""
    f = repo.func(qual)
    out = []
    pm = parent_map(f.node)
    fwd = [n for n in walk_no_nested(f.node) if isinstance(n, ast.Call) and isinstance(n.func, ast.Name) and n.func.id == "model"]
    # handing the model to a callable that evaluates it (func(model, X_, ..), predict(model, ..)) counts as a forward use
    fwd += [n for n in walk_no_nested(f.node) if isinstance(n, ast.Call) and not (isinstance(n.func, ast.Attribute) and n.func.attr in ("apply", "to", "eval"))
            and any(isinstance(a, ast.Name) and a.id == "model" for a in n.args) and dotted(n.func) not in ("isinstance", "print", "type", "id")]
    role = "model.eval() is applied to the model object before any forward call"
    if not fwd:
        return [unrecognised("R-EVAL", f, role, "no model(...) call in %s" % qual)]

    def is_eval(c):
        return isinstance(c.func, ast.Attribute) and c.func.attr == "eval" and is_model_expr(c.func.value, {"model"})
    m = Must(f, call_matcher({"eval": is_eval}))
    bad = []
    for c in fwd:
        s = c
        while not isinstance(s, ast.stmt):
            s = pm[s]
        if "eval" not in m.before.get(id(s), frozenset()):
            bad.append(c)
    # the eval'ed object must be the one that is called: `model = model...eval()` or bare `model.eval()`
    rebinds = [n for n in walk_no_nested(f.node) if isinstance(n, ast.Assign) and any(
        isinstance(t, ast.Name) and t.id == "model" for t in n.targets)]
    lost = [r for r in rebinds if not is_model_expr(r.value, {"model"})]
    last_fwd = max(c.lineno for c in fwd)
    trains = [n for n in walk_no_nested(f.node) if isinstance(n, ast.Call) and isinstance(n.func, ast.Attribute)
              and n.func.attr == "train" and is_model_expr(n.func.value, {"model"})]
    def loops_of(n):
        out_, x = [], n
        while x in pm:
            x = pm[x]
            if isinstance(x, (ast.For, ast.While)):
                out_.append(id(x))
        return set(out_)
    fwd_loops = set()
    for c in fwd:
        fwd_loops |= loops_of(c)
    # before the last forward call in program order: lexically earlier, or inside a loop that also contains a forward call (next iteration)
    early = [n for n in trains if n.lineno <= last_fwd or (loops_of(n) & fwd_loops)]
    evals = [n for n in walk_no_nested(f.node) if isinstance(n, ast.Call) and is_eval(n)]
    if bad and evals:
        out.append(named("R-EVAL", f, role, "forward call `%s` is reached on a path on which `%s` has not run (the eval() is conditional): "
                         "sub-modules keep whatever mode they were in" % (unparse(bad[0])[:50], unparse(evals[0])[:40]), bad[0]))
    elif bad:
        out.append(named("R-EVAL", f, role, "forward call `%s` is not dominated by model.eval()" % unparse(bad[0])[:50], bad[0]))
    elif lost:
        out.append(violation("R-EVAL", f, role, "`model` is rebound to `%s`" % unparse(lost[0].value)[:50], lost[0]))
    elif early:
        out.append(named("R-EVAL", f, role, "`%s` (line %d) switches the training mode before the last forward call (line %d)" % (
            unparse(early[0])[:50], early[0].lineno, last_fwd), early[0]))
    elif trains:
        out.append(unrecognised("R-EVAL", f, role, "`%s` changes the training mode after the forward calls: not judged" % unparse(trains[0])[:50], trains[0]))
    else:
        out.append(holds("R-EVAL", f, role, "eval() dominates %d forward call(s)" % len(fwd), fwd[0]))
    return out


LEVEL_TEXT = ("Typestate/effect analysis over the source: the hook resource of deep_lift_shap is released on every exit "
              "because every statement that may raise while the hooks are installed lies inside a try whose finally (or "
              "catch-all handler) clears them - this quantifies over every crash point without enumerating them; every "
              "other use of a model object in the package is one of a closed list of non-mutating effects.")
LEVEL_NOTE = ("Decides: hook release on all exits incl. exceptional, handle pairing, absence of parameter/buffer/hook/grad "
              "writes through the `model` parameter in all package functions, no_grad/eval in predict. Not decided: behaviour "
              "of user-supplied func/models/reference generators; bit-identity is implied by 'no write effect', not measured; "
              "scratch attributes (_NON_LINEAR_OPS, module.input/output) are reported as notes only.")
TECHNIQUE = "typestate (acquire/release over structured control flow with exception edges) + effect whitelist over ast"
