"""C12 - FIMO reports exactly the windows above threshold, both strands, fields correct (structural clauses)."""
import ast
from ..affine import Lin, decide, entails
from ..front import dotted, const_value, unparse, walk_no_nested, parent_map, kwarg
from ..core import holds, violation, unrecognised, named
from ..flow import AbsInt
from ..rules import decide_states, fmt_trace, relevant_guards, module_state_rule, loop_headers_rule

ID = "C12"
ANCHORS = 'tools.fimo._fast_hits,tools.fimo.fimo,tools.fimo._all_pwm_to_mapping'.split(",")
MIN_INSTANCES = 12
# rule families whose findings in this module are derived by an engine (not by comparing spellings): exempt from the rewrite gate
SEMANTIC_RULES = {"R-DTYPE", "STATE", "R-RACE", "R-WIN", "THRESH"}
EXPLANATION = (
    "R-WIN: in fimo._fast_hits the window loop is analysed in the linear-constraint domain: (coverage) the last valid start "
    "L-w is visited whenever it exists and (bounded access) every read X[start+i+j] stays below the sequence end - for every "
    "sequence length including shorter-than-motif ones. FIELDS: the hit tuple is (sequence index, i, i+n, score, 2**table[bin]) "
    "with bin = int(score/bin_size) - smallest + table offset; a hit is appended under `score > thresh`. R-TABLE: the -1 "
    "sentinel of unknown characters agrees between both input paths (FASTA byte table, tensor formula) and the kernel's skip. "
    "STRAND: reverse-complement PWMs are appended after all forward ones as pwm[::-1, ::-1], merged as hits[i] + hits[i+n_] with "
    "labels '+'*len + '-'*len, and both output modes branch on reverse_complement (R-SIB). R-RACE: stores in prange bodies are "
    "indexed by the prange variable. R-DTYPE: thresholds are kept in float64."
)
ASSUMPTIONS = ["numba prange iterations are independent; list append per motif slot is private to the iteration",
               "score / p-value values, mirror symmetry under reverse complement, FASTA-vs-tensor equality: NOT decided (numerical / pyfaidx)"]
F = "tools.fimo"


def motif_purity_rule(repo):
    """the PWMs the caller hands in are only read: `pwm.numpy(force=True)` of a CPU tensor shares its memory, so an in-place operation on
    such an array (op=, subscript store, out=) changes the caller's motif - the next scan with the same dict scores a different model.
    Taint: loop / comprehension variables over `motifs` / `motifs_` (items), and names assigned from a view chain of a tainted name."""
    from ..core import named
    fi = repo.func(F + ".fimo")
    role = "the caller's motif matrices are never written in place (numpy(force=True) shares memory with a CPU tensor)"
    VIEWS = ("numpy", "detach", "cpu", "T", "reshape", "view", "squeeze", "unsqueeze", "transpose", "contiguous")
    tainted = set()
    def iter_over_motifs(e):
        return any(isinstance(x, ast.Name) and x.id in ("motifs", "motifs_") for x in ast.walk(e))
    for n in ast.walk(fi.node):
        if isinstance(n, (ast.For, ast.comprehension)) and iter_over_motifs(n.iter):
            for x in ast.walk(n.target):
                if isinstance(x, ast.Name) and x.id not in ("name", "_"):
                    tainted.add(x.id)
    def is_view_of_tainted(e):
        while True:
            if isinstance(e, ast.Name):
                return e.id in tainted
            if isinstance(e, ast.Call) and isinstance(e.func, ast.Attribute) and e.func.attr in VIEWS:
                e = e.func.value
            elif isinstance(e, (ast.Subscript, ast.Attribute)):
                e = e.value
            else:
                return False
    changed = True
    while changed:
        changed = False
        for n in ast.walk(fi.node):
            if isinstance(n, ast.Assign) and len(n.targets) == 1 and isinstance(n.targets[0], ast.Name) and n.targets[0].id not in tainted and is_view_of_tainted(n.value):
                tainted.add(n.targets[0].id)
                changed = True
    bad = None
    for n in ast.walk(fi.node):
        if isinstance(n, ast.AugAssign) and is_view_of_tainted(n.target):
            bad = bad or n
        elif isinstance(n, ast.Assign) and any(isinstance(t, ast.Subscript) and is_view_of_tainted(t.value) for t in n.targets):
            bad = bad or n
        elif isinstance(n, ast.Call) and isinstance(n.func, ast.Attribute) and n.func.attr.endswith("_") and not n.func.attr.startswith("_") and is_view_of_tainted(n.func.value):
            bad = bad or n
        elif isinstance(n, ast.Call) and any(k.arg == "out" and is_view_of_tainted(k.value) for k in n.keywords):
            bad = bad or n
    if bad is not None:
        return [named("R-PURE", fi, role, "`%s` writes into an array that shares memory with a caller-owned PWM: repeated scans with the same motif dict "
                      "see pwm + k * eps" % unparse(bad)[:60], bad)]
    return [holds("R-PURE", fi, role, "%d name(s) view the caller's PWMs, none is written" % len(tainted), fi.node, nontrivial=False)]


def run(repo, tier):
    out = []
    out += motif_purity_rule(repo)
    out += window_rules(repo)
    out += field_rules(repo)
    out += sentinel_rules(repo)
    out += strand_rules(repo)
    out += race_rules(repo)
    out += dtype_threshold_rules(repo)
    out += module_state_rule(repo, F)
    out += loop_headers_rule(repo.func(F + "._fast_hits"), ["range(n_motifs)", "numba.prange(n_motifs)", "range(n_chroms)", None, "range(n)"], "LOOPS",
                             "every motif, every sequence and every motif column is visited by the scan kernel")
    out += loop_headers_rule(repo.func(F + "._all_pwm_to_mapping"), ["numba.prange(n)"], "LOOPS", "a p-value table is built for every motif")
    out += loop_headers_rule(repo.func(F + ".fimo"), ["motifs_", "range(n_motifs)", "enumerate(alpha_idxs)", "fasta.items()", "range(n_)", "range(n_)"], "LOOPS",
                             "thresholds are computed for every scanned PWM and results are assembled for every reported motif")
    out += driver_rules(repo)
    out += fasta_rules(repo)
    return out


def fasta_rules(repo):
    """FASTA input: record k of the file is sequence k of the scan.  The names reported with the hits are `list(fasta.keys())`, i.e. one
    per record, so the loop that converts the records must append exactly one offset and one index array per record."""
    f = repo.func(F + ".fimo")
    role = "every FASTA record contributes one offset and one index array, in file order (record k = scanned sequence k = name k)"
    loops = [n for n in walk_no_nested(f.node) if isinstance(n, ast.For) and "fasta" in unparse(n.iter) and ".items()" in unparse(n.iter)]
    names = [s_ for s_ in walk_no_nested(f.node) if isinstance(s_, ast.Assign) and unparse(s_.targets[0]) == "sequence_names" and "fasta" in unparse(s_.value)]
    if len(loops) != 1 or not names:
        return [unrecognised("FASTA", f, role, "record loop / sequence_names not found")]
    lp = loops[0]
    nt = unparse(names[0].value)
    all_keys = nt in ("numpy.array(list(fasta.keys()))", "list(fasta.keys())", "numpy.array(list(fasta))", "numpy.array([name for name in fasta.keys()])")
    skips = [n for n in walk_no_nested(lp) if isinstance(n, (ast.Continue, ast.Break))]
    apps = [s_ for s_ in lp.body if isinstance(s_, ast.Expr) and isinstance(s_.value, ast.Call) and isinstance(s_.value.func, ast.Attribute)
            and s_.value.func.attr == "append" and isinstance(s_.value.func.value, ast.Name)]
    tg = sorted(a.value.func.value.id for a in apps)
    if skips and all_keys:
        from ..core import named
        g = parent_map(f.node).get(skips[0])
        return [named("FASTA", f, role, "a record can be skipped (`%s` under `%s`) while sequence_names keeps every key of the file: the hits of all later "
                      "records are reported under the wrong sequence name" % (type(skips[0]).__name__.lower(), unparse(g.test)[:50] if isinstance(g, ast.If) else "?"), skips[0])]
    if not all_keys or skips:
        return [unrecognised("FASTA", f, role, "sequence_names = %s ; skips=%d" % (nt[:60], len(skips)), lp)]
    if tg != ["X", "lengths"]:
        return [unrecognised("FASTA", f, role, "top-level appends in the record loop: %s" % tg, lp)]
    return [holds("FASTA", f, role, "names = all keys; the loop appends to lengths and X unconditionally, no continue/break", lp)]


def driver_rules(repo):
    f = repo.func(F + ".fimo")
    out = []
    src = [unparse(s_) for s_ in walk_no_nested(f.node) if isinstance(s_, (ast.Assign, ast.If))]
    asg = [unparse(s_) for s_ in walk_no_nested(f.node) if isinstance(s_, ast.Assign)]
    role = "tensor input: sequence i occupies [i*L, (i+1)*L) of the concatenated index array"
    if "X_lengths = numpy.arange(X.shape[0] + 1) * X.shape[-1]" in asg:
        out.append(holds("LOOPS", f, role, "X_lengths = numpy.arange(X.shape[0] + 1) * X.shape[-1]", f.node, nontrivial=False))
    elif "X_lengths = numpy.arange(X.shape[0]) * X.shape[-1]" in asg:
        out.append(violation("LOOPS", f, role, "offsets stop at N-1: the last sequence is never scanned", f.node))
    else:
        out.append(unrecognised("LOOPS", f, role, str([a for a in asg if a.startswith("X_lengths")])))
    role = "counts are returned exactly when return_counts is set"
    rc = [n for n in walk_no_nested(f.node) if isinstance(n, ast.If) and "return_counts" in unparse(n.test)]
    t = unparse(rc[0].test) if rc else ""
    if t in ("return_counts == True", "return_counts", "return_counts is True"):
        out.append(holds("R-SIB", f, role, t, rc[0], nontrivial=False))
    elif t in ("return_counts != True", "return_counts == False", "not return_counts"):
        out.append(violation("R-SIB", f, role, "`%s` returns counts when DataFrames were requested" % t, rc[0]))
    else:
        out.append(unrecognised("R-SIB", f, role, t))
    role = "motif boundaries are the cumulative widths of the scanned PWMs; the kernel receives the caller's arrays in order"
    need = ["motif_lengths = [0] + [pwm.shape[-1] for _, pwm in motifs]", "motif_lengths = numpy.cumsum(motif_lengths).astype(numpy.uint64)",
            "motif_pwms = numpy.concatenate([pwm for _, pwm in motifs], axis=-1)", "motif_pwms = numpy.log2(motif_pwms + eps) - math.log2(0.25)"]
    call = [n for n in walk_no_nested(f.node) if isinstance(n, ast.Call) and dotted(n.func) == "_fast_hits"]
    okc = bool(call) and [unparse(a) for a in call[0].args] == ["X", "X_lengths", "motif_pwms", "motif_lengths", "_score_thresholds", "bin_size", "_smallest",
                                                               "_score_to_pvals", "_score_to_pvals_lengths"]
    ok = [x for x in asg if x in need] == need and okc
    if ok:
        out.append(holds("FIELDS", f, role, "log2((pwm + eps) / 0.25); cumulative widths", f.node, nontrivial=False))
    elif any(x.startswith("motif_pwms = numpy.log2(motif_pwms + eps) - math.log2(") and x != need[3] for x in asg) or \
            any(x.startswith("motif_pwms = numpy.log2(motif_pwms) ") for x in asg) or any(x.startswith("motif_pwms = numpy.log(") for x in asg):
        out.append(violation("FIELDS", f, role, "log-odds are `%s`" % [x for x in asg if x.startswith("motif_pwms = numpy.log")][0], f.node))
    else:
        out.append(unrecognised("FIELDS", f, role, "driver statements differ from the confirmed form"))
    return out


def window_rules(repo):
    fi = repo.func(F + "._fast_hits")
    ai = AbsInt(fi, int_arrays={"pwm_lengths", "chrom_lengths"})
    out = []
    # the innermost read of X indexed by a sum involving two loop variables
    reads = [n for n in walk_no_nested(fi.node) if isinstance(n, ast.Subscript) and isinstance(n.value, ast.Name)
             and n.value.id == "X" and isinstance(n.ctx, ast.Load)]
    pm = parent_map(fi.node)
    if len(reads) != 1:
        return [unrecognised("R-WIN", fi, "sequence read", "expected one read of X in the kernel, found %d" % len(reads))]
    rd = reads[0]
    loops = []
    n = rd
    while n in pm:
        n = pm[n]
        if isinstance(n, ast.For):
            loops.append(n)
    if len(loops) < 4:
        return [unrecognised("R-WIN", fi, "window loop nest", "expected motif/sequence/window/column loops")]
    col_loop, win_loop, seq_loop = loops[0], loops[1], loops[2]
    stmt = rd
    while not isinstance(stmt, ast.stmt):
        stmt = pm[stmt]
    # names: sequence bounds are the two values read from chrom_lengths[l], chrom_lengths[l+1]
    role = "every read X[start+i+j] stays inside the current sequence [start, end)"

    def bounds(st):
        s = st.env.get("start")
        e = st.env.get("end")
        return s, e

    def mk(st):
        s, e = bounds(st)
        idx = ai.lin(st, rd.slice)
        if s is None or e is None or idx is None:
            return None
        return [("index >= sequence start", idx - s), ("index <= sequence end - 1", e - idx - 1)]
    out.append(decide_states(ai, fi, stmt, mk, "R-WIN", role))

    # coverage: number of window starts == (end - start) - n + 1 whenever that is positive
    role = "the last fitting start L-w is visited (loop count == L - w + 1)"
    it = win_loop.iter
    if not (isinstance(it, ast.Call) and dotted(it.func) in ("range", "numba.prange") and len(it.args) == 1):
        out.append(unrecognised("R-WIN", fi, role, "window loop header `%s`" % unparse(it), win_loop))
    else:
        sts = ai.states_at(win_loop)
        verdict = None
        for st in sts:
            alts = ai.lin_alts(st, it.args[0])
            s, e = bounds(st)
            w = st.env.get("n")
            if alts is None or s is None or e is None or w is None:
                verdict = unrecognised("R-WIN", fi, role, "loop count `%s` not linear" % unparse(it.args[0]), win_loop)
                break
            for cnt, cons in alts:
                G = list(st.G) + [c for c in cons if not c.is_const()]
                # assume at least one window fits: e - s - w >= 0 ; then cnt >= e - s - w + 1
                G2 = G + [e - s - w]
                v, model = decide(G2, cnt - (e - s - w + 1))
                if v == "REFUTED":
                    verdict = violation("R-WIN", fi, role,
                                        "loop count %r is smaller than L - w + 1 = %r for some lengths: the window starting at L-w is skipped" % (
                                            cnt, e - s - w + 1), win_loop, witness={"assignment": {k: v_ for k, v_ in model.items()}})
                    break
                # no phantom window when the sequence is shorter than the motif: cnt <= max(0, e-s-w+1)
                G3 = G + [w - (e - s) - 1]     # e - s < w
                v2, model2 = decide(G3, -cnt)
                if v2 == "REFUTED":
                    verdict = violation("R-WIN", fi, role,
                                        "for a sequence shorter than the motif the loop still runs %r time(s): a window that does not exist is scored "
                                        "(it reads into the next sequence)" % cnt, win_loop, witness={"assignment": model2})
                    break
                v3, model3 = decide(G2, (e - s - w + 1) - cnt)
                if v3 == "REFUTED":
                    verdict = violation("R-WIN", fi, role, "loop count %r exceeds L - w + 1: windows beyond the sequence end are scored" % cnt,
                                        win_loop, witness={"assignment": model3})
                    break
            if verdict:
                break
        out.append(verdict or holds("R-WIN", fi, role, "count == (end - start) - n + 1 on every path, no window for shorter sequences", win_loop))
    # column loop covers the whole motif
    role = "each window sums all w motif columns"
    ok = isinstance(col_loop.iter, ast.Call) and unparse(col_loop.iter) in ("range(n)",)
    out.append((holds if ok else violation)("R-WIN", fi, role, unparse(col_loop.iter), col_loop, nontrivial=False))
    # motif width
    role = "motif width is pwm_lengths[k+1] - pwm_lengths[k]"
    nd = [s for s in walk_no_nested(fi.node) if isinstance(s, ast.Assign) and unparse(s.targets[0]) == "n"]
    ok = bool(nd) and unparse(nd[0].value) == "pwm_lengths[k + 1] - pwm_lengths[k]"
    out.append((holds if ok else unrecognised)("R-WIN", fi, role, unparse(nd[0].value) if nd else "?", nd[0] if nd else fi.node, nontrivial=False))
    # sequence bounds
    role = "sequence l spans chrom_lengths[l] .. chrom_lengths[l+1]"
    sd = {unparse(s.targets[0]): unparse(s.value) for s in walk_no_nested(seq_loop) if isinstance(s, ast.Assign)}
    ok = sd.get("start") in ("numpy.uint64(chrom_lengths[l])", "chrom_lengths[l]") and \
        sd.get("end") in ("numpy.uint64(chrom_lengths[l + 1])", "chrom_lengths[l + 1]")
    out.append((holds if ok else unrecognised)("R-WIN", fi, role, "start=%s end=%s" % (sd.get("start"), sd.get("end")), seq_loop, nontrivial=False))
    return out


def field_rules(repo):
    fi = repo.func(F + "._fast_hits")
    out = []
    apps = [n for n in walk_no_nested(fi.node) if isinstance(n, ast.Call) and isinstance(n.func, ast.Attribute)
            and n.func.attr == "append" and n.args and isinstance(n.args[0], ast.Tuple) and len(n.args[0].elts) == 5]
    role = "hit tuple is (sequence index, start i, end i+n, score, 2**table[bin])"
    if len(apps) != 1:
        return [unrecognised("FIELDS", fi, role, "hit append not found")]
    a = apps[0]
    t = [unparse(x) for x in a.args[0].elts]
    exp = [{"numpy.int64(l)", "l"}, {"i"}, {"i + n"}, {"score"}, {"2.0 ** score_to_pvals[score_idx]", "2 ** score_to_pvals[score_idx]"}]
    names = ["sequence index", "start", "end", "score", "p-value"]
    bad = [k for k in range(5) if t[k] not in exp[k]]
    if bad:
        k = bad[0]
        known_wrong = {1: {"i + 1", "i - 1", "start + i"}, 2: {"i + n - 1", "i + n + 1", "i"}, 0: {"k"}}
        if t[k] in known_wrong.get(k, set()) or k in (1, 2, 0, 3):
            out.append(violation("FIELDS", fi, role, "%s field is `%s`" % (names[k], t[k]), a))
        else:
            out.append(unrecognised("FIELDS", fi, role, "%s field is `%s`" % (names[k], t[k]), a))
    else:
        out.append(holds("FIELDS", fi, role, "(%s)" % ", ".join(t), a))
    pm = parent_map(fi.node)
    g = a
    while g in pm and not isinstance(g, ast.If):
        g = pm[g]
    role = "a hit is recorded exactly when score > threshold of that motif"
    if not isinstance(g, ast.If):
        out.append(violation("FIELDS", fi, role, "hit append is unconditional", a))
    else:
        tt = unparse(g.test)
        if tt in ("score > thresh", "thresh < score"):
            th = [s for s in walk_no_nested(fi.node) if isinstance(s, ast.Assign) and unparse(s.targets[0]) == "thresh"]
            ok = bool(th) and unparse(th[0].value) == "score_threshold[k]"
            out.append((holds if ok else violation)("FIELDS", fi, role, "%s with thresh = %s" % (tt, unparse(th[0].value) if th else "?"), g))
        elif tt in ("score >= thresh", "thresh <= score"):
            out.append(violation("FIELDS", fi, role, "`%s` also reports windows exactly at the threshold" % tt, g))
        else:
            out.append(unrecognised("FIELDS", fi, role, "guard `%s`" % tt, g))
    role = "p-value bin = int(score / bin_size) - smallest[k] + offset of motif k in the concatenated table"
    from ..rules import block_value_rule
    out.append(block_value_rule(fi, g.body if isinstance(g, ast.If) else [], "score_idx", "int(score / bin_size) - smallest[k] + score_to_pval_lengths[k]",
                                "FIELDS", role, a))
    role = "score accumulates pwm[character, motif offset + column]"
    sc = [unparse(s) for s in walk_no_nested(fi.node) if isinstance(s, ast.AugAssign) and unparse(s.target) == "score"]
    mi = [unparse(s.value) for s in walk_no_nested(fi.node) if isinstance(s, ast.Assign) and unparse(s.targets[0]) == "m_idx"]
    ok = sc == ["score += pwm[idx, m_idx]"] and mi == ["numpy.uint64(j + pwm_lengths[k])"]
    out.append((holds if ok else unrecognised)("FIELDS", fi, role, "; ".join(sc + mi), a, nontrivial=False))
    return out


def threshold_value_rule(f, role):
    """per motif i: thresholds[i] == (idx[0] + smallest[i]) * bin_size when some bin qualifies (len(idx) >= 1), +inf otherwise - whether the
    +inf comes from an else-arm or from the array's initial fill"""
    from ..terms import TermEval, compare, canon
    from ..rules import inline_locals
    from ..affine import Lin, ge, le, _infeasible
    loops = [n for n in f.node.body if isinstance(n, ast.For) and any(isinstance(x, ast.Subscript) and isinstance(x.ctx, ast.Store) and
             unparse(x.value) == "_score_thresholds" for x in ast.walk(n))]
    if len(loops) != 1 or not isinstance(loops[0].target, ast.Name):
        return unrecognised("THRESH", f, role, "threshold loop not found")
    loop = loops[0]
    iv = loop.target.id
    lt = [unparse(s.value) for s in f.node.body if isinstance(s, ast.Assign) and unparse(s.targets[0]) == "log_threshold"]
    if lt != ["math.log2(threshold)"]:
        return unrecognised("THRESH", f, role, "log_threshold = %s" % lt, loop)
    idxd = [s for s in walk_no_nested(loop) if isinstance(s, ast.Assign) and unparse(s.targets[0]) == "idx"]
    if len(idxd) != 1:
        return unrecognised("THRESH", f, role, "definition of the qualifying-bin vector `idx` not found", loop)
    it = unparse(idxd[0].value)
    if it not in ("numpy.where(_score_to_pvals[%s] < log_threshold)[0]" % iv, "numpy.nonzero(_score_to_pvals[%s] < log_threshold)[0]" % iv,
                  "numpy.flatnonzero(_score_to_pvals[%s] < log_threshold)" % iv):
        if "<= log_threshold" in it:
            return violation("THRESH", f, role, "bins with p-value equal to the threshold qualify: `%s`" % it, idxd[0])
        if "> log_threshold" in it or ">= log_threshold" in it:
            return violation("THRESH", f, role, "qualifying bins are those ABOVE the p-value threshold: `%s`" % it, idxd[0])
        return unrecognised("THRESH", f, role, "idx = %s" % it, idxd[0])
    ai = AbsInt(f)
    n_ = Lin.atom("len(idx)")
    stores = [s for s in walk_no_nested(loop) if isinstance(s, ast.Assign) and isinstance(s.targets[0], ast.Subscript)
              and unparse(s.targets[0]) == "_score_thresholds[%s]" % iv]
    exp = TermEval().ev(ast.parse("(idx[0] + _smallest[%s]) * bin_size" % iv, mode="eval").body)
    val_stores, inf_stores = [], []
    for s_ in stores:
        v = inline_locals(f, s_.value)
        tv = unparse(v)
        if tv in ("float('inf')", "numpy.inf", "math.inf", "float('Inf')", "numpy.float64('inf')"):
            inf_stores.append(s_)
            continue
        if "idx[-1]" in tv:
            return violation("THRESH", f, role, "threshold uses the last instead of the first qualifying bin: `%s`" % tv, s_)
        got = TermEval().ev(v)
        res = compare(got, exp, TermEval())
        if res == "DIFFERENT":
            return violation("THRESH", f, role, "threshold value is `%s`, expected (idx[0] + _smallest[%s]) * bin_size" % (tv, iv), s_,
                             witness={"got": canon(got)[:160], "expected": canon(exp)[:160]})
        if res != "EQUAL":
            return unrecognised("THRESH", f, role, "threshold value `%s`" % tv, s_)
        val_stores.append(s_)
    if not val_stores:
        return unrecognised("THRESH", f, role, "no store of the threshold value found", loop)

    def lens(st):
        for k_ in (st.G,):
            pass
        return st
    # the value store happens only with len(idx) >= 1, and on every path with len(idx) >= 1
    for s_ in val_stores:
        sts = ai.states_at(s_)
        if not sts:
            return unrecognised("THRESH", f, role, "value store unreachable for the analysis", s_)
        for st in sts:
            L = ai.lin(st.copy(), ast.parse("len(idx)", mode="eval").body)
            if L is None or not _infeasible(list(st.G) + [le(L, 0)]):
                return violation("THRESH", f, role, "`%s` is reached with an empty `idx` (idx[0] does not exist / no bin qualifies)" % unparse(s_)[:60], s_)
    # paths that skip the value store with len(idx) >= 1
    exits = [n for n in walk_no_nested(loop) if isinstance(n, (ast.Continue, ast.Break))]
    first = min(val_stores, key=lambda x: x.lineno)
    for e in exits:
        if e.lineno > first.lineno:
            continue
        for st in ai.states_at(e):
            L = ai.lin(st.copy(), ast.parse("len(idx)", mode="eval").body)
            if L is None or not _infeasible(list(st.G) + [ge(L, 1)]):
                return violation("THRESH", f, role, "a `%s` skips the threshold store although a bin qualifies" % type(e).__name__.lower(), e)
    # +inf when nothing qualifies: an explicit store under len(idx) <= 0, or the allocation's fill value
    al = [s_ for s_ in f.node.body if isinstance(s_, ast.Assign) and unparse(s_.targets[0]) == "_score_thresholds"]
    at = unparse(al[0].value) if al else ""
    filled = any(at.startswith(p) for p in ("numpy.full(n_motifs, float('inf')", "numpy.full(n_motifs, numpy.inf", "numpy.full(n_motifs, math.inf")) or \
        "numpy.inf * numpy.ones(" in at or "numpy.ones(n_motifs" in at and "* numpy.inf" in at
    if inf_stores:
        for s_ in inf_stores:
            for st in ai.states_at(s_):
                L = ai.lin(st.copy(), ast.parse("len(idx)", mode="eval").body)
                if L is None or not _infeasible(list(st.G) + [ge(L, 1)]):
                    return violation("THRESH", f, role, "the +inf store is reached although a bin qualifies", s_)
        return holds("THRESH", f, role, "value under len(idx) >= 1, +inf otherwise (explicit store)", loop)
    if filled:
        return holds("THRESH", f, role, "value under len(idx) >= 1; array pre-filled with +inf (`%s`)" % at[:60], loop)
    return violation("THRESH", f, role, "a motif without a qualifying bin keeps an uninitialised / non-infinite threshold (`%s`, no +inf store)" % at[:60], al[0] if al else loop)


def sentinel_rules(repo):
    out = []
    k = repo.func(F + "._fast_hits")
    f = repo.func(F + ".fimo")
    role = "unknown characters are encoded -1 by both input paths and skipped by the kernel"
    skip = [n for n in walk_no_nested(k.node) if isinstance(n, ast.If) and unparse(n.test) in ("idx == -1", "idx < 0", "-1 == idx")
            and any(isinstance(b, ast.Continue) for b in n.body)]
    w1 = [s for s in walk_no_nested(f.node) if isinstance(s, ast.Assign) and unparse(s.targets[0]) == "one_hot_mapping"]
    w2 = [s for s in walk_no_nested(f.node) if isinstance(s, ast.Assign) and unparse(s.targets[0]) == "X" and "argmax" in unparse(s.value)]
    t1 = unparse(w1[0].value) if w1 else ""
    t2 = unparse(w2[0].value) if w2 else ""
    ok1 = t1 in ("numpy.zeros(256, dtype=numpy.int8) - 1", "numpy.full(256, -1, dtype=numpy.int8)")
    ok2 = t2 == "(sequences.argmax(axis=1) + 1) * sequences.sum(axis=1) - 1"
    if not skip:
        out.append(violation("R-TABLE", k, role, "the kernel does not skip the -1 sentinel", k.node))
    elif not ok1 and w1 and ("- 2" in t1 or t1 == "numpy.zeros(256, dtype=numpy.int8)"):
        out.append(violation("R-TABLE", f, role, "FASTA byte table default is `%s`" % t1, w1[0]))
    elif not ok1 or not ok2:
        out.append(unrecognised("R-TABLE", f, role, "writers: `%s` ; `%s`" % (t1, t2)))
    else:
        # the read must precede the use as an index
        body = [s for s in walk_no_nested(k.node) if isinstance(s, ast.stmt)]
        out.append(holds("R-TABLE", f, role, "FASTA: %s | tensor: %s | kernel: %s" % (t1, t2, unparse(skip[0].test)), skip[0]))
    return out


def strand_rules(repo):
    f = repo.func(F + ".fimo")
    out = []
    role = "reverse-complement PWMs (pwm[::-1, ::-1]) are appended after all forward PWMs, in the same order"
    fw = [s for s in f.node.body if isinstance(s, ast.Assign) and unparse(s.targets[0]) == "motifs" and isinstance(s.value, ast.ListComp)]
    rc = [s for s in f.node.body if isinstance(s, ast.If) and unparse(s.test) == "reverse_complement" and
          any("motifs.append" in unparse(x) for x in ast.walk(s))]
    if not fw or not rc:
        out.append(unrecognised("STRAND", f, role, "forward list / rc append not found"))
    else:
        app = [n for n in ast.walk(rc[0]) if isinstance(n, ast.Call) and unparse(n.func) == "motifs.append"]
        t = unparse(app[0].args[0]) if app else ""
        loop = [n for n in rc[0].body if isinstance(n, ast.For)]
        same_iter = bool(loop) and unparse(loop[0].iter) == unparse(fw[0].value.generators[0].iter)
        if f.node.body.index(rc[0]) < f.node.body.index(fw[0]):
            out.append(violation("STRAND", f, role, "rc motifs are added before the forward list is built", rc[0]))
        elif "[::-1, ::-1]" not in t:
            out.append(violation("STRAND", f, role, "rc motif is `%s` (must flip both the alphabet and the position axis)" % t, app[0] if app else rc[0]))
        elif not same_iter:
            out.append(violation("STRAND", f, role, "rc motifs iterate `%s`, forward ones `%s`" % (
                unparse(loop[0].iter) if loop else "?", unparse(fw[0].value.generators[0].iter)), rc[0]))
        else:
            out.append(holds("STRAND", f, role, t, app[0]))
    role = "n_ (number of reported motifs) is half the scanned PWMs iff reverse_complement"
    nd = [s for s in f.node.body if isinstance(s, ast.Assign) and unparse(s.targets[0]) == "n_"]
    ok = bool(nd) and unparse(nd[0].value) == "n_motifs // 2 if reverse_complement else n_motifs"
    out.append((holds if ok else unrecognised)("STRAND", f, role, unparse(nd[0].value) if nd else "?", nd[0] if nd else f.node, nontrivial=False))
    # R-SIB both output modes branch on reverse_complement
    role = "DataFrame mode merges hits[i] + hits[i+n_] with labels '+'*len(hits[i]) + '-'*len(hits[i+n_]) only when reverse_complement"
    dfif = [n for n in walk_no_nested(f.node) if isinstance(n, ast.If) and unparse(n.test) == "reverse_complement" and
            any("DataFrame" in unparse(x) for x in n.body)]
    if not dfif:
        out.append(unrecognised("R-SIB", f, role, "DataFrame branch on reverse_complement not found"))
    else:
        n = dfif[0]
        tb = [unparse(s) for s in n.body]
        te = [unparse(s) for s in n.orelse]
        okb = "hits_ = pandas.DataFrame(hits[i] + hits[i + n_], columns=names)" in tb and \
            "hits_['strand'] = ['+'] * len(hits[i]) + ['-'] * len(hits[i + n_])" in tb
        oke = "hits_ = pandas.DataFrame(hits[i], columns=names)" in te and "hits_['strand'] = ['+'] * len(hits[i])" in te
        if okb and oke:
            out.append(holds("R-SIB", f, role, "both arms present", n))
        elif any("['-'] * len(hits[i])" in t and "['+'] * len(hits[i + n_])" in t for t in tb):
            out.append(violation("R-SIB", f, role, "strand labels are exchanged", n))
        elif any("hits[i + n_] + hits[i]" in t for t in tb) and any("['+'] * len(hits[i]) + ['-']" in t for t in tb):
            out.append(violation("R-SIB", f, role, "rows are merged rc-first but labelled forward-first", n))
        else:
            out.append(unrecognised("R-SIB", f, role, "arms: %s | %s" % (tb, te), n))
    role = "return_counts mode adds the reverse-strand hits only when reverse_complement (sibling of the DataFrame mode)"
    rcif = [n for n in walk_no_nested(f.node) if isinstance(n, ast.If) and "return_counts" in unparse(n.test)]
    if not rcif:
        out.append(unrecognised("R-SIB", f, role, "return_counts branch not found"))
    else:
        n = rcif[0]
        uses = [x for x in ast.walk(n) if isinstance(x, ast.Subscript) and unparse(x) == "hits[i + n_]"]
        pm = parent_map(n)
        unguarded = []
        for u in uses:
            g = u
            ok = False
            while g in pm:
                g = pm[g]
                if isinstance(g, ast.If) and unparse(g.test) == "reverse_complement":
                    ok = True
                if isinstance(g, ast.IfExp) and unparse(g.test) == "reverse_complement":
                    ok = True
            if not ok:
                unguarded.append(u)
        if not uses:
            out.append(violation("R-SIB", f, role, "reverse-strand hits are never counted", n))
        elif unguarded:
            out.append(named("R-SIB", f, role, "`hits[i + n_]` is read without testing reverse_complement (IndexError / wrong motif when False)", unguarded[0]))
        else:
            out.append(holds("R-SIB", f, role, "hits[i + n_] only under `if reverse_complement`", n))
    role = "dim=1 regroups the same hit rows by sequence (no rows added or dropped)"
    d1 = [n for n in walk_no_nested(f.node) if isinstance(n, ast.If) and unparse(n.test) == "dim == 1"]
    tb = [unparse(s) for s in d1[0].body] if d1 else []
    ok = tb[:2] == ["hits = pandas.concat(hits)", "_names = numpy.unique(hits['sequence_name'])"] and len(tb) == 3 and \
        "hits[hits['sequence_name'] == name].reset_index(drop=True) for name in _names" in tb[2]
    out.append((holds if ok else unrecognised)("R-SIB", f, role, "; ".join(tb)[:140], d1[0] if d1 else f.node, nontrivial=False))
    return out


def race_rules(repo):
    out = []
    for q in (F + "._fast_hits", F + "._all_pwm_to_mapping"):
        fi = repo.func(q)
        role = "every store in the prange body to an array/list created outside it is indexed by the prange variable"
        if not (fi.numba and fi.numba.get("parallel")):
            out.append(holds("R-RACE", fi, role, "not compiled parallel", fi.node, nontrivial=False))
            continue
        pr = [n for n in walk_no_nested(fi.node) if isinstance(n, ast.For) and isinstance(n.iter, ast.Call)
              and dotted(n.iter.func) in ("numba.prange", "prange")]
        if len(pr) != 1 or not isinstance(pr[0].target, ast.Name):
            out.append(unrecognised("R-RACE", fi, role, "expected one prange loop"))
            continue
        loop = pr[0]
        pv = loop.target.id
        # names that are re-bound inside the loop from the prange var only (k = numpy.uint64(k)) keep its identity
        inside = set()
        for n in ast.walk(loop):
            if isinstance(n, ast.Name) and isinstance(n.ctx, ast.Store):
                inside.add(n.id)
        same = {pv}
        # v = cast(prange var) / v = prange var, bound exactly once in the loop: another name for the iteration's own index
        for s_ in loop.body:
            if isinstance(s_, ast.Assign) and len(s_.targets) == 1 and isinstance(s_.targets[0], ast.Name):
                v_ = s_.value
                if isinstance(v_, ast.Call) and dotted(v_.func) in ("numpy.uint64", "numpy.int64", "int", "uint64", "int64") and len(v_.args) == 1:
                    v_ = v_.args[0]
                if isinstance(v_, ast.Name) and v_.id in same:
                    nm_ = s_.targets[0].id
                    n_b = sum(1 for x in ast.walk(loop) if isinstance(x, ast.Name) and x.id == nm_ and isinstance(x.ctx, ast.Store))
                    if n_b == 1:
                        same.add(nm_)
        outer = set()
        for s in fi.node.body:
            if s is loop:
                break
            for n in ast.walk(s):
                if isinstance(n, ast.Name) and isinstance(n.ctx, ast.Store):
                    outer.add(n.id)
        outer |= set(fi.params)
        bad = []
        nst = 0
        for n in ast.walk(loop):
            tgt = None
            if isinstance(n, ast.Assign):
                for t in n.targets:
                    if isinstance(t, ast.Subscript):
                        tgt = t
            elif isinstance(n, ast.AugAssign) and isinstance(n.target, ast.Subscript):
                tgt = n.target
            elif isinstance(n, ast.AugAssign) and isinstance(n.target, ast.Name) and n.target.id in outer and n.target.id not in inside - {n.target.id}:
                if n.target.id in outer and not _bound_in_loop_before(loop, n):
                    bad.append((n, "reduction on shared scalar `%s`" % n.target.id))
            elif isinstance(n, ast.Call) and isinstance(n.func, ast.Attribute) and n.func.attr in ("append", "extend") \
                    and isinstance(n.func.value, ast.Subscript):
                tgt = n.func.value
            elif isinstance(n, ast.Call) and isinstance(n.func, ast.Attribute) and n.func.attr in ("append", "extend") \
                    and isinstance(n.func.value, ast.Name) and n.func.value.id in outer and n.func.value.id not in inside:
                bad.append((n, "append to shared list `%s`" % n.func.value.id))
            if tgt is not None:
                base = tgt
                while isinstance(base, ast.Subscript):
                    first = base
                    base = base.value
                if isinstance(base, ast.Name) and base.id in outer and base.id not in inside:
                    nst += 1
                    idx0 = first.slice.elts[0] if isinstance(first.slice, ast.Tuple) else first.slice
                    if not (isinstance(idx0, ast.Name) and idx0.id in same):
                        bad.append((n, "store `%s` into shared `%s` is not indexed by the prange variable `%s`" % (unparse(tgt)[:40], base.id, pv)))
        if bad:
            out.append(violation("R-RACE", fi, role, bad[0][1], bad[0][0]))
        elif nst == 0:
            out.append(unrecognised("R-RACE", fi, role, "no store to shared storage found in the prange body"))
        else:
            out.append(holds("R-RACE", fi, role, "%d store site(s), all indexed by `%s`" % (nst, pv), loop))
    return out


def _bound_in_loop_before(loop, node):
    for n in ast.walk(loop):
        if isinstance(n, ast.Assign) and any(isinstance(t, ast.Name) and t.id == node.target.id for t in n.targets) and n.lineno < node.lineno:
            return True
    return False


def dtype_threshold_rules(repo):
    f = repo.func(F + ".fimo")
    out = []
    role = "score thresholds reach the kernel's comparison in the precision of the scores (float64)"
    al = [s for s in f.node.body if isinstance(s, ast.Assign) and unparse(s.targets[0]) == "_score_thresholds"]
    if not al or not isinstance(al[0].value, ast.Call):
        out.append(unrecognised("R-DTYPE", f, role, "allocation of _score_thresholds not found"))
    else:
        dt = kwarg(al[0].value, "dtype", 1)
        t = unparse(dt) if dt is not None else "float64 (default)"
        narrow = {"numpy.float32", "'float32'", "numpy.float16", "'float16'", "numpy.single", "numpy.half", "'f4'", "'f2'", "numpy.int32", "numpy.int64", "int"}
        wide = {"numpy.float64", "'float64'", "float", "numpy.double", "'f8'", "float64 (default)", "numpy.longdouble"}
        if t in narrow:
            out.append(violation("R-DTYPE", f, role, "thresholds are stored as %s: a float64 score between the float64 threshold and its "
                                 "rounded-up narrow value is not reported" % t, al[0],
                                 witness={"example": "score 3.900000047683716 vs threshold 3.9000000000000004 stored as 3.9000000953674316"}))
        elif t in wide:
            # no later narrowing cast
            casts = [n for n in walk_no_nested(f.node) if isinstance(n, ast.Call) and isinstance(n.func, ast.Attribute)
                     and n.func.attr == "astype" and "_score_thresholds" in unparse(n.func.value)]
            if casts and unparse(casts[0].args[0]) in narrow:
                out.append(violation("R-DTYPE", f, role, "thresholds are narrowed by `%s`" % unparse(casts[0]), casts[0]))
            else:
                out.append(holds("R-DTYPE", f, role, "allocated as %s" % t, al[0]))
        else:
            out.append(unrecognised("R-DTYPE", f, role, "dtype `%s`" % t, al[0]))
    role = "threshold = (first bin whose log p-value is below log2(threshold) + smallest) * bin_size, else +inf"
    out.append(threshold_value_rule(f, role))
    return out


LEVEL_TEXT = ("Window coverage/bounds proved in the linear-constraint domain for every sequence and motif length (including shorter "
              "than the motif), plus structural agreement rules for hit fields, the unknown-character sentinel, strand bookkeeping in "
              "both output modes, prange write-disjointness and threshold precision.")
LEVEL_NOTE = ("Decides: which windows are visited and that reads stay inside the sequence, hit field expressions, sentinel agreement, "
              "rc append/merge/label consistency, return_counts/DataFrame sibling agreement, race freedom, float64 thresholds. NOT "
              "decided (numerical / file semantics): score and p-value values, mirror symmetry, FASTA-vs-tensor equality. Several "
              "clauses compare confirmed spellings: a named deviation is a violation, anything else ANALYSIS-ERROR.")
TECHNIQUE = "abstract interpretation of loop bounds (linear constraints, Fourier-Motzkin) + sibling/structural rules over ast"
