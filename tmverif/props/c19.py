"""C19 - called seqlets are well-formed spans whose reported statistics match the input (structural clauses)."""
import ast
from ..affine import Lin, ge, decide, entails
from ..front import dotted, const_value, unparse, walk_no_nested, parent_map, kwarg
from ..core import holds, violation, unrecognised
from ..flow import AbsInt
from ..rules import decide_states, pure_params, fmt_trace

ID = "C19"
ANCHORS = 'seqlet._recursive_seqlets,seqlet.recursive_seqlets,seqlet.tfmodisco_seqlets,seqlet._iterative_extract_seqlets'.split(",")
MIN_INSTANCES = 12
# rule families whose findings in this module are derived by an engine (not by comparing spellings): exempt from the rewrite gate
SEMANTIC_RULES = {"R-PURE", "R-GUARD"}
EXPLANATION = (
    "R-GUARD (cumulative-sum idiom): every read X_csum[i, e] in seqlet._recursive_seqlets is proved to satisfy 0 <= e <= l-1 "
    "from the loop ranges and guards (no negative index can wrap to the last cumulative sum); the reported attribution is "
    "X_csum[end-1] minus X_csum[start-1] where the subtrahend's index is proved equal to start-1 and start >= 1 on its path "
    "(span starting at 0 subtracts nothing). SPAN: at the append, 0 <= start < end <= l; the append is dominated by "
    "p <= threshold; claimed positions are masked for every length; the table is sorted by p-value. TF-MoDISco: span "
    "(argmax - flank, argmax + window + flank), sum over the central window, edge masking by `flank` guarded by flank > 0 "
    "(R-SLICE0), suppression interval set to -inf. R-PURE for the attribution inputs of both callers."
)
ASSUMPTIONS = ["documented parameter ranges: min_seqlet_len >= 2 (property scope 3-30), additional_flanks >= 0, max_seqlet_len >= min_seqlet_len, l >= 1; argmin() >= 0",
               "length bounds of recursive seqlets and 'spans inside the example' for TF-MoDISco depend on value reasoning about the "
               "p-value matrix / -inf masking: only the structural masking statements are checked"]
S = "seqlet"


def central_window_rule(tf, role):
    """engine version: with end = start + window_size + 2*flank (the spans _iterative_extract_seqlets returns), the summed slice
    X_attr[example, a:b] must be a = start + flank, b = a + window_size for every window size and flank (floor-division axioms).
    -> Result, or None when the statement shapes are outside what the linear engine can read (the spelling rule then decides)"""
    import copy
    from ..rules import inline_locals
    from ..affine import decide, Lin, ge, le
    loops = [n for n in walk_no_nested(tf.node) if isinstance(n, ast.For) and isinstance(n.target, ast.Tuple) and len(n.target.elts) == 3
             and unparse(n.iter) == "seqlets"]
    if len(loops) != 1:
        return None
    lp = loops[0]
    names = [e.id for e in lp.target.elts if isinstance(e, ast.Name)]
    if len(names) != 3:
        return None
    _, sv, ev = names
    sums = [n for n in walk_no_nested(lp) if isinstance(n, ast.Subscript) and unparse(n.value) == "X_attr" and isinstance(n.slice, ast.Tuple)
            and len(n.slice.elts) == 2 and isinstance(n.slice.elts[1], ast.Slice)]
    if len(sums) != 1 or sums[0].slice.elts[1].lower is None or sums[0].slice.elts[1].upper is None:
        return None
    sl = sums[0].slice.elts[1]

    class _Half(ast.NodeTransformer):
        # int(0.5 * E) == E // 2 for E >= 0
        def visit_Call(self, n):
            self.generic_visit(n)
            if isinstance(n.func, ast.Name) and n.func.id == "int" and len(n.args) == 1 and isinstance(n.args[0], ast.BinOp) \
                    and isinstance(n.args[0].op, ast.Mult):
                a, b = n.args[0].left, n.args[0].right
                if const_value(a) == 0.5:
                    return ast.BinOp(left=b, op=ast.FloorDiv(), right=ast.Constant(value=2))
                if const_value(b) == 0.5:
                    return ast.BinOp(left=a, op=ast.FloorDiv(), right=ast.Constant(value=2))
            return n

    def expand(e, depth=4):
        e = copy.deepcopy(e)
        for _ in range(depth):
            class _I(ast.NodeTransformer):
                def visit_Name(self, n):
                    if n.id in (sv, ev) or n.id in tf.params:
                        return n
                    d = _local_def(tf, lp, n.id)
                    return copy.deepcopy(d) if d is not None else n
            e = _I().visit(e)
        return ast.fix_missing_locations(_Half().visit(e))
    lo_e, hi_e = expand(sl.lower), expand(sl.upper)
    ai = AbsInt(tf, int_params={"window_size", "flank"}, nonneg_params=("flank",))
    anchor = [s_ for s_ in lp.body if any(x is sums[0] for x in ast.walk(s_))]
    sts = ai.states_at(anchor[0]) if anchor else []
    if not sts:
        return None
    verdicts = []
    for st in sts:
        st = st.copy()
        S, E = ai.lin(st, ast.Name(id=sv, ctx=ast.Load())), ai.lin(st, ast.Name(id=ev, ctx=ast.Load()))
        lo, hi = ai.lin(st, lo_e), ai.lin(st, hi_e)
        if None in (S, E, lo, hi):
            return None
        W, F_ = Lin.atom("window_size"), Lin.atom("flank")
        G = list(st.G) + list(ai.axioms) + [ge(E - S, W + F_ + F_), le(E - S, W + F_ + F_), ge(W, 1), ge(F_, 0)]
        for label, obl in (("window starts at start + flank", lo - (S + F_)), ("window starts at start + flank (<=)", (S + F_) - lo),
                           ("window is window_size wide", (hi - lo) - W), ("window is window_size wide (<=)", W - (hi - lo))):
            r = decide(G, obl)
            verdicts.append((label, r[0], r[1] if len(r) > 1 else None))
    bad = [v for v in verdicts if v[1] == "REFUTED"]
    unk = [v for v in verdicts if v[1] not in ("PROVED", "REFUTED", "BOUNDED")]
    n_b = sum(1 for v in verdicts if v[1] == "BOUNDED")
    if bad:
        w = {k: v for k, v in (bad[0][2] or {}).items() if k in ("window_size", "flank") or "//" in k} if isinstance(bad[0][2], dict) else {}
        return violation("TFM", tf, role, "`X_attr[.., %s:%s]` is not the central window for every window size: %s fails, e.g. %s" % (
            unparse(sl.lower), unparse(sl.upper), bad[0][0], w), sums[0], semantic=True, witness={"assignment": w})
    if unk:
        return None
    return holds("TFM", tf, role, "slice [%s, %s) == [start + flank, start + flank + window_size) for every window_size, flank (%d obligations proved, %d model-free in scope [-3, 8])" % (
        unparse(sl.lower), unparse(sl.upper), len(verdicts) - n_b, n_b), sums[0])


def _local_def(tf, lp, name):
    """the single definition of a local inside the seqlet loop or the function body (None when rebound)"""
    defs = []
    for s_ in walk_no_nested(tf.node):
        if isinstance(s_, ast.Assign):
            for t in s_.targets:
                if isinstance(t, ast.Name) and t.id == name:
                    defs.append(s_.value)
                elif isinstance(t, ast.Tuple) and isinstance(s_.value, ast.Tuple) and len(t.elts) == len(s_.value.elts):
                    for a, b in zip(t.elts, s_.value.elts):
                        if isinstance(a, ast.Name) and a.id == name:
                            defs.append(b)
        elif isinstance(s_, ast.AugAssign) and isinstance(s_.target, ast.Name) and s_.target.id == name:
            return None
    return defs[0] if len(defs) == 1 else None


def run(repo, tier):
    out = []
    out += recursive_rules(repo)
    out += tfmodisco_rules(repo)
    out += pure_params(repo, repo.func(S + ".recursive_seqlets"), ["X"])
    out += pure_params(repo, repo.func(S + "._recursive_seqlets"), ["X"])
    out += pure_params(repo, repo.func(S + ".tfmodisco_seqlets"), ["X_attr"])
    return out


def recursive_rules(repo):
    fi = repo.func(S + "._recursive_seqlets")
    out = []
    ai = AbsInt(fi, int_params={"min_seqlet_len", "max_seqlet_len", "additional_flanks"},
                nonneg_params=("additional_flanks",), ranks={"X": 2})
    # documented ranges
    base = [ge(Lin.atom("min_seqlet_len"), 2), ge(Lin.atom("X.shape[-1]"), 1), ge(Lin.atom("max_seqlet_len"), Lin.atom("min_seqlet_len"))]
    # the p-value matrix has one column per position: argmin over one of its rows is < l (confirmed from its allocation)
    pv = [s_ for s_ in walk_no_nested(fi.node) if isinstance(s_, ast.Assign) and unparse(s_.targets[0]) == "p_value"]
    global _PV_COLS_L
    _PV_COLS_L = bool(pv) and unparse(pv[0].value).startswith("numpy.ones((max_seqlet_len + 1, l)")

    pm = parent_map(fi.node)
    reads = [n for n in walk_no_nested(fi.node) if isinstance(n, ast.Subscript) and isinstance(n.value, ast.Name)
             and n.value.id == "X_csum" and isinstance(n.ctx, ast.Load)]
    if len(reads) < 6:
        out.append(unrecognised("R-GUARD", fi, "reads of the cumulative sum", "expected >= 6 reads of X_csum, found %d" % len(reads)))
    for k, rd in enumerate(reads):
        stmt = rd
        while not isinstance(stmt, ast.stmt):
            stmt = pm[stmt]
        idx = rd.slice.elts if isinstance(rd.slice, ast.Tuple) else [rd.slice]
        if len(idx) != 2:
            continue
        role = "read #%d of the cumulative sum `%s`: position index within [0, l-1]" % (k, unparse(rd))

        def mk(st, idx=idx):
            for b in base:
                st.add(b)
            _argmin_axioms(st)
            e = ai.lin(st, idx[1])
            L = Lin.atom("X.shape[-1]")
            if e is None:
                return None
            return [("index >= 0 (a negative index wraps to the end)", e), ("index <= l - 1", L - e - 1)]
        out.append(decide_states(ai, fi, stmt, mk, "R-GUARD", role))

    # construction of the cumulative sum
    role = "X_csum[i, j] is the inclusive prefix sum of example i (csum[i,0] = X[i,0]; csum[i,j] = csum[i,j-1] + X[i,j] for all i, 1 <= j < l)"
    outer = [n_ for n_ in fi.node.body if isinstance(n_, ast.For) and any(isinstance(x, ast.Assign) and unparse(x.targets[0]).startswith("X_csum[") for x in ast.walk(n_))]
    if not outer:
        out.append(unrecognised("CSUM", fi, role, "construction loop not found"))
    else:
        o = outer[0]
        body = [unparse(x) for x in o.body]
        inner = [x for x in o.body if isinstance(x, ast.For)]
        iv = o.target.id if isinstance(o.target, ast.Name) else "?"
        ok = unparse(o.iter) == "range(n)" and body[:1] == ["X_csum[%s, 0] = X[%s, 0]" % (iv, iv)] and len(inner) == 1 and \
            unparse(inner[0].iter) == "range(1, l)" and [unparse(x) for x in inner[0].body] == [
                "X_csum[%s, %s] = X_csum[%s, %s - 1] + X[%s, %s]" % (iv, inner[0].target.id, iv, inner[0].target.id, iv, inner[0].target.id)]
        alt = len(inner) == 1 and [unparse(x) for x in inner[0].body] == [
            "X_csum[%s, %s] = X[%s, %s] + X_csum[%s, %s - 1]" % (iv, inner[0].target.id, iv, inner[0].target.id, iv, inner[0].target.id)]
        if ok or (alt and unparse(o.iter) == "range(n)" and unparse(inner[0].iter) == "range(1, l)"):
            out.append(holds("CSUM", fi, role, "; ".join(body[:1] + [unparse(x) for x in inner[0].body]), o))
        elif inner and unparse(inner[0].iter) != "range(1, l)":
            out.append(violation("CSUM", fi, role, "prefix sums are built over `%s`, not range(1, l)" % unparse(inner[0].iter), inner[0]))
        elif unparse(o.iter) != "range(n)":
            out.append(violation("CSUM", fi, role, "prefix sums are built for `%s`, not every example" % unparse(o.iter), o))
        elif inner and any(" - X[" in unparse(x) or "X_csum[%s, %s]" % (iv, inner[0].target.id) in unparse(x.value) for x in inner[0].body if isinstance(x, ast.Assign)):
            out.append(violation("CSUM", fi, role, "recurrence is `%s`" % unparse(inner[0].body[0]), inner[0]))
        else:
            out.append(unrecognised("CSUM", fi, role, "; ".join(body)[:160], o))

    # the reported attribution
    role = "reported attribution = csum[end-1] - (csum[start-1] if start >= 1 else 0)"
    app = [n for n in walk_no_nested(fi.node) if isinstance(n, ast.Call) and unparse(n.func) == "seqlets.append"]
    if len(app) != 1 or not isinstance(app[0].args[0], ast.Tuple) or len(app[0].args[0].elts) != 5:
        out.append(unrecognised("CSUM", fi, role, "seqlets.append((i, start, end, attr, p)) not found"))
        return out
    ap = app[0]
    fields = [unparse(x) for x in ap.args[0].elts]
    apstmt = ap
    while not isinstance(apstmt, ast.stmt):
        apstmt = pm[apstmt]
    blk = pm[apstmt]
    body = blk.orelse if apstmt in getattr(blk, "orelse", []) else blk.body
    attr_name = fields[3]
    defs = [s for s in body if (isinstance(s, ast.Assign) and unparse(s.targets[0]) == attr_name)]
    minuend = None
    subtr = []   # (stmt, subscript)
    if defs:
        v = defs[0].value
        if isinstance(v, ast.BinOp) and isinstance(v.op, ast.Sub):
            minuend = v.left
            subtr.append((defs[0], v.right))
        else:
            minuend = v
    other = []
    for s in body:
        for n in ast.walk(s):
            if n is (defs[0] if defs else None):
                continue
            if isinstance(n, ast.AugAssign) and unparse(n.target) == attr_name:
                if isinstance(n.op, ast.Sub):
                    subtr.append((n, n.value))
                else:
                    other.append(n)
            elif isinstance(n, ast.Assign) and unparse(n.targets[0]) == attr_name:
                v = n.value
                if isinstance(v, ast.BinOp) and isinstance(v.op, ast.Sub) and unparse(v.left) == attr_name:
                    subtr.append((n, v.right))
                else:
                    other.append(n)
    if other:
        out.append(unrecognised("CSUM", fi, role, "attribution is also modified by `%s`" % unparse(other[0])[:60], other[0]))
        return out
    if minuend is None or unparse(minuend) != "X_csum[i, end - 1]":
        out.append(violation("CSUM", fi, role, "minuend is `%s`, expected X_csum[i, end - 1]" % (unparse(minuend) if minuend is not None else "?"), defs[0] if defs else ap))
    elif not subtr:
        out.append(violation("CSUM", fi, role, "nothing is subtracted: the sum would start at position 0 for every span", defs[0]))
    else:
        verdict = None
        for stmt, sub in subtr:
            if not (isinstance(sub, ast.Subscript) and unparse(sub.value) == "X_csum"):
                verdict = unrecognised("CSUM", fi, role, "subtrahend `%s`" % unparse(sub), stmt)
                break
            sidx = sub.slice.elts[1] if isinstance(sub.slice, ast.Tuple) and len(sub.slice.elts) == 2 else None
            sts = ai.states_at(stmt)
            if sidx is None or not sts:
                verdict = unrecognised("CSUM", fi, role, "subtrahend index", stmt)
                break
            for st in sts:
                st = st.copy()
                for b in base:
                    st.add(b)
                _argmin_axioms(st)
                alts = ai.lin_alts(st, sidx)
                sv = st.env.get("start")
                if alts is None or sv is None:
                    verdict = unrecognised("CSUM", fi, role, "index not linear", stmt)
                    break
                for e, cons in alts:
                    G = list(st.G) + [c for c in cons if not c.is_const()]
                    infeasible = any(c.is_const() and c.c < 0 for c in cons)
                    if infeasible:
                        continue
                    for label, ob in (("index == start - 1", e - (sv - 1)), ("index == start - 1'", (sv - 1) - e), ("start >= 1 on this path", sv - 1)):
                        v, model = decide(G, ob)
                        if v == "REFUTED":
                            verdict = violation("CSUM", fi, role,
                                                "subtrahend X_csum[i, %s]: `%s` fails on path %s - with start == 0 the span sum must subtract nothing, "
                                                "not X_csum[i, 0] or X_csum[i, -1]" % (unparse(sidx), label, fmt_trace(st.trace)), stmt,
                                                semantic=True, witness={"assignment": {k: x for k, x in sorted(model.items()) if "start" in k or "flank" in k}})
                            break
                    if verdict:
                        break
                if verdict:
                    break
            if verdict:
                break
        # when the subtraction is conditional, the other arm must leave attr == csum[end-1]: fine by construction
        out.append(verdict or holds("CSUM", fi, role, "%d subtrahend site(s): index == start-1 and start >= 1 proved on every path" % len(subtr), subtr[0][0]))

    # span well-formedness at the append
    role = "appended span satisfies 0 <= start < end <= l"

    def mk(st):
        for b in base:
            st.add(b)
        _argmin_axioms(st)
        # the span is whatever stands in positions 1 and 2 of the appended tuple (not the locals that happen to be called start / end)
        tup = ap.args[0] if getattr(ap, "args", None) and isinstance(ap.args[0], ast.Tuple) and len(ap.args[0].elts) >= 3 else None
        if tup is not None:
            s_, e_ = ai.lin(st, tup.elts[1]), ai.lin(st, tup.elts[2])
        else:
            s_, e_ = st.env.get("start"), st.env.get("end")
        L = Lin.atom("X.shape[-1]")
        if s_ is None or e_ is None:
            return None
        return [("start >= 0", s_), ("end <= l", L - e_), ("start < end", e_ - s_ - 1)]
    out.append(decide_states(ai, fi, apstmt, mk, "SPAN", role))
    role = "fields are (example i, start, end, attribution, p-value)"
    ok = fields[:3] == ["i", "start", "end"] and fields[4] == "p"
    out.append((holds if ok else violation)("SPAN", fi, role, "(%s)" % ", ".join(fields), ap, nontrivial=False))

    # threshold dominance
    role = "a seqlet is appended only when its p-value is not above the threshold"
    thr = None
    n = apstmt
    loop = None
    while n in pm:
        n = pm[n]
        if isinstance(n, ast.While):
            loop = n
            break
    if loop is None:
        out.append(unrecognised("SPAN", fi, role, "enclosing while loop not found"))
    else:
        brk = [s for s in loop.body if isinstance(s, ast.If) and unparse(s.test) in ("p > threshold", "threshold < p", "p >= threshold")
               and any(isinstance(b, ast.Break) for b in s.body)]
        pdef = [s for s in loop.body if isinstance(s, ast.Assign) and unparse(s.targets[0]) == "p"]
        if not brk:
            out.append(violation("SPAN", fi, role, "no `if p > threshold: break` before the append", loop))
        elif not pdef or unparse(pdef[0].value) != "p_value[j, start]" or loop.body.index(pdef[0]) > loop.body.index(brk[0]):
            out.append(violation("SPAN", fi, role, "p is `%s`" % (unparse(pdef[0].value) if pdef else "?"), pdef[0] if pdef else loop))
        elif loop.body.index(brk[0]) > [i for i, s in enumerate(loop.body) if any(x is apstmt for x in ast.walk(s))][0]:
            out.append(violation("SPAN", fi, role, "the threshold test comes after the append", brk[0]))
        else:
            out.append(holds("SPAN", fi, role, unparse(brk[0].test), brk[0]))
    # masking of claimed positions
    role = "claimed positions [start, end) are masked for every length row"
    mk_loops = [l for l in body if isinstance(l, ast.For)]
    t = unparse(mk_loops[-1]) if mk_loops else ""
    ok = bool(mk_loops) and unparse(mk_loops[-1].iter) == "range(max_seqlet_len + 1)" and \
        len(mk_loops[-1].body) == 1 and isinstance(mk_loops[-1].body[0], ast.For) and \
        unparse(mk_loops[-1].body[0].iter) == "range(start, end)" and \
        unparse(mk_loops[-1].body[0].body[0]) == "p_value[%s, %s] = 1" % (mk_loops[-1].target.id, mk_loops[-1].body[0].target.id)
    if ok:
        out.append(holds("SPAN", fi, role, "p_value[n, s] = 1 for n in range(max_seqlet_len+1), s in range(start, end)", mk_loops[-1]))
    elif mk_loops and "range(start, end)" not in t:
        out.append(violation("SPAN", fi, role, "masking does not cover range(start, end): %s" % t[:80], mk_loops[-1]))
    else:
        out.append(unrecognised("SPAN", fi, role, t[:100]))
    # sorted output
    w = repo_func_sorted(fi)
    return out


_PV_COLS_L = False


def _argmin_axioms(st):
    # results of .argmin() are non-negative indices below the extent of the reduced axis
    atoms = {a for g in st.G for a in g.atoms()}
    for lin in st.env.values():
        atoms |= lin.atoms()
    for a in atoms:
        if "argmin()" in a or "argmax()" in a:
            st.add(ge(Lin.atom(a), 0))
            if _PV_COLS_L and a.startswith("p_value"):
                st.add(ge(Lin.atom("X.shape[-1]") - 1, Lin.atom(a)))


def repo_func_sorted(fi):
    return None


def tfmodisco_rules(repo):
    out = []
    w = repo.func(S + ".recursive_seqlets")
    role = "the table is sorted by ascending p-value with a fresh index"
    ret = [s for s in walk_no_nested(w.node) if isinstance(s, ast.Return)]
    t = unparse(ret[-1].value) if ret else ""
    if t in ("seqlets.sort_values('p-value').reset_index(drop=True)", "seqlets.sort_values(by='p-value').reset_index(drop=True)",
             "seqlets.sort_values('p-value', ascending=True).reset_index(drop=True)"):
        out.append(holds("SORT", w, role, t, ret[-1]))
    elif "sort_values" not in t:
        out.append(violation("SORT", w, role, "returned table is not sorted: `%s`" % t, ret[-1] if ret else w.node))
    elif "ascending=False" in t or "'attribution'" in t or "'start'" in t:
        out.append(violation("SORT", w, role, "sorted by the wrong key/order: `%s`" % t, ret[-1]))
    else:
        out.append(unrecognised("SORT", w, role, t))
    role = "the kernel receives the caller's parameters in order"
    c = [n for n in walk_no_nested(w.node) if isinstance(n, ast.Call) and dotted(n.func) == "_recursive_seqlets"]
    ok = bool(c) and [unparse(a) for a in c[0].args] == ["X", "threshold", "min_seqlet_len", "max_seqlet_len", "additional_flanks"]
    out.append((holds if ok else violation)("SORT", w, role, unparse(c[0])[:90] if c else "?", c[0] if c else w.node, nontrivial=False))

    it = repo.func(S + "._iterative_extract_seqlets")
    tf = repo.func(S + ".tfmodisco_seqlets")
    role = "TF-MoDISco span is (argmax - flank, argmax + window_size + flank)"
    sq = [s for s in walk_no_nested(it.node) if isinstance(s, ast.Assign) and unparse(s.targets[0]) == "seqlet"]
    t = unparse(sq[0].value) if sq else ""
    if t == "(i, argmax - flank, argmax + window_size + flank)":
        out.append(holds("TFM", it, role, t, sq[0]))
    elif sq and isinstance(sq[0].value, ast.Tuple) and len(sq[0].value.elts) == 3:
        out.append(violation("TFM", it, role, "span is `%s`" % t, sq[0]))
    else:
        out.append(unrecognised("TFM", it, role, t))
    role = "the suppression interval around the arg-max is set to -inf so that no later seqlet starts inside it"
    sup = [s for s in walk_no_nested(it.node) if isinstance(s, ast.Assign) and unparse(s.targets[0]) == "X_sum[i, l_idx:r_idx]"]
    li = [unparse(s.value) for s in walk_no_nested(it.node) if isinstance(s, ast.Assign) and unparse(s.targets[0]) == "l_idx"]
    ri = [unparse(s.value) for s in walk_no_nested(it.node) if isinstance(s, ast.Assign) and unparse(s.targets[0]) == "r_idx"]
    ok = bool(sup) and unparse(sup[0].value) == "-numpy.inf" and li == ["int(max(numpy.floor(argmax + 0.5 - suppress), 0))"] and \
        ri == ["int(min(numpy.ceil(argmax + 0.5 + suppress), d))"]
    if ok:
        out.append(holds("TFM", it, role, "X_sum[i, l_idx:r_idx] = -inf", sup[0]))
    elif not sup:
        out.append(violation("TFM", it, role, "no suppression store", it.node))
    else:
        out.append(unrecognised("TFM", it, role, "l_idx=%s r_idx=%s" % (li, ri), sup[0]))
    role = "window sums closer than `flank` to either edge are masked (guarded by flank > 0: `-0:` would select everything)"
    g = [n for n in walk_no_nested(tf.node) if isinstance(n, ast.If) and unparse(n.test) in ("flank > 0", "flank >= 1", "flank")]
    edge = [s for s in walk_no_nested(tf.node) if isinstance(s, ast.Assign) and unparse(s.targets[0]) in ("X_sum[:, :flank]", "X_sum[:, -flank:]")]
    if len(edge) != 2:
        out.append(violation("R-SLICE0", tf, role, "edge masking stores found: %s" % [unparse(e.targets[0]) for e in edge], tf.node))
    elif not g or not all(any(x is e for x in ast.walk(g[0])) for e in edge):
        out.append(violation("R-SLICE0", tf, role, "`X_sum[:, -flank:] = -inf` is not guarded by flank > 0: with flank == 0 every window is masked", edge[1]))
    elif not all(unparse(e.value) == "-numpy.inf" for e in edge):
        out.append(violation("R-SLICE0", tf, role, "edge windows are not set to -inf", edge[0]))
    else:
        out.append(holds("R-SLICE0", tf, role, "both edges masked under `%s`" % unparse(g[0].test), g[0]))
    role = "reported attribution is the input summed over the central window of the span"
    src = {unparse(s.targets[0]): unparse(s.value) for s in walk_no_nested(tf.node) if isinstance(s, ast.Assign) and len(s.targets) == 1}
    eng = central_window_rule(tf, role)
    if eng is not None:
        out.append(eng)
    else:
        src = {unparse(s.targets[0]): unparse(s.value) for s in walk_no_nested(tf.node) if isinstance(s, ast.Assign) and len(s.targets) == 1}
        ok = src.get("attr_flank") == "int(0.5 * (end - start - window_size))" and \
            (src.get("(attr_start, attr_end)") == "(start + attr_flank, end - attr_flank)" or
             (src.get("attr_start") == "start + attr_flank" and src.get("attr_end") == "end - attr_flank")) and \
            src.get("attr") == "X_attr[example_id, attr_start:attr_end].sum(dim=-1).item()"
        if ok:
            out.append(holds("TFM", tf, role, src.get("attr"), tf.node))
        elif src.get("attr", "").startswith("X_attr[example_id, start:end]"):
            out.append(violation("TFM", tf, role, "sum runs over the whole span including the flanks: `%s`" % src.get("attr"), tf.node))
        elif src.get("attr", "").startswith("X_sum["):
            out.append(unrecognised("TFM", tf, role, src.get("attr")))
        else:
            out.append(unrecognised("TFM", tf, role, "%s | %s | %s" % (src.get("attr_flank"), src.get("(attr_start, attr_end)"), src.get("attr"))))
    role = "window sums are computed on a fresh tensor (the caller's attributions are only read)"
    ok = src.get("X_sum") == "X_attr.unfold(-1, window_size, 1).sum(dim=-1)"
    out.append((holds if ok else unrecognised)("TFM", tf, role, src.get("X_sum", "?"), tf.node, nontrivial=False))
    return out


LEVEL_TEXT = ("Index-range and span proofs in the linear-constraint domain for the cumulative-sum reads and the appended spans of the "
              "recursive caller (all positions incl. spans touching 0 after flank clipping), dominance of the threshold test, masking "
              "and sort structure; confirmed-form rules for the TF-MoDISco caller; alias analysis for input purity.")
LEVEL_NOTE = ("Decides: no wrapped cumulative-sum index, attribution = sum over [start,end), spans inside the example, p <= threshold, "
              "sorting, masking shape, edge-mask guard, input purity. Not decided: seqlet length bounds and TF-MoDISco span containment "
              "(value reasoning about p-values / -inf masking); assumes the documented parameter ranges.")
TECHNIQUE = "abstract interpretation of index expressions (linear constraints, Fourier-Motzkin) + dominance/structural rules + alias analysis"
