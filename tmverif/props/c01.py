"""C01 - edit primitives apply exactly the requested edit, reject out-of-range positions, never write inputs."""
import ast
from ..affine import Lin, ge, le, decide
from ..front import dotted, const_value, unparse, AnalysisError, walk_no_nested, kwarg
from ..core import holds, violation, unrecognised
from ..flow import AbsInt
from ..rules import (decide_states, subscript_bounds_obligations, pure_params, Must, call_matcher,
                     fmt_trace, relevant_guards, relevant_atoms, inline_locals)

ID = "C01"
ANCHORS = 'ersatz.substitute,ersatz.insert,ersatz.delete,ersatz.multisubstitute,ersatz.randomize'.split(",")
MIN_INSTANCES = 20
# rule families whose findings in this module are derived by an engine (not by comparing spellings): exempt from the rewrite gate
SEMANTIC_RULES = {"R-ACCEPT", "MUST-VALIDATE", "R-PURE", "R-GUARD"}
EXPLANATION = (
    "Static rules over tangermeme/ersatz.py (ast; nothing executed). R-GUARD: trace-partitioned abstract "
    "interpretation collects the linear guards on every path to each last-axis slice of an X-shaped tensor in "
    "substitute/insert/delete and proves 0 <= lo <= hi <= L by Fourier-Motzkin (a counter-model of the guard system "
    "is exhibited before a violation is reported); randomize/multisubstitute are checked to hand positions only to "
    "substitute (callee summary: rejects). R-LEN: symbolic last-axis extent of every returned tensor and the "
    "prefix/motif/suffix composition of the torch.cat pieces. R-PURE: may-alias + in-place sink analysis for the "
    "tensor parameters. MUST-VALIDATE: _validate_input(.., ohe=True) dominates every normal return."
)
ASSUMPTIONS = [
    "torch/numpy API summaries (views vs fresh storage, torch.cat extent = sum of extents, slice semantics)",
    "utils._validate_input(ohe=True) recognises exactly the one-hot tensors (value reasoning, not decided here)",
    "user-supplied tensors have the rank documented in the numpy-doc docstrings",
]

ERSATZ = "ersatz"


def x_slices(fi, ai, xparam="X"):
    """all Subscript nodes (load or store) whose base variable shares X's shape version in at least
    one state and whose last index is a non-trivial slice; returned with their statements"""
    out = []
    for stmt in walk_no_nested(fi.node):
        if not isinstance(stmt, ast.stmt) or isinstance(stmt, (ast.If, ast.For, ast.While, ast.With, ast.Try, ast.FunctionDef)):
            continue
        for n in walk_no_nested(stmt):
            if isinstance(n, ast.Subscript) and isinstance(n.value, ast.Name):
                idx = n.slice.elts if isinstance(n.slice, ast.Tuple) else [n.slice]
                last = idx[-1]
                if isinstance(last, ast.Slice) and (last.lower is not None or last.upper is not None):
                    sts = ai.states_at(stmt)
                    if any(st.sver.get(n.value.id) == xparam for st in sts):
                        out.append((stmt, n, last))
    return out


def guard_rule(repo, fname, strict_pairs=()):
    fi = repo.func(ERSATZ + "." + fname)
    ai = AbsInt(fi, int_params={"start", "end"})
    res = []
    sites = x_slices(fi, ai)
    if not sites:
        return [unrecognised("R-GUARD", fi, "last-axis slices of X", "no slice of an X-shaped tensor found")], fi, ai
    for k, (stmt, sub, sl) in enumerate(sites):
        store = isinstance(sub.ctx, ast.Store)
        role = "%s last-axis slice #%d of X-shaped tensor (%s)" % ("store into" if store else "load of", k,
                                                                  _slice_shape(sl))

        def mk(st, sub=sub, sl=sl):
            E = Lin.atom(ai.shape_atom(st, sub.value.id, -1))
            return subscript_bounds_obligations(ai, st, sub, E, sl)
        res.append(decide_states(ai, fi, stmt, mk, "R-GUARD", role))
    return res, fi, ai


def _slice_shape(sl):
    return "%s:%s" % ("lo" if sl.lower is not None else "", "hi" if sl.upper is not None else "")


def returns_of(fi, ai):
    return [(n, st) for (n, st) in ai.returns]


def run(repo, tier):
    out = []

    # ---------------------------------------------------------------- substitute
    res, fi, ai = guard_rule(repo, "substitute")
    out += res
    # the stored block has the motif's extent: hi - lo == extent(value)
    stores = [(s, sub, sl) for (s, sub, sl) in x_slices(fi, ai) if isinstance(sub.ctx, ast.Store)]
    if not stores:
        out.append(unrecognised("R-LEN", fi, "store of the motif block", "no slice store into a clone of X"))
    for stmt, sub, sl in stores:
        def mk(st, stmt=stmt, sub=sub, sl=sl):
            E = Lin.atom(ai.shape_atom(st, sub.value.id, -1))
            b = ai.slice_bounds(st, sl, E)
            v = ai.extent_last(st, stmt.value)
            if b is None or v is None:
                return None
            w = b[1] - b[0]
            return [("block extent >= motif extent", w - v), ("block extent <= motif extent", v - w)]
        out.append(decide_states(ai, fi, stmt, mk, "R-LEN", "stored block extent equals the motif extent"))
        # the stored value is the validated motif itself
        vn = stmt.value
        ok = isinstance(vn, ast.Name) and vn.id == "motif"
        out.append((holds if ok else violation)(
            "R-LEN", fi, "stored value is the motif", "value written is `%s`" % unparse(vn), stmt, nontrivial=False))
    out += ret_extent(fi, ai, lambda st: Lin.atom("X.shape[-1]"), "returned extent == L")

    # ---------------------------------------------------------------- insert
    res, fi, ai = guard_rule(repo, "insert")
    out += res
    out += ret_extent(fi, ai, lambda st: Lin.atom("X.shape[-1]") + Lin.atom(ai.shape_atom(st, "motif", -1)),
                      "returned extent == L + m")
    out += cat_composition(fi, ai, ["prefix", "motif", "suffix"])

    # ---------------------------------------------------------------- delete
    res, fi, ai = guard_rule(repo, "delete")
    out += res
    out += ret_extent(fi, ai, lambda st: Lin.atom("X.shape[-1]") - (ai.lin(st, ast.Name(id="end", ctx=ast.Load()))
                                                                   - ai.lin(st, ast.Name(id="start", ctx=ast.Load()))),
                      "returned extent == L - (end - start)")
    out += cat_composition(fi, ai, ["prefix", "suffix"])
    # start < end (something is removed, no negative span)
    for (ret, st0) in ai.returns[:1]:
        def mk(st):
            s = ai.lin(st, ast.Name(id="start", ctx=ast.Load()))
            e = ai.lin(st, ast.Name(id="end", ctx=ast.Load()))
            return [("start < end", e - s - 1)]
        out.append(decide_states(ai, fi, ret, mk, "R-GUARD", "removed span is non-empty and forward (start < end)"))

    # ---------------------------------------------------------------- randomize / multisubstitute via callee
    sub_ok = all(r.status == "HOLDS" for r in out if r.func == "ersatz.substitute" and r.rule == "R-GUARD")
    out += randomize_rule(repo, sub_ok)
    out += multisubstitute_rule(repo, sub_ok)

    # ---------------------------------------------------------------- acceptance of in-range positions
    out += accept_rule(repo, "substitute", lambda ai, st: [ge(Lin.atom("start"), 0),
                                                        ge(Lin.atom("X.shape[-1]"), Lin.atom("start") + Lin.atom(ai.shape_atom(st, "motif", -1)))])
    out += accept_rule(repo, "insert", lambda ai, st: [ge(Lin.atom("start"), 0), ge(Lin.atom("X.shape[-1]"), Lin.atom("start"))])
    out += accept_rule(repo, "delete", lambda ai, st: [ge(Lin.atom("start"), 0), ge(Lin.atom("end"), Lin.atom("start") + 1),
                                                    ge(Lin.atom("X.shape[-1]"), Lin.atom("end"))])
    out += accept_rule(repo, "randomize", lambda ai, st: [ge(Lin.atom("start"), 0), ge(Lin.atom("end"), Lin.atom("start") + 1),
                                                       ge(Lin.atom("X.shape[-1]"), Lin.atom("end"))])

    # spacing values 0 <= l < L are accepted by multisubstitute's own validation loop
    _ms = repo.func(ERSATZ + ".multisubstitute")
    _spl = [n for n in _ms.node.body if isinstance(n, ast.For) and isinstance(n.iter, ast.Name) and n.iter.id == "spacing" and isinstance(n.target, ast.Name)]
    _lv = _spl[0].target.id if _spl else "l"

    def _sp_valid(ai, st):
        l = Lin.atom(st.sver.get(_lv, _lv))
        return [ge(l, 0), ge(Lin.atom("X.shape[-1]"), l + 1)]
    out += accept_rule(repo, "multisubstitute", _sp_valid, extra_names=frozenset({_lv}), require_names={_lv},
                       what="every spacing 0 <= l < L is accepted by the validation loop")
    out += randomize_layout(repo)

    # ---------------------------------------------------------------- purity
    for fname, params in (("substitute", ["X", "motif"]), ("insert", ["X", "motif"]), ("delete", ["X"]),
                          ("multisubstitute", ["X", "motifs", "spacing"]), ("randomize", ["X", "probs"])):
        out += pure_params(repo, repo.func(ERSATZ + "." + fname), params)

    # ---------------------------------------------------------------- one-hot validation dominates returns
    for fname, need_motif in (("substitute", True), ("insert", True), ("delete", False), ("randomize", False)):
        out += validation_rule(repo, fname, need_motif)
    return out


def ret_extent(fi, ai, expected, role):
    res = []
    if not ai.returns:
        return [unrecognised("R-LEN", fi, role, "function has no return")]
    ret = ai.returns[0][0]
    rets = {id(n): n for n, _ in ai.returns}
    for rid, ret in rets.items():
        def mk(st, ret=ret):
            got = ai.extent_last(st, ret.value)
            if got is None:
                return None
            exp = expected(st)
            return [("extent >= expected", got - exp), ("extent <= expected", exp - got)]
        res.append(decide_states(ai, fi, ret, mk, "R-LEN", role))
    return res


def cat_composition(fi, ai, kinds):
    """the returned torch.cat pieces are, in order: X[..., :p] , (motif ,) X[..., q:] with p == q (insert)
    or p = start, q = end (delete)"""
    role = "returned pieces are %s in this order, cut at the requested position" % "+".join(kinds)
    ret = ai.returns[0][0] if ai.returns else None
    rv = inline_locals(fi, ret.value) if ret is not None and ret.value is not None else None
    if rv is None or not (isinstance(rv, ast.Call) and dotted(rv.func) in ("torch.cat", "torch.concatenate")
                          and rv.args and isinstance(rv.args[0], (ast.List, ast.Tuple))):
        return [unrecognised("R-LEN", fi, role, "return is not a torch.cat of a literal list", ret)]
    elts = [inline_locals(fi, e) if not (isinstance(e, ast.Name) and e.id == "motif") else e
            for e in rv.args[0].elts]
    if len(elts) != len(kinds):
        return [violation("R-LEN", fi, role, "expected %d pieces, found %d: %s" % (len(kinds), len(elts), unparse(rv)), ret)]
    dim = kwarg(rv, "dim", 1)
    if const_value(dim) not in (-1, 2):
        return [violation("R-LEN", fi, role, "pieces are concatenated along dim=%s, not the sequence axis" % unparse(dim), ret)]

    def piece(e):
        if isinstance(e, ast.Subscript) and isinstance(e.value, ast.Name):
            idx = e.slice.elts if isinstance(e.slice, ast.Tuple) else [e.slice]
            if all(isinstance(i, ast.Slice) and i.lower is None and i.upper is None and i.step is None for i in idx[:-1]) \
                    and isinstance(idx[-1], ast.Slice) and idx[-1].step is None:
                return e.value.id, idx[-1]
        return None

    first, last = piece(elts[0]), piece(elts[-1])
    if first is None or last is None:
        return [unrecognised("R-LEN", fi, role, "outer pieces are not plain last-axis slices", ret)]
    if first[1].lower is not None or first[1].upper is None or last[1].upper is not None or last[1].lower is None:
        return [violation("R-LEN", fi, role, "outer pieces must be X[..., :p] and X[..., q:], found %s and %s" % (
            unparse(elts[0]), unparse(elts[-1])), ret)]
    if len(kinds) == 3 and not (isinstance(elts[1], ast.Name) and elts[1].id == "motif"):
        return [violation("R-LEN", fi, role, "middle piece is `%s`, not the validated motif" % unparse(elts[1]), ret)]

    def mk(st):
        if st.sver.get(first[0]) != "X" or st.sver.get(last[0]) != "X":
            return None
        p = ai.lin(st, first[1].upper)
        q = ai.lin(st, last[1].lower)
        s = ai.lin(st, ast.Name(id="start", ctx=ast.Load()))
        if p is None or q is None or s is None:
            return None
        ob = [("prefix ends at start", p - s), ("prefix ends at start'", s - p)]
        if len(kinds) == 3:
            ob += [("suffix begins where prefix ended", q - p), ("suffix begins where prefix ended'", p - q)]
        else:
            e = ai.lin(st, ast.Name(id="end", ctx=ast.Load()))
            ob += [("suffix begins at end", q - e), ("suffix begins at end'", e - q)]
        return ob
    return [decide_states(ai, fi, ret, mk, "R-LEN", role)]


def accept_rule(repo, fname, valid, module=ERSATZ, rule="R-ACCEPT", extra_names=frozenset(), int_arrays=(), require_names=None, what=None):
    """no range guard rejects a position / span that lies wholly inside the sequence: for every `raise` whose guard mentions the
    position parameters, (path constraints and 'wholly inside') must be contradictory"""
    from ..affine import consistent_model, cone, SearchLimit, _infeasible
    fi = repo.func(module + "." + fname)
    ai = AbsInt(fi, int_params={"start", "end", "n"} | set(extra_names), int_arrays=int_arrays)
    pm = {}
    for n in ast.walk(fi.node):
        for c in ast.iter_child_nodes(n):
            pm[c] = n
    role = what or "every position / span lying wholly inside the sequence is accepted (no over-rejecting range guard)"
    n_r = 0
    for rz, st in ai.raises:
        g = rz
        while g in pm and not isinstance(g, ast.If):
            g = pm[g]
        if not isinstance(g, ast.If):
            continue
        names = {x.id for x in ast.walk(g.test) if isinstance(x, ast.Name)}
        if require_names is not None:
            if not (set(require_names) & names):
                continue
        elif not ({"start", "end"} & names) and ".shape[-1]" not in unparse(g.test) and not (extra_names & names):
            continue
        n_r += 1
        st = st.copy()
        V = valid(ai, st)
        G = [c for c in st.G] + V + [ge(Lin.atom("X.shape[-1]"), 1)]
        seed = Lin(0, {a: 1 for v in V for a in v.atoms()})
        Gc = cone(G, seed)
        if _infeasible(Gc):
            continue
        try:
            m = consistent_model(Gc, [], scope=(-2, 8))
        except SearchLimit:
            return [unrecognised(rule, fi, role, "search budget exhausted", rz)]
        if m is not None:
            wit = {k: v for k, v in sorted(m.items()) if k in ("start", "end") or k.endswith("shape[-1]")}
            return [violation(rule, fi, role, "guard `%s` raises for a position that lies wholly inside the sequence, e.g. %s" % (
                unparse(g.test)[:70], wit), g, witness={"assignment": wit})]
    if n_r == 0:
        return [unrecognised(rule, fi, role, "no range guard found")]
    return [holds(rule, fi, role, "%d raising range-guard path(s), each contradicts 'wholly inside'" % n_r, fi.node)]


def randomize_layout(repo):
    from ..axes import chain, apply_perm, PERMUTERS
    fi = repo.func(ERSATZ + ".randomize")
    role = "randomize returns n independent randomisations per example, laid out [example, n, alphabet, position]"
    loops = [n for n in fi.node.body if isinstance(n, ast.For)]
    rets = [n for n in walk_no_nested(fi.node) if isinstance(n, ast.Return)]
    if not loops or not rets:
        return [unrecognised("R-AXES", fi, role, "loop / return not found")]
    l = loops[-1]
    from ..rules import inline_locals
    retv = inline_locals(fi, rets[-1].value)
    base0, _ = chain(retv)
    lst = base0.args[0].id if isinstance(base0, ast.Call) and dotted(base0.func) in ("torch.stack", "torch.cat", "torch.concatenate") \
        and base0.args and isinstance(base0.args[0], ast.Name) else None
    if lst is None:
        return [unrecognised("R-AXES", fi, role, "returned value `%s` is not a stack of a list" % unparse(retv)[:60], rets[-1])]
    it = l.iter
    cnt = None
    if isinstance(it, ast.Call) and dotted(it.func) == "range" and not it.keywords:
        if len(it.args) == 1:
            cnt = unparse(it.args[0])
        elif len(it.args) == 2 and const_value(it.args[0]) == 0:
            cnt = unparse(it.args[1])
    if cnt is None:
        return [unrecognised("R-AXES", fi, role, "loop header `%s` not recognised" % unparse(it), l)]
    if cnt != "n":
        return [violation("R-AXES", fi, role, "loop runs `%s` times, not n" % cnt, l)]
    apps = [s for s in l.body if isinstance(s, ast.Expr) and unparse(s.value).startswith("%s.append(" % lst)]
    if len(apps) != 1:
        return [violation("R-AXES", fi, role, "each iteration must append exactly one randomisation to `%s`" % lst, l)]
    base, ops = chain(retv)
    lab = ["n", "N", "A", "L"]
    if isinstance(base, ast.Call) and const_value(kwarg(base, "dim", 1)) == 1:
        lab = ["N", "n", "A", "L"]
    for m, c in ops:
        if m in PERMUTERS:
            lab = apply_perm(lab, m, c)
            if lab is None:
                return [unrecognised("R-AXES", fi, role, "cannot interpret .%s" % m)]
    if lab != ["N", "n", "A", "L"]:
        return [violation("R-AXES", fi, role, "layout is %s" % lab, rets[-1])]
    return [holds("R-AXES", fi, role, unparse(rets[-1].value)[:70], rets[-1])]


def calls_to(fi, name):
    return [n for n in walk_no_nested(fi.node) if isinstance(n, ast.Call) and dotted(n.func) == name]


def randomize_rule(repo, sub_ok):
    fi = repo.func(ERSATZ + ".randomize")
    ai = AbsInt(fi, int_params={"start", "end", "n"})
    out = []
    pm = {}
    for s in walk_no_nested(fi.node):
        if isinstance(s, ast.stmt):
            for n in walk_no_nested(s):
                if isinstance(n, ast.Call) and n is not s:
                    pm.setdefault(id(n), s)
    calls = calls_to(fi, "substitute")
    role = "span [start,end) is handed to substitute unchanged (callee rejects out-of-range)"
    if not calls:
        return [unrecognised("R-GUARD", fi, role, "no call to substitute")]
    for c in calls:
        stmt = None
        for s in walk_no_nested(fi.node):
            if isinstance(s, ast.stmt) and not isinstance(s, (ast.For, ast.While, ast.If, ast.With, ast.Try)) \
                    and any(n is c for n in ast.walk(s)):
                stmt = s
        startarg = kwarg(c, "start", 2)
        motifarg = c.args[1] if len(c.args) > 1 else kwarg(c, "motif")
        xarg = c.args[0] if c.args else kwarg(c, "X")
        if startarg is None or motifarg is None or xarg is None:
            out.append(violation("R-GUARD", fi, role, "substitute is called without an explicit start: `%s`" % unparse(c), c))
            continue
        if not (isinstance(xarg, ast.Name) and xarg.id == "X"):
            out.append(violation("R-GUARD", fi, role, "substitute is applied to `%s`, not to X" % unparse(xarg), c))
            continue
        # extent of the random block: find the call that created the motif argument
        width = None
        if isinstance(motifarg, ast.Name):
            for n in walk_no_nested(fi.node):
                if isinstance(n, ast.Assign) and len(n.targets) == 1 and isinstance(n.targets[0], ast.Name) \
                        and n.targets[0].id == motifarg.id and isinstance(n.value, ast.Call) \
                        and dotted(n.value.func) == "random_one_hot" and n.value.args \
                        and isinstance(n.value.args[0], ast.Tuple) and len(n.value.args[0].elts) == 3:
                    width = n.value.args[0].elts[2]
        if width is None:
            out.append(unrecognised("R-GUARD", fi, role, "cannot find the random_one_hot((N, A, W)) that builds the block", c))
            continue

        def mk(st, startarg=startarg, width=width):
            s = ai.lin(st, startarg)
            w = ai.lin(st, width)
            if s is None or w is None:
                return None
            ps, pe = Lin.atom("start"), Lin.atom("end")
            return [("start passed >= start", s - ps), ("start passed <= start", ps - s),
                    ("block width >= end-start", w - (pe - ps)), ("block width <= end-start", (pe - ps) - w)]
        r = decide_states(ai, fi, stmt, mk, "R-GUARD", role)
        if r.status == "HOLDS" and not sub_ok:
            r = unrecognised("R-GUARD", fi, role, "callee summary unavailable: substitute's own guards do not hold")
        out.append(r)
    # result layout: stack over n then permute(1,0,2,3) -> [N, n, A, L]
    return out


def multisubstitute_rule(repo, sub_ok):
    fi = repo.func(ERSATZ + ".multisubstitute")
    lens_var = None
    for s in fi.node.body:
        if isinstance(s, ast.Assign) and isinstance(s.value, ast.ListComp) and len(s.value.generators) == 1 \
                and isinstance(s.value.generators[0].iter, ast.Name) and s.value.generators[0].iter.id == "motifs" \
                and isinstance(s.targets[0], ast.Name):
            g = s.value.generators[0]
            if isinstance(g.target, ast.Name) and not g.ifs and _is_length_of(s.value.elt, g.target.id):
                lens_var = s.targets[0].id
    ai = AbsInt(fi, int_params={"start"}, int_arrays={"spacing", lens_var or "motif_lengths"})
    out = []
    role_call = "every motif is placed by substitute at the running start (callee rejects out-of-range)"
    calls = calls_to(fi, "substitute")
    if len(calls) < 1:
        return [unrecognised("R-GUARD", fi, role_call, "no call to substitute")]
    bad = None
    for c in calls:
        sa = kwarg(c, "start", 2)
        if not (isinstance(sa, ast.Name) and sa.id == "start"):
            bad = c
    if bad is not None:
        # spelling-level: the running cursor is recognised by its name only
        out.append(violation("R-GUARD", fi, role_call, "substitute called with start=`%s`" % unparse(kwarg(bad, "start", 2)), bad, semantic=False))
    else:
        out.append((holds if sub_ok else unrecognised)("R-GUARD", fi, role_call,
                   "%d call sites pass start=start" % len(calls), calls[0]))
    # loop structure: for i in range(len(spacing)): X = substitute(X, motifs[i], start); start += L_i + s_i ; then motifs[-1]
    role_adv = "start advances by exactly len(motif i) + spacing[i] between consecutive motifs"
    loops = [n for n in fi.node.body if isinstance(n, ast.For)]
    loop = None
    for l in loops:
        if any(isinstance(n, ast.Call) and dotted(n.func) == "substitute" for n in ast.walk(l)):
            loop = l
    if loop is None or not isinstance(loop.target, ast.Name):
        out.append(unrecognised("R-LEN", fi, role_adv, "placement loop not found"))
        return out
    iv = loop.target.id
    upd = [s for s in loop.body if isinstance(s, (ast.AugAssign, ast.Assign)) and
           any(isinstance(t, ast.Name) and t.id == "start" for t in ([s.target] if isinstance(s, ast.AugAssign) else s.targets))]
    if len(upd) != 1:
        out.append(violation("R-LEN", fi, role_adv, "start is updated %d times in the loop body" % len(upd), loop))
        return out
    u = upd[0]
    if lens_var is None:
        out.append(unrecognised("R-LEN", fi, role_adv, "per-motif length table not found"))
        return out
    before = ai.states_at(u)
    if not before:
        out.append(unrecognised("R-LEN", fi, role_adv, "update statement unreachable"))
        return out
    for b in before:
        sb = b.env.get("start", Lin.atom(b.sver.get("start", "start")))
        afters = ai._stmt(u, [b.copy()])
        for a in afters:
            sa = a.env.get("start")
            st = b.copy()
            exp = ai.lin(st, ast.parse("%s[%s] + spacing[%s]" % (lens_var, iv, iv), mode="eval").body)
            if sa is None or exp is None or (sa - sb) != exp:
                out.append(violation("R-LEN", fi, role_adv, "start advances by %s, expected %r" % (
                    repr(sa - sb) if sa is not None else "a non-integer expression", exp), u,
                    witness={"advance": repr(sa - sb) if sa is not None else None, "expected": repr(exp)}))
                return out
    # order: the substitute inside the loop precedes the update and uses motifs[i]
    body_calls = [(k, s) for k, s in enumerate(loop.body) if any(isinstance(n, ast.Call) and dotted(n.func) == "substitute" for n in ast.walk(s))]
    kupd = loop.body.index(u)
    if not body_calls or body_calls[0][0] > kupd:
        out.append(violation("R-LEN", fi, role_adv, "start is advanced before motif i is placed", u))
        return out
    c = [n for n in ast.walk(body_calls[0][1]) if isinstance(n, ast.Call) and dotted(n.func) == "substitute"][0]
    marg = c.args[1] if len(c.args) > 1 else kwarg(c, "motif")
    if unparse(marg) != "motifs[%s]" % iv:
        out.append(violation("R-LEN", fi, role_adv, "loop places `%s`, expected motifs[%s]" % (unparse(marg), iv), c))
        return out
    rargs = loop.iter.args if isinstance(loop.iter, ast.Call) and dotted(loop.iter.func) == "range" and not loop.iter.keywords else []
    if len(rargs) == 2 and const_value(rargs[0]) == 0:
        rargs = rargs[1:]
    if not (len(rargs) == 1 and unparse(rargs[0]) in ("len(spacing)", "len(motifs) - 1")):
        out.append(unrecognised("R-LEN", fi, role_adv, "loop range `%s` not recognised" % unparse(loop.iter), loop))
        return out
    # final motif
    tail = [n for s in fi.node.body[fi.node.body.index(loop) + 1:] for n in ast.walk(s)
            if isinstance(n, ast.Call) and dotted(n.func) == "substitute"]
    if len(tail) != 1 or unparse(tail[0].args[1] if len(tail[0].args) > 1 else kwarg(tail[0], "motif")) != "motifs[-1]":
        out.append(violation("R-LEN", fi, role_adv, "last motif is not placed exactly once after the loop", loop))
        return out
    out.append(holds("R-LEN", fi, role_adv, "advance == %s[%s] + spacing[%s]; motif i placed before the advance; "
                     "motifs[-1] placed after the loop" % (lens_var, iv, iv), u))
    # spacing guard 0 <= l < L
    role_sp = "every spacing is validated 0 <= l < L before use"
    sp_loops = [n for n in fi.node.body if isinstance(n, ast.For) and isinstance(n.iter, ast.Name) and n.iter.id == "spacing"]
    if not sp_loops:
        out.append(violation("R-GUARD", fi, role_sp, "no validation loop over spacing", fi.node))
    else:
        l = sp_loops[0]
        if fi.node.body.index(l) > fi.node.body.index(loop):
            out.append(violation("R-GUARD", fi, role_sp, "spacing is validated after use", l))
        else:
            # after-state of the (non raising) body: 0 <= l < L
            lv = l.target.id if isinstance(l.target, ast.Name) else None
            sts = ai.after.get(id(l.body[-1]), [])
            ok = bool(sts) and lv is not None
            for st in sts:
                a = Lin.atom(st.sver.get(lv, lv))
                L = Lin.atom("X.shape[-1]")
                if decide(st.G, a)[0] != "PROVED" or decide(st.G, L - a - 1)[0] != "PROVED":
                    ok = False
            out.append((holds if ok else violation)("R-GUARD", fi, role_sp,
                       "guards in the loop over spacing imply 0 <= l <= L-1 on the non-raising path" if ok else
                       "guards do not imply 0 <= l < L", l))
    return out


def _is_length_of(e, var):
    """len(var) / var.shape[-1] / IfExp of those"""
    if isinstance(e, ast.IfExp):
        return _is_length_of(e.body, var) and _is_length_of(e.orelse, var)
    if isinstance(e, ast.Call) and dotted(e.func) == "len" and len(e.args) == 1:
        return isinstance(e.args[0], ast.Name) and e.args[0].id == var
    if isinstance(e, ast.Subscript) and isinstance(e.value, ast.Attribute) and e.value.attr == "shape" \
            and isinstance(e.value.value, ast.Name) and e.value.value.id == var:
        return const_value(e.slice) == -1
    return False


def validation_rule(repo, fname, need_motif):
    fi = repo.func(ERSATZ + "." + fname)

    def is_val(which):
        def pred(c):
            if dotted(c.func) != "_validate_input" or not c.args:
                return False
            a0 = c.args[0]
            if not (isinstance(a0, ast.Name) and a0.id == which):
                return False
            ohe = kwarg(c, "ohe", 6)
            if const_value(ohe) is not True:
                return False
            if which == "motif":
                shp = kwarg(c, "shape", 2)
                # alphabet axis must be tied to X's
                return shp is not None and "X.shape[1]" in unparse(shp)
            return True
        return pred
    pats = {"X": is_val("X")}
    if need_motif:
        pats["motif"] = is_val("motif")
    m = Must(fi, call_matcher(pats))
    out = []
    for which in pats:
        role = "_validate_input(%s, ohe=True) dominates every normal return" % which
        missing = [r for (r, facts) in m.return_facts if which not in facts]
        if not m.return_facts:
            out.append(unrecognised("MUST-VALIDATE", fi, role, "no return"))
        elif missing:
            out.append(violation("MUST-VALIDATE", fi, role, "a return is reachable without the one-hot validation of `%s`" % which,
                                 missing[0] if missing[0] is not None else fi.node))
        else:
            out.append(holds("MUST-VALIDATE", fi, role, "%d returns, all dominated" % len(m.return_facts), fi.node))
    return out

LEVEL_TEXT = ("Static proof obligations over the source of the five edit primitives: every position-dependent slice is shown "
              "in range from the guards on each path (so out-of-range positions are rejected, never wrapped/clipped), the "
              "returned tensor's extent and piece order equal the requested edit, inputs are never written, one-hot validation "
              "dominates every return. Holds for every input because the argument only uses the code's guards, not values.")
LEVEL_NOTE = ("Decides: range rejection, edit geometry (extent, cut points, advance of multisubstitute), input purity, validation "
              "dominance. Not decided: that _validate_input recognises exactly the one-hot tensors; per-example motif broadcasting; "
              "trusted torch API summaries.")
TECHNIQUE = "abstract interpretation (linear guards, Fourier-Motzkin) + alias/effect analysis + dominance over ast"
