"""C05 - DeepLIFT/SHAP multipliers equal an independent rescale-rule computation (formula-level clauses)."""
from ..core import holds, violation, unrecognised
from . import dls

ID = "C05"
ANCHORS = 'deep_lift_shap._nonlinear,deep_lift_shap.hypothetical_attributions,deep_lift_shap.deep_lift_shap'.split(",")
MIN_INSTANCES = 6
# rule families whose findings in this module are derived by an engine (not by comparing spellings): exempt from the rewrite gate
SEMANTIC_RULES = {"R-EVAL", "REFGRAD"}
EXPLANATION = (
    "R-TERM: the canonical term of deep_lift_shap._nonlinear equals the rescale rule exactly as the property states it: "
    "where(|in(x)-in(ref)| < tau, ordinary gradient, grad_output * (out(x)-out(ref)) / (in(x)-in(ref))) with the same orientation "
    "(first - second) for inputs and outputs, both batch halves receiving the same factor, tau a small positive constant; the "
    "canonical term of hypothetical_attributions column k equals sum_c (e_k - ref)[c] * m[c]. R-TABLE incl. call-privacy of the "
    "table (an override passed in one call must not change later calls). PROCESS: mean over the example's references, then masked "
    "by the observed characters unless hypothetical. Bias independence for affine models follows from 'no hook on linear layers'."
)
ASSUMPTIONS = ["agreement with an independent layer-by-layer evaluation on concrete networks needs execution: NOT decided here",
               "torch.where / chunk / cat semantics"]


def run(repo, tier):
    out = []
    r, t = dls.rescale_rule(repo)
    out += r
    out += dls.hypothetical_rule(repo)
    tr, _ = dls.table_rule(repo)
    out += tr
    out += dls.processing_rule(repo)
    out += [x for x in dls.halves_rule(repo) if "first half" in x.role or "example half" in x.role]
    # the rescale rule describes the deterministic eval-mode function: a model left in training mode draws fresh RReLU slopes / dropout
    # masks for the example half and the reference half of one batch
    out += dls.refgrad_rule(repo)
    out += [x for x in dls.hooks_rule(repo) if "skipped only" in x.role]     # a skipped supported layer gets the ordinary gradient
    from .c07 import eval_rule
    out += eval_rule(repo, "deep_lift_shap.deep_lift_shap")
    return out


LEVEL_TEXT = ("Normal-form comparison of the implemented backward rule and of the hypothetical projection with the formulas stated in "
              "the property (a mismatch inside the arithmetic fragment is a sound violation), plus table privacy and output processing.")
LEVEL_NOTE = ("Decides the formulas; NOT decided: agreement with an independent evaluation on concrete networks (needs execution), the "
              "ambiguous band around the switch threshold.")
TECHNIQUE = "symbolic term normal form comparison against the stated formula over ast"
