"""C11 - FIMO p-value tables: structural necessary conditions (no fast-math on inf handling, survival function by suffix
accumulation, every table cell defined before it is read)."""
import ast
from ..front import dotted, const_value, unparse, walk_no_nested, parent_map
from ..core import holds, violation, unrecognised, named, Result, HOLDS

ID = "C11"
ANCHORS = 'tools.fimo.logaddexp2,tools.fimo._pwm_to_mapping'.split(",")
MIN_INSTANCES = 6
# rule families whose findings in this module are derived by an engine (not by comparing spellings): exempt from the rewrite gate
SEMANTIC_RULES = {"R-FASTMATH", "R-SCRATCH", "STATE"}
EXPLANATION = (
    "R-FASTMATH (contradiction rule): a function compiled with fastmath=True (or a flag set containing ninf/nnan) asserts "
    "'no infinities/NaNs'; a body that mentions float('inf'), -numpy.inf, math.inf, numpy.nan or isinf/isnan/isfinite asserts "
    "the opposite - both cannot be right; applied to every jitted function of tools/fimo.py that is on the table-building "
    "path, with a positive control. R-MONO: the survival function is produced by the suffix accumulation "
    "t[i] = logaddexp2(t[i], t[i+1]) from len-2 down to 0 (non-increasing by construction). R-SCRATCH: the table array is "
    "allocated with numpy.empty; on every path (including a one-column PWM, where the per-column loop runs zero times) a full "
    "store precedes the accumulation that reads it. LOGADD: the -inf/-inf case is handled before the arithmetic (else inf-inf = NaN)."
)
ASSUMPTIONS = ["LLVM fast-math flag semantics (ninf/nnan let the optimiser assume no inf/NaN)",
               "exactness of the table against the true tail distribution is numerical and NOT decided by this family"]
F = "tools.fimo"

INF_NAMES = {"numpy.inf", "math.inf", "numpy.nan", "math.nan", "numpy.NINF", "numpy.PINF", "np.inf", "np.nan"}
INF_FUNCS = {"numpy.isinf", "numpy.isnan", "numpy.isfinite", "math.isinf", "math.isnan", "math.isfinite"}


def mentions_inf(fn):
    hits = []
    for n in walk_no_nested(fn):
        if isinstance(n, ast.Call) and dotted(n.func) == "float" and n.args and isinstance(n.args[0], ast.Constant) \
                and isinstance(n.args[0].value, str) and n.args[0].value.strip("+-").lower() in ("inf", "nan", "infinity"):
            hits.append(n)
        elif isinstance(n, ast.Attribute) and dotted(n) in INF_NAMES:
            hits.append(n)
        elif isinstance(n, ast.Call) and dotted(n.func) in INF_FUNCS:
            hits.append(n)
    return hits


def fastmath_unsafe(flags):
    fm = flags.get("fastmath") if flags else False
    if fm is True:
        return True
    if isinstance(fm, set):
        return bool(fm & {"ninf", "nnan", "fast"})
    if fm == "unknown":
        return None
    return False


def pseudocount_rule(repo):
    """The table is built from log2(pwm + eps) - log2(bg) for EVERY pwm: the pseudocount is part of the scored model, not a guard against
    log(0).  In `fimo` the addition of `eps` reaches the log unconditionally (it sits in the argument of the log or in an assignment that
    no `if` encloses)."""
    role = "the pseudocount is added to every PWM before the logarithm (not only when a zero entry is present)"
    if not repo.has_func(F + ".fimo"):
        return []
    fi = repo.func(F + ".fimo")
    pm = parent_map(fi.node)
    adds = [n for n in ast.walk(fi.node) if isinstance(n, ast.BinOp) and isinstance(n.op, ast.Add) and
            any(isinstance(x, ast.Name) and x.id == "eps" for x in (n.left, n.right))]
    adds += [n for n in ast.walk(fi.node) if isinstance(n, ast.AugAssign) and isinstance(n.op, ast.Add) and isinstance(n.value, ast.Name) and n.value.id == "eps"]
    if not adds:
        return [unrecognised("EPS", fi, role, "no `+ eps` found in fimo", fi.node)]
    cond = []
    for a in adds:
        x = a
        while x in pm:
            x = pm[x]
            if isinstance(x, (ast.If, ast.IfExp, ast.While)) and not (isinstance(x, ast.If) and "isinstance(" in unparse(x.test)):
                cond.append((a, x))
                break
    if len(cond) == len(adds):
        a, x = cond[0]
        return [named("EPS", fi, role, "`%s` only happens under `%s`: PWMs without a zero entry are scored without the pseudocount, so the table and the "
                      "reported p-values belong to a different model than the one `eps` defines" % (unparse(a)[:40], unparse(x.test)[:50]), x)]
    return [holds("EPS", fi, role, "`%s` is unconditional" % unparse([a for a in adds if a not in [c[0] for c in cond]][0])[:50], adds[0], nontrivial=False)]


def run(repo, tier):
    out = []
    m = repo.mod(F)
    out += pseudocount_rule(repo)
    # ------------------------------------------------------------ R-FASTMATH on every jitted function handling inf
    n_checked = 0
    for name in ("logaddexp2", "_pwm_to_mapping", "_all_pwm_to_mapping"):
        fi = repo.func(F + "." + name)
        role = "no fast-math (ninf/nnan) on code that handles +-inf / NaN explicitly"
        if fi.numba is None:
            out.append(unrecognised("R-FASTMATH", fi, role, "function is no longer numba-compiled (decorator not found)"))
            continue
        inf = mentions_inf(fi.node)
        # callee closure: a fast-math caller inlines its callees' arithmetic? no: flags are per function in numba.
        un = fastmath_unsafe(fi.numba)
        n_checked += 1
        if un is None:
            out.append(unrecognised("R-FASTMATH", fi, role, "fastmath value is not a literal"))
        elif un and inf:
            out.append(violation("R-FASTMATH", fi, role,
                                 "compiled with fastmath=%s but the body tests/produces infinities (`%s`): LLVM may assume they never occur "
                                 "(logaddexp2(-inf,-inf) -> nan)" % (unparse(fi.numba["fastmath_node"]), unparse(inf[0])), inf[0],
                                 witness={"decorator_line": fi.numba["line"], "inf_sites": [fi.line(x) for x in inf[:4]]}))
        else:
            out.append(holds("R-FASTMATH", fi, role, "fastmath=%s, %d inf/nan site(s)" % (fi.numba.get("fastmath"), len(inf)), fi.node,
                             nontrivial=bool(inf)))
    # positive control
    ctl = ast.parse("@numba.njit(fastmath=True)\ndef f(x):\n\tif x == float('-inf'):\n\t\treturn 0.0\n\treturn x\n").body[0]
    from ..front import FuncInfo

    class _M:
        short = "control"
        path = "control"
    cfi = FuncInfo(_M(), ctl)
    ok = fastmath_unsafe(cfi.numba) and mentions_inf(ctl)
    out.append(Result("R-FASTMATH", "control.f", "positive control is matched", HOLDS if ok else "UNRECOGNISED",
                      "synthetic fastmath+inf function is recognised", "", nontrivial=False))

    # ------------------------------------------------------------ LOGADD
    fi = repo.func(F + ".logaddexp2")
    role = "the (-inf, -inf) case returns -inf before any subtraction (inf - inf would be NaN)"
    body = [s for s in fi.node.body if not (isinstance(s, ast.Expr) and isinstance(s.value, ast.Constant))]
    # path facts: on every path that returns an arithmetic expression of the operands, "x is -inf" and "y is -inf" are not both taken
    from .. import equiv
    try:
        paths = equiv.path_facts(fi.node)
    except equiv.TooManyPaths:
        paths = None
    NEG = ("float('-inf'|)", "-numpy.inf", "-math.inf", "-1*numpy.inf", "-1*math.inf")

    def is_neg_test(k, var):
        # Eq(<-inf>, var) in any spelling of minus infinity: float('-inf'), -numpy.inf, -math.inf, -1*float('inf') (a hoisted constant)
        if not k.startswith("Eq("):
            return False
        a_, _, b_ = k[3:-1].rpartition(",")
        other = a_ if b_ == var else (b_ if a_ == var else None)
        if other is None:
            return False
        return "inf" in other and ("-inf" in other or other.startswith("-") or "-1*" in other or "-numpy" in other or "-math" in other)
    if paths is None:
        out.append(unrecognised("LOGADD", fi, role, "too many paths"))
    else:
        arith = [p for p in paths if p["outcome"] and p["outcome"][0] == "return" and any(tok in p["outcome"][1] for tok in ("math.pow", "math.log", "numpy.log", "math.exp", "Pow(", "x + ", "+ 1*x", "+ 1*y")) and ("x" in p["outcome"][1] or "y" in p["outcome"][1])]
        bad = [p for p in arith if any(is_neg_test(k, "x") and v for k, v in p["decisions"].items())
               and any(is_neg_test(k, "y") and v for k, v in p["decisions"].items())]
        # a path that returns arithmetic without ever having tested both operands against -inf
        untested = [p for p in arith if not (any(is_neg_test(k, "x") for k in p["decisions"]) or any(is_neg_test(k, "y") for k in p["decisions"]))]
        both = [p for p in paths if any(is_neg_test(k, "x") and v for k, v in p["decisions"].items())
                and any(is_neg_test(k, "y") and v for k, v in p["decisions"].items())]
        first_sub = next((s_ for s_ in body if any(isinstance(n, ast.BinOp) and isinstance(n.op, ast.Sub) for n in ast.walk(s_))), fi.node)
        if not arith:
            out.append(unrecognised("LOGADD", fi, role, "no path returns an arithmetic expression of the operands"))
        elif bad or untested:
            out.append(violation("LOGADD", fi, role, "a path reaches the arithmetic with x = y = -inf (%s): vmin - vmax = -inf - (-inf) = NaN" % (
                "both tests true" if bad else "operands never tested against -inf"), first_sub, semantic=True,
                witness={"decisions": (bad or untested)[0]["decisions"]}))
        elif not both or any(p["outcome"] is None or not ("inf" in str(p["outcome"][1]) and ("-inf" in str(p["outcome"][1]) or "-1*" in str(p["outcome"][1])
                                                          or str(p["outcome"][1]).startswith("-"))) for p in both):
            out.append(unrecognised("LOGADD", fi, role, "no path takes both -inf tests / it does not return -inf: %s" % [p["outcome"] for p in both][:2]))
        else:
            out.append(holds("LOGADD", fi, role, "%d arithmetic path(s), none with x = y = -inf; the (-inf, -inf) path returns -inf" % len(arith), first_sub))
    role = "result is max + log2(2**(min - max) + 1)"
    ret = [s for s in body if isinstance(s, ast.Return)][-1:] if body else []
    t = unparse(ret[0].value) if ret else ""
    accepted = {"vmax + math.log2(math.pow(2, vmin - vmax) + 1)", "vmax + math.log2(1 + math.pow(2, vmin - vmax))",
                "vmax + math.log2(2 ** (vmin - vmax) + 1)", "vmax + math.log2(1 + 2 ** (vmin - vmax))"}
    vm = [unparse(s) for s in body if isinstance(s, ast.Assign)]
    okv = "vmax, vmin = (max(x, y), min(x, y))" in vm or ("vmax = max(x, y)" in vm and "vmin = min(x, y)" in vm)
    if t in accepted and okv:
        out.append(holds("LOGADD", fi, role, t, ret[0]))
    elif "vmax - vmin" in t and "vmin - vmax" not in t:
        out.append(violation("LOGADD", fi, role, "exponent `vmax - vmin` is non-negative: overflows and is not log-add-exp: `%s`" % t, ret[0]))
    else:
        out.append(unrecognised("LOGADD", fi, role, "return `%s` / operands %s differ from the confirmed form" % (t, vm), ret[0] if ret else fi.node))

    # ------------------------------------------------------------ _pwm_to_mapping: R-MONO and R-SCRATCH
    fi = repo.func(F + "._pwm_to_mapping")
    out += mono_rule(fi)
    out += scratch_rule(fi)
    out += dp_rules(fi)
    out += offset_rules(repo, fi)
    out += dp_complete_rule(fi)
    from ..rules import loop_headers_rule
    out += loop_headers_rule(fi, ["range(l)", "range(n)", "range(n)", "range(1, l)", "range(largest - smallest + 1)", "enumerate(old_logpdf)",
                                  "range(n)", "range(largest - smallest + 1)", "range(len(logpdf) - 2, -1, -1)"], "DP",
                             "every column, character and score bin is visited by the dynamic programme (loop extents)")
    from ..rules import module_state_rule
    out += module_state_rule(repo, F)
    return out


def dp_complete_rule(fi):
    """every motif column after the first is convolved into the distribution: the per-column loop has no early exit and its
    reset / convolve / copy stages are unconditional"""
    role = "every column 1..l-1 contributes to the score distribution (no column is skipped)"
    loops = [n for n in fi.node.body if isinstance(n, ast.For) and unparse(n.iter) in ("range(1, l)", "range(1, log_pwm.shape[1])", "range(1, log_pwm.shape[-1])")]
    if len(loops) != 1:
        cand = [n for n in fi.node.body if isinstance(n, ast.For) and any("int_log_pwm[k, i]" in unparse(x) for x in ast.walk(n))]
        if cand:
            return [violation("DP", fi, role, "per-column loop runs over `%s`, expected range(1, l)" % unparse(cand[0].iter), cand[0])]
        return [unrecognised("DP", fi, role, "per-column loop not found")]
    l = loops[0]
    skips = [n for n in l.body if isinstance(n, ast.If) and any(isinstance(x, (ast.Continue, ast.Break, ast.Return)) for x in ast.walk(n))]
    skips += [n for n in l.body if isinstance(n, (ast.Continue, ast.Break))]
    if skips:
        return [named("DP", fi, role, "`%s` lets a column leave the distribution untouched although it shifts every attainable score by the column's value "
                          "(only a column of zeros is neutral)" % unparse(skips[0]).split("\n")[0][:70], skips[0])]
    stages = [type(s).__name__ for s in l.body]
    if stages != ["For", "For", "For"]:
        return [unrecognised("DP", fi, role, "loop body stages %s" % stages, l)]
    return [holds("DP", fi, role, "reset, convolve, copy-back run unconditionally for every column", l)]


def offset_rules(repo, fi):
    """writer/reader agreement on the table offset: the quantity subtracted when scores are placed into the table is the one
    that is returned, stored per motif, and added back / subtracted by the consumers"""
    out = []
    role = "the returned table offset is the quantity the table is indexed relative to"
    rets = [n for n in walk_no_nested(fi.node) if isinstance(n, ast.Return)]
    place = [s for s in walk_no_nested(fi.node) if isinstance(s, ast.Assign) and unparse(s.targets[0]) == "idx" and "int_log_pwm[i, 0]" in unparse(s.value)]
    allocs = [unparse(s.value) for s in walk_no_nested(fi.node) if isinstance(s, ast.Assign) and ("numpy.empty(" in unparse(s.value) or "numpy.ones(" in unparse(s.value))]
    if not rets or not isinstance(rets[-1].value, ast.Tuple) or not place:
        return [unrecognised("OFFSET", fi, role, "return tuple / first-column placement not found")]
    v = place[0].value
    base = unparse(v.right) if isinstance(v, ast.BinOp) and isinstance(v.op, ast.Sub) else None
    ret0 = unparse(rets[-1].value.elts[0])
    if base is None:
        out.append(unrecognised("OFFSET", fi, role, unparse(v)))
    elif ret0 != base:
        out.append(violation("OFFSET", fi, role, "scores are placed at `score - %s` but `%s` is returned as the offset: every consumer reads the "
                             "p-value of a shifted bin whenever the two differ" % (base, ret0), rets[-1],
                             witness={"placed_relative_to": base, "returned": ret0}))
    elif not all(("largest - %s + 1" % base) in a for a in allocs if "largest" in a):
        out.append(violation("OFFSET", fi, role, "table size does not use the same offset: %s" % allocs, fi.node))
    else:
        out.append(holds("OFFSET", fi, role, "idx = score - %s; size largest - %s + 1; return %s" % (base, base, ret0), rets[-1]))
    # consumers
    role = "consumers use the returned offset with the matching sign (threshold: bin + offset; lookup: bin - offset)"
    a = repo.func(F + "._all_pwm_to_mapping")
    f = repo.func(F + ".fimo")
    k = repo.func(F + "._fast_hits")
    from ..terms import TermEval, canon
    from ..front import parent_map

    def coeff_signs(rat, needle):
        """signs of the coefficients of the monomials of a polynomial that contain an atom mentioning `needle`"""
        if rat is None or not rat.is_poly():
            return None
        sg = set()
        for m, c in rat.n.items():
            if any(needle in k_ for k_, _ in m):
                sg.add(1 if c > 0 else -1)
        return sg
    ta = [unparse(s) for s in walk_no_nested(a.node) if isinstance(s, ast.Assign)]
    okp = any(t.startswith("smallest, logpdf = _pwm_to_mapping(") for t in ta) and "smallests[i] = smallest" in ta
    # threshold: (first bin + offset) * bin_size   -> coefficient of the offset atom positive
    th = [s for s in walk_no_nested(f.node) if isinstance(s, ast.Assign) and isinstance(s.targets[0], ast.Subscript)
          and unparse(s.targets[0].value) == "_score_thresholds" and "_smallest" in unparse(s.value)]
    sg_t = coeff_signs(TermEval().ev(th[0].value), "_smallest)") if len(th) == 1 else None
    # lookup: int(score / bin) - offset (+ table start) -> coefficient negative; evaluated over the block that appends the hit
    pm_k = parent_map(k.node)
    si = [s for s in walk_no_nested(k.node) if isinstance(s, (ast.Assign, ast.AugAssign)) and
          unparse(s.target if isinstance(s, ast.AugAssign) else s.targets[0]) == "score_idx"]
    sg_k = None
    if si:
        blk = pm_k.get(si[0])
        te = TermEval()
        te.run([x for x in getattr(blk, "body", []) if isinstance(x, (ast.Assign, ast.AugAssign))])
        sg_k = coeff_signs(te.env.get("score_idx"), "*smallest)")
    if okp and sg_t == {1} and sg_k == {-1}:
        out.append(holds("OFFSET", f, role, "threshold: +offset (%s); lookup: -offset (%s)" % (unparse(th[0].value), "; ".join(unparse(x) for x in si)), f.node))
    elif okp and sg_t is not None and sg_k is not None and sg_t and sg_k and (sg_t != {1} or sg_k != {-1}):
        out.append(violation("OFFSET", f, role, "offset is applied with the wrong sign (threshold %s, lookup %s)" % (sorted(sg_t), sorted(sg_k)), th[0] if sg_t != {1} else si[0]))
    else:
        out.append(unrecognised("OFFSET", f, role, "consumer statements not recognised (producer=%s threshold=%s lookup=%s)" % (okp, sg_t, sg_k)))
    return out


def mono_rule(fi):
    role = "survival function by suffix accumulation t[i] = logaddexp2(t[i], t[i+1]) for i = len-2 .. 0"
    rets = [n for n in walk_no_nested(fi.node) if isinstance(n, ast.Return)]
    if not rets or not isinstance(rets[-1].value, ast.Tuple) or len(rets[-1].value.elts) != 2:
        return [unrecognised("R-MONO", fi, role, "return (smallest, table) not found")]
    tab = unparse(rets[-1].value.elts[1])
    loops = [s for s in fi.node.body if isinstance(s, ast.For)]
    cand = None
    for l in loops:
        if len(l.body) == 1 and isinstance(l.body[0], ast.Assign) and isinstance(l.body[0].targets[0], ast.Subscript) \
                and unparse(l.body[0].targets[0].value) == tab and isinstance(l.target, ast.Name):
            cand = l
    if cand is None:
        return [violation("R-MONO", fi, role, "no accumulation loop over the returned table `%s`" % tab, rets[-1])]
    i = cand.target.id
    st = unparse(cand.body[0])
    ok_body = st in ("%s[%s] = logaddexp2(%s[%s], %s[%s + 1])" % (tab, i, tab, i, tab, i),
                     "%s[%s] = logaddexp2(%s[%s + 1], %s[%s])" % (tab, i, tab, i, tab, i))
    rng = unparse(cand.iter)
    ok_rng = rng in ("range(len(%s) - 2, -1, -1)" % tab, "reversed(range(len(%s) - 1))" % tab,
                     "range(%s.shape[0] - 2, -1, -1)" % tab)
    last = fi.node.body.index(cand) == len(fi.node.body) - 2
    if not ok_body:
        return [violation("R-MONO", fi, role, "accumulation step is `%s`" % st, cand.body[0])]
    if not ok_rng:
        if rng.startswith("range(len(%s) - 2" % tab) or rng.startswith("range(0") or rng.startswith("range(len(%s)" % tab):
            return [violation("R-MONO", fi, role, "accumulation runs over `%s`: not a complete right-to-left sweep" % rng, cand)]
        return [unrecognised("R-MONO", fi, role, "loop range `%s`" % rng, cand)]
    if not last:
        return [violation("R-MONO", fi, role, "the table is modified again after the accumulation", cand)]
    return [holds("R-MONO", fi, role, "%s over %s, directly before the return" % (st, rng), cand)]


def scratch_rule(fi):
    """arrays allocated with numpy.empty at top level must be fully stored before any read on every path"""
    out = []
    empties = [s for s in fi.node.body if isinstance(s, ast.Assign) and isinstance(s.value, ast.Call)
               and dotted(s.value.func) in ("numpy.empty", "numpy.empty_like", "np.empty") and isinstance(s.targets[0], ast.Name)]
    for a in empties:
        name = a.targets[0].id
        role = "numpy.empty array `%s` is fully stored before it is read on every path" % name
        state = "uninit"
        verdict = None
        for s in fi.node.body[fi.node.body.index(a) + 1:]:
            if isinstance(s, ast.Assign) and isinstance(s.targets[0], ast.Subscript) and unparse(s.targets[0]) in (name + "[:]", name + "[...]") \
                    and not _reads(s.value, name):
                state = "init"
                continue
            if isinstance(s, ast.Assign) and isinstance(s.targets[0], ast.Name) and s.targets[0].id == name:
                state = "init"
                continue
            if isinstance(s, (ast.For, ast.While)):
                # a loop may run zero times: writes inside do not initialise for what follows;
                # reads inside are fine only if a full reset precedes them within the iteration
                if state == "uninit":
                    r = _first_read_unprotected(s, name)
                    if r is not None:
                        verdict = violation("R-SCRATCH", fi, role,
                                            "`%s` is read at %s but no full store of the numpy.empty array precedes it on the path where the "
                                            "earlier loops run zero times (one-column PWM)" % (unparse(r)[:50], fi.line(r)), r,
                                            witness={"path": "loops before this read execute zero times", "array": name})
                        break
                continue
            if _reads(s, name) and state == "uninit":
                verdict = violation("R-SCRATCH", fi, role, "read of uninitialised `%s` in `%s`" % (name, unparse(s)[:50]), s)
                break
        out.append(verdict or holds("R-SCRATCH", fi, role, "full store dominates every read (zero-iteration paths included)", a))
    if not empties:
        out.append(holds("R-SCRATCH", fi, "no numpy.empty table in _pwm_to_mapping", "nothing to initialise", fi.node, nontrivial=False))
    return out


def _reads(node, name):
    for n in ast.walk(node):
        if isinstance(n, ast.Name) and n.id == name and isinstance(n.ctx, ast.Load):
            return True
    return False


def _first_read_unprotected(loop, name):
    """first read of `name` in the loop body not preceded (in the same body) by a full reset loop/store"""
    protected = False
    for s in loop.body:
        if isinstance(s, ast.For) and len(s.body) == 1 and isinstance(s.body[0], ast.Assign) \
                and isinstance(s.body[0].targets[0], ast.Subscript) and unparse(s.body[0].targets[0].value) == name \
                and not _reads(s.body[0].value, name) and "largest - smallest + 1" in unparse(s.iter):
            protected = True
            continue
        if isinstance(s, ast.Assign) and isinstance(s.targets[0], ast.Subscript) and unparse(s.targets[0]) == name + "[:]":
            protected = True
            continue
        for n in ast.walk(s):
            if isinstance(n, ast.Name) and n.id == name and isinstance(n.ctx, ast.Load):
                # a pure store target `name[i] = ...` has ctx Load on the Name too: distinguish
                pass
        if not protected:
            for n in ast.walk(s):
                if isinstance(n, ast.Subscript) and isinstance(n.value, ast.Name) and n.value.id == name and isinstance(n.ctx, ast.Load):
                    return n
                if isinstance(n, ast.Call):
                    for a in n.args:
                        if isinstance(a, ast.Name) and a.id == name:
                            return a
    return None


def dp_rules(fi):
    out = []
    src = [unparse(s) for s in walk_no_nested(fi.node) if isinstance(s, (ast.Assign, ast.AugAssign))]
    role = "table extent covers [smallest, largest] of the attainable integer scores"
    alloc = [t for t in src if "numpy.empty(" in t or "numpy.ones(" in t or "numpy.full(" in t or "numpy.zeros(" in t]
    ok = any("largest - smallest + 1" in t for t in alloc) and len(alloc) >= 2
    out.append((holds if ok else unrecognised)("DP", fi, role, "; ".join(alloc)[:120], fi.node, nontrivial=False))
    role = "convolution step adds the column's log-probability mass at the shifted score: logpdf[j + s] (+)= log_bg + old[j]"
    conv = [t for t in src if t.startswith("logpdf[idx] = logaddexp2(")]
    idx = [t for t in src if t.startswith("idx = j + int_log_pwm[")]
    ok = conv == ["logpdf[idx] = logaddexp2(logpdf[idx], log_bg + x)"] and idx == ["idx = j + int_log_pwm[k, i]"]
    out.append((holds if ok else unrecognised)("DP", fi, role, "; ".join(idx + conv), fi.node, nontrivial=False))
    role = "background probability is uniform over four characters (log2 0.25)"
    ok = "log_bg = math.log2(0.25)" in src
    out.append((holds if ok else unrecognised)("DP", fi, role, "log_bg", fi.node, nontrivial=False))
    return out


LEVEL_TEXT = ("Necessary structural conditions of a correct p-value table: no fast-math assumptions on code that branches on "
              "infinities, the -inf special case before the arithmetic, the survival function produced by a complete right-to-left "
              "accumulation (so it is non-increasing), and definite initialisation of the numpy.empty table on every path.")
LEVEL_NOTE = ("Decides: fast-math contradiction, -inf guard, accumulation shape/range, def-before-use of the table (incl. one-column "
              "PWMs). NOT decided (not applicable to static analysis): exactness of the table against the true tail distribution, the "
              "value 1 at the lowest score, dependence on bin size/pseudocount - numerical identities. DP statements are compared "
              "to their confirmed form (deviation = ANALYSIS-ERROR, never an alarm).")
TECHNIQUE = "contradiction rule on JIT flags + def-before-use (zero-iteration paths) + structural accumulation rule over ast"
