"""C04 - DeepLIFT/SHAP attributions sum to the prediction difference from reference (local algebraic / structural clauses)."""
from ..core import holds, violation, unrecognised
from . import dls

ID = "C04"
ANCHORS = 'deep_lift_shap._nonlinear,deep_lift_shap.hypothetical_attributions,deep_lift_shap._register_hooks,deep_lift_shap._fp_hook,deep_lift_shap._f_hook,deep_lift_shap._b_hook,deep_lift_shap.deep_lift_shap'.split(",")
MIN_INSTANCES = 9
# rule families whose findings in this module are derived by an engine (not by comparing spellings): exempt from the rewrite gate
SEMANTIC_RULES = {"REFGRAD"}
EXPLANATION = (
    "R-TERM (local, algebraic): the backward rule deep_lift_shap._nonlinear is evaluated symbolically into a rational normal form "
    "(polynomials over first/second halves of module.input/output and the incoming gradients); on the non-fallback arm the "
    "returned multiplier times (in(x) - in(ref)) has the same normal form as grad_output times (out(x) - out(ref)) - the per-layer "
    "summation-to-delta identity for every element-wise op and every input outside the fallback band. R-TABLE: every activation "
    "the property enumerates maps to that rule, MaxPool1d/2d to the max-pool rule, no linear layer is hooked (autograd propagates "
    "them through their transpose). HOOKS: three hooks on exactly the table's types, captures are detached clones, dispatch by "
    "module type. HALVES: [examples; references] order, gradient of y.sum() w.r.t. the example half, orientation of the built-in "
    "convergence check. hypothetical_attributions: projection formula and linearity in the reference (needed for non-one-hot "
    "references)."
)
ASSUMPTIONS = ["torch.autograd applies the chain rule through un-hooked (linear) layers; full-backward hooks replace grad_input",
               "NOT decided (numerical, not applicable to static analysis): the global identity through autograd on concrete networks, the "
               "max-pool rule's correctness, floating-point tolerance, absence of warnings"]


def run(repo, tier):
    out = []
    r, t = dls.rescale_rule(repo)
    out += r
    if t is not None:
        out += dls.summation_identity(repo, t, repo.func(dls.D + "._nonlinear"))
    tr, _ = dls.table_rule(repo)
    out += tr
    out += dls.hooks_rule(repo)
    out += dls.halves_rule(repo)
    out += dls.hypothetical_rule(repo)
    out += dls.processing_rule(repo)
    out += dls.maxpool_rule(repo)
    out += dls.refgrad_rule(repo)
    return out


LEVEL_TEXT = ("Symbolic (normal-form) proof of the per-layer summation-to-delta identity for the rescale rule as written, plus "
              "structural rules for the rule table, hook installation, batch-half conventions and the hypothetical projection - the "
              "necessary local conditions of completeness, valid for every architecture/input because they do not depend on them.")
LEVEL_NOTE = ("Decides: algebraic form of the rescale multiplier and its summation identity, table exhaustiveness w.r.t. the enumerated "
              "activations, hook set, half order / gradient target / convergence-check orientation, projection formula and its "
              "linearity in the reference. NOT decided (not applicable): the numerical completeness through autograd, max-pool rule, "
              "tolerances, warnings.")
TECHNIQUE = "symbolic term normal form (polynomial identity) + table/structural rules over ast"
