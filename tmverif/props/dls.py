"""Shared rules for the DeepLIFT/SHAP properties C04, C05, C06 (tangermeme/deep_lift_shap.py)."""
import ast
import re
from fractions import Fraction
from ..front import dotted, const_value, unparse, walk_no_nested, parent_map, kwarg
from ..core import holds, violation, unrecognised, named
from .. import terms

D = "deep_lift_shap"

ENUMERATED = ["ReLU", "ELU", "Tanh", "Sigmoid", "GELU", "SiLU", "Softplus", "LeakyReLU"]
LINEAR_KINDS = {"Linear", "Conv1d", "Conv2d", "Conv3d", "AvgPool1d", "AvgPool2d", "Flatten", "Unflatten", "Identity",
                "AdaptiveAvgPool1d", "BatchNorm1d", "Dropout", "ConvTranspose1d"}


def _where_call(fi):
    ws = [n for n in walk_no_nested(fi.node) if isinstance(n, ast.Call) and dotted(n.func) == "torch.where"]
    return ws


def nonlinear_terms(repo):
    """-> dict(cond, fallback, rescale, tau, te) of Rat terms for _nonlinear, or (None, reason)"""
    fi = repo.func(D + "._nonlinear")
    te = terms.TermEval()
    body = [s for s in fi.node.body if not (isinstance(s, ast.Expr) and isinstance(s.value, ast.Constant))]
    r = te.run(body)
    if r is None or isinstance(r, tuple):
        return None, "body of _nonlinear is outside the straight-line fragment", fi
    if isinstance(r, ast.Tuple) and len(r.elts) == 1:
        r = r.elts[0]
    if not (isinstance(r, ast.Call) and dotted(r.func) == "torch.where" and len(r.args) == 3):
        # maybe bound to a name
        if isinstance(r, ast.Name):
            return None, "returned value is not a direct torch.where(...)", fi
        return None, "returned value `%s` is not torch.where(cond, a, b)" % unparse(r)[:60], fi
    c, a, b = r.args
    # condition through names
    cnode = c
    if isinstance(c, ast.Name):
        for s in body:
            if isinstance(s, ast.Assign) and unparse(s.targets[0]) == c.id:
                cnode = s.value
    return {"cond_node": cnode, "cond": te.ev(c), "a": te.ev(a), "b": te.ev(b), "te": te, "ret": r}, "", fi


def rescale_rule(repo, rule_id="R-TERM"):
    """where(|d_in| < tau, ordinary gradient, grad_output * d_out / d_in) with d = first - second for both"""
    out = []
    t, why, fi = nonlinear_terms(repo)
    role = "_nonlinear returns where(|in(x)-in(ref)| < tau, ordinary gradient, grad_output * (out(x)-out(ref)) / (in(x)-in(ref)))"
    if t is None:
        return [unrecognised(rule_id, fi, role, why)], None
    te = t["te"]
    exp_src = ("din = torch.sub(*module.input.chunk(2))\ndout = torch.sub(*module.output.chunk(2))\n"
               "return grad_output[0] * dout / din\n")
    exp_rescale, _ = terms.eval_source(exp_src)
    exp_fallback, _ = terms.eval_source("return grad_input[0]\n")
    din, _ = terms.eval_source("return torch.sub(*module.input.chunk(2))\n")
    # condition: abs(din) < tau  (or its negation with the arms exchanged)
    cn = t["cond_node"]
    swapped = None
    tau = None
    if isinstance(cn, ast.Compare) and len(cn.ops) == 1:
        l, r_ = cn.left, cn.comparators[0]
        op = type(cn.ops[0]).__name__
        lt_like = {"Lt": False, "LtE": False, "Gt": True, "GtE": True}
        if op in lt_like:
            absside, cst = (l, r_) if const_value(r_) is not None else (r_, l)
            flip = lt_like[op] ^ (absside is r_)
            tau = const_value(cst)
            av = te.ev(absside)
            inner_ok = terms.canon(av) in ("1*abs(%s)" % terms.canon(din),)
            neg = terms.canon(av) == "1*abs(%s)" % terms.canon(terms.Rat.const(0) - din)
            if inner_ok or neg:
                swapped = flip
    if swapped is None or not isinstance(tau, (int, float)):
        return [unrecognised(rule_id, fi, role, "condition `%s` is not |delta_in| <op> constant" % unparse(cn)[:60], cn)], t
    small_arm, large_arm = (t["b"], t["a"]) if swapped else (t["a"], t["b"])
    v1 = terms.compare(large_arm, exp_rescale, te)
    v2 = terms.compare(small_arm, exp_fallback, te)
    if not (0 < tau <= 1e-4):
        out.append(violation(rule_id, fi, role, "switch threshold is %r: the ordinary derivative is used for inputs that differ by up to that much" % tau, cn))
    elif v1 == "EQUAL" and v2 == "EQUAL":
        out.append(holds(rule_id, fi, role, "normal form of both arms equals the rule (tau = %g)" % tau, t["ret"]))
    elif terms.compare(small_arm, exp_rescale, te) == "EQUAL" and terms.compare(large_arm, exp_fallback, te) == "EQUAL":
        out.append(violation(rule_id, fi, role, "the arms of torch.where are exchanged: the ratio is used where the inputs coincide (division by ~0) and the "
                             "plain gradient elsewhere", t["ret"]))
    elif v1 == "DIFFERENT" or v2 == "DIFFERENT":
        which = "rescale arm" if v1 == "DIFFERENT" else "fallback arm"
        got = large_arm if v1 == "DIFFERENT" else small_arm
        exp = exp_rescale if v1 == "DIFFERENT" else exp_fallback
        out.append(violation(rule_id, fi, role, "%s differs from the rule" % which, t["ret"],
                             witness={"got": terms.canon(got)[:400], "expected": terms.canon(exp)[:400]}))
    else:
        out.append(unrecognised(rule_id, fi, role, "term contains operators outside the fragment: %s" % sorted(te.opaque)[:3], t["ret"]))
    return out, t


def summation_identity(repo, t, fi):
    """(rescale arm) * delta_in == grad_output * delta_out  (per-layer summation-to-delta)"""
    role = "per-layer summation-to-delta: multiplier * (in(x)-in(ref)) == grad_output * (out(x)-out(ref)) outside the fallback band"
    din, _ = terms.eval_source("return torch.sub(*module.input.chunk(2))\n")
    dout, _ = terms.eval_source("return torch.sub(*module.output.chunk(2))\n")
    go, _ = terms.eval_source("return grad_output[0]\n")
    exp_rescale, _ = terms.eval_source("din = torch.sub(*module.input.chunk(2))\ndout = torch.sub(*module.output.chunk(2))\nreturn grad_output[0] * dout / din\n")
    arm = t["b"] if terms.compare(t["b"], exp_rescale, t["te"]) != "DIFFERENT" or True else t["a"]
    # pick the arm that is not the plain gradient
    gi, _ = terms.eval_source("return grad_input[0]\n")
    arm = t["a"] if t["b"].equals(gi) else t["b"]
    lhs = arm * din
    rhs = go * dout
    if lhs.equals(rhs):
        return [holds("R-TERM", fi, role, "multiplier * delta_in and grad_output * delta_out have identical normal forms (cancellation)", t["ret"])]
    if any(a.startswith("?") for a in lhs.atoms()):
        return [unrecognised("R-TERM", fi, role, "opaque operators in the multiplier")]
    return [violation("R-TERM", fi, role, "multiplier * delta_in does not reduce to grad_output * delta_out", t["ret"],
                      semantic=terms.structural_difference(lhs, rhs), witness={"lhs": terms.canon(lhs)[:300], "rhs": terms.canon(rhs)[:300]})]


def table_rule(repo, rule="R-TABLE"):
    fi = repo.func(D + ".deep_lift_shap")
    out = []
    role = "rule table maps every supported element-wise activation to the rescale rule and max-pooling to the max-pool rule"
    tabs = [s for s in walk_no_nested(fi.node) if isinstance(s, ast.Assign) and isinstance(s.value, ast.Dict)
            and unparse(s.targets[0]) == "_NON_LINEAR_OPS"]
    mod_tabs = [s for s in repo.mod(D).tree.body if isinstance(s, ast.Assign) and isinstance(s.value, ast.Dict)
                and any("_NON_LINEAR_OPS" in unparse(t) or "NON_LINEAR" in unparse(t).upper() for t in s.targets)]
    tab = tabs[0] if tabs else (mod_tabs[0] if mod_tabs else None)
    if tab is None:
        return [unrecognised(rule, fi, role, "dict literal of the rule table not found")], None
    m = {}
    for k, v in zip(tab.value.keys, tab.value.values):
        m[unparse(k).split(".")[-1]] = unparse(v)
    missing = [a for a in ENUMERATED if m.get(a) != "_nonlinear"]
    lin = [k for k in m if k in LINEAR_KINDS]
    if missing:
        a = missing[0]
        out.append(violation(rule, fi, role, "`%s` is %s: its backward pass is the ordinary gradient, so completeness fails for models using it" % (
            a, ("mapped to `%s`" % m[a]) if a in m else "missing from the table"), tab))
    elif m.get("MaxPool1d") != "_maxpool" or m.get("MaxPool2d") != "_maxpool":
        out.append(violation(rule, fi, role, "max-pooling is mapped to %s / %s" % (m.get("MaxPool1d"), m.get("MaxPool2d")), tab))
    elif lin:
        out.append(violation(rule, fi, role, "linear layer `%s` is in the table: autograd already propagates multipliers through its transpose" % lin[0], tab))
    else:
        out.append(holds(rule, fi, role, "%d entries; %s -> _nonlinear; MaxPool1d/2d -> _maxpool; no linear layer" % (len(m), ", ".join(ENUMERATED)), tab))
    # the table handed to the modules is private to the call (overrides from additional_nonlinear_ops must not persist)
    role = "the rule table is built per call: additional_nonlinear_ops never modifies state shared with later calls"
    local = bool(tabs)
    stores = [s for s in walk_no_nested(fi.node) if isinstance(s, ast.Assign) and isinstance(s.targets[0], ast.Subscript)
              and "NON_LINEAR" in unparse(s.targets[0].value).upper() and not isinstance(s.targets[0].value, ast.Attribute)]
    upd = [n for n in walk_no_nested(fi.node) if isinstance(n, ast.Call) and isinstance(n.func, ast.Attribute) and n.func.attr == "update"
           and "NON_LINEAR" in unparse(n.func.value).upper()]
    if not local:
        # module-level table: fine only if it is copied before being updated
        copies = [s for s in walk_no_nested(fi.node) if isinstance(s, ast.Assign) and isinstance(s.value, ast.Call)
                  and (dotted(s.value.func) in ("dict", "copy.copy", "copy.deepcopy") or (isinstance(s.value.func, ast.Attribute) and s.value.func.attr == "copy"))
                  and "NON_LINEAR" in unparse(s.value).upper()]
        tgt_names = {unparse(s.targets[0]) for s in copies}
        bad = [s for s in stores if unparse(s.targets[0].value) not in tgt_names] + [u for u in upd if unparse(u.func.value) not in tgt_names]
        if bad:
            out.append(violation(rule, fi, role, "`%s` writes a module-level table: an override given in one call changes the rule used by every later call "
                                 "(history dependence)" % unparse(bad[0])[:60], bad[0]))
        else:
            out.append(holds(rule, fi, role, "module-level table is copied before updates", tab))
    else:
        out.append(holds(rule, fi, role, "dict literal is evaluated inside the call; %d update site(s) write the local dict" % (len(stores) + len(upd)), tab))
    return out, m


def _ungated_registration(reg):
    """None when every path of _register_hooks that performs a register_* call has decided `isinstance(module, <table keys>)` true;
    otherwise the decisions of an offending path ('?' if paths cannot be enumerated)"""
    from .. import equiv
    try:
        paths = equiv.path_facts(reg.node)
    except equiv.TooManyPaths:
        return "?"
    seen = False
    for p in paths:
        effs = equiv.flatten_effects(p["effects"])
        if not any(len(e) > 2 and e[1] == "call" and ".register_" in str(e[2]) for e in effs):
            continue
        seen = True
        if not any(k.startswith("isinstance(module,") and "_NON_LINEAR_OPS" in k and v for k, v in p["decisions"].items()):
            return p["decisions"]
    return None if seen else "?"


def hooks_rule(repo):
    out = []
    reg = repo.func(D + "._register_hooks")
    role = "forward-pre, forward and full-backward hooks are installed on exactly the modules whose type is in the table"
    src = [unparse(s) for s in walk_no_nested(reg.node) if isinstance(s, (ast.Expr, ast.If))]
    kinds = sorted(n.func.attr for n in walk_no_nested(reg.node) if isinstance(n, ast.Call) and isinstance(n.func, ast.Attribute) and n.func.attr.startswith("register_"))
    gate = [n for n in reg.node.body if isinstance(n, ast.If) and "isinstance(module, tuple(module._NON_LINEAR_OPS.keys()))" in unparse(n.test)]
    if kinds != ["register_forward_hook", "register_forward_pre_hook", "register_full_backward_hook"]:
        out.append(violation("HOOKS", reg, role, "registered hooks: %s" % kinds, reg.node))
    elif _ungated_registration(reg) is not None:
        g = _ungated_registration(reg)
        if g == "?":
            out.append(unrecognised("HOOKS", reg, role, "paths of _register_hooks could not be enumerated", reg.node))
        else:
            out.append(violation("HOOKS", reg, role, "a path registers hooks without `isinstance(module, tuple(module._NON_LINEAR_OPS.keys()))` "
                                 "being true: decisions %s" % g, reg.node, semantic=True, witness={"decisions": g}))
    else:
        m = {n.func.attr: unparse(n.args[0]) for n in walk_no_nested(reg.node) if isinstance(n, ast.Call) and isinstance(n.func, ast.Attribute) and n.func.attr.startswith("register_")}
        ok = m == {"register_forward_hook": "_f_hook", "register_forward_pre_hook": "_fp_hook", "register_full_backward_hook": "_b_hook"}
        out.append((holds if ok else violation)("HOOKS", reg, role, str(m), reg.node))
    # converse: a module whose type IS in the table is skipped only when it already carries the full-backward hook this code installs
    role_skip = "a supported module is skipped only when it already carries this code's own backward hook (never because of somebody else's hooks)"
    pm_ = parent_map(reg.node)
    bad_skip, odd_skip, n_skip = None, None, 0
    for r_ in walk_no_nested(reg.node):
        if isinstance(r_, ast.Return) and r_.value is None:
            n_skip += 1
            ctx, x_ = [], r_
            while x_ in pm_:
                x_ = pm_[x_]
                if isinstance(x_, ast.If):
                    ctx.append(unparse(x_.test))
                elif isinstance(x_, ast.For):
                    ctx.append(unparse(x_.iter))
            text = " ; ".join(ctx)
            if "_forward_hooks" in text or "_forward_pre_hooks" in text or "_state_dict_hooks" in text:
                bad_skip = bad_skip or (r_, text)
            elif not ("_backward_hooks" in text or "handles" in text or "isinstance(module" in text):
                odd_skip = odd_skip or (r_, text)
    if bad_skip:
        out.append(named("HOOKS", reg, role_skip, "the early return under `%s` also fires for a module that carries an unrelated forward / forward-pre hook "
                         "(e.g. one that records activations): that layer gets the ordinary gradient instead of the rescale rule" % bad_skip[1][:80], bad_skip[0]))
    elif odd_skip:
        out.append(unrecognised("HOOKS", reg, role_skip, "early return under `%s`" % odd_skip[1][:80], odd_skip[0]))
    else:
        out.append(holds("HOOKS", reg, role_skip, "%d early return(s): own backward hook / type not in the table" % n_skip, reg.node, nontrivial=False))
    role = "captured activations are detached clones of the concatenated [examples; references] batch; the backward hook dispatches on the module type"
    fp, f, b = repo.func(D + "._fp_hook"), repo.func(D + "._f_hook"), repo.func(D + "._b_hook")
    t = [unparse(x.body[-1]) for x in (fp.node, f.node, b.node)]
    ok = t == ["module.input = torch.clone(inputs[0]).detach()", "module.output = torch.clone(outputs).detach()",
               "return module._NON_LINEAR_OPS[type(module)](module, grad_input, grad_output)"]
    if ok:
        out.append(holds("HOOKS", fp, role, "; ".join(t), fp.node))
    elif "module.input = outputs" in t[0] or "module.output = inputs" in t[1]:
        out.append(violation("HOOKS", fp, role, "input/output captures are exchanged: %s" % t[:2], fp.node))
    else:
        out.append(unrecognised("HOOKS", fp, role, "; ".join(t)))
    return out


def halves_rule(repo):
    fi = repo.func(D + ".deep_lift_shap")
    out = []
    src = [unparse(s) for s in walk_no_nested(fi.node) if isinstance(s, ast.Assign)]
    role = "examples occupy the first half of the batch and references the second (every rule relies on chunk(2))"
    if "X_ = torch.cat([_X, _references])" in src:
        out.append(holds("HALVES", fi, role, "X_ = torch.cat([_X, _references])", fi.node))
    elif "X_ = torch.cat([_references, _X])" in src:
        out.append(violation("HALVES", fi, role, "references come first: first - second becomes ref - x in every rule and the gradient is taken of the wrong half", fi.node))
    else:
        out.append(unrecognised("HALVES", fi, role, str([x for x in src if x.startswith("X_ =")])))
    role = "the gradient of the summed target output is taken with respect to the example half only"
    g = [x for x in src if "torch.autograd.grad(" in x]
    y = [x for x in src if x.startswith("y = model(")]
    ok = g == ["multipliers = torch.autograd.grad(y.sum(), _X)[0]"] and sorted(y) == ["y = model(X_)[:, target]", "y = model(X_, *_args)[:, target]"]
    if ok:
        out.append(holds("HALVES", fi, role, g[0], fi.node))
    elif g and "_references" in g[0]:
        out.append(violation("HALVES", fi, role, "gradient taken w.r.t. the references: `%s`" % g[0], fi.node))
    elif g and "X_" in g[0].split(",")[-1]:
        out.append(violation("HALVES", fi, role, "gradient taken w.r.t. the concatenated batch: `%s`" % g[0], fi.node))
    else:
        out.append(unrecognised("HALVES", fi, role, "%s | %s" % (g, y)))
    role = "extra arguments are duplicated for both halves"
    a = [x for x in src if x.startswith("_args = (torch.cat") or x.startswith("_args = [torch.cat") or x.startswith("_args = tuple(torch.cat")]
    ok = a in (["_args = (torch.cat([arg, arg]) for arg in _args)"], ["_args = [torch.cat([arg, arg]) for arg in _args]"],
               ["_args = tuple((torch.cat([arg, arg]) for arg in _args))"])
    out.append((holds if ok else unrecognised)("HALVES", fi, role, str(a), fi.node, nontrivial=False))
    role = "the built-in convergence check compares (y_x - y_ref) with sum((x - ref) * multipliers) and only warns"
    need = ["output_diff = torch.sub(*torch.chunk(y, 2))", "input_diff = torch.sum((_X - _references) * multipliers, dim=(1, 2))",
            "convergence_deltas = abs(output_diff - input_diff)"]
    warn = [n for n in walk_no_nested(fi.node) if isinstance(n, ast.Call) and dotted(n.func) == "warnings.warn"]
    # the multipliers the check multiplies with (x - ref) are the ones autograd returned: sum((x - ref) * m) = f(x) - f(ref) holds for the
    # raw multipliers, not for their projection onto the characters (which equals it only for references whose columns sum to one)
    grads = [n for n in walk_no_nested(fi.node) if isinstance(n, ast.Assign) and len(n.targets) == 1 and isinstance(n.targets[0], ast.Name)
             and any(isinstance(c, ast.Call) and dotted(c.func) == "torch.autograd.grad" for c in ast.walk(n.value))]
    moved = None
    if grads:
        m_ = grads[0].targets[0].id
        uses = [n for n in walk_no_nested(fi.node) if isinstance(n, ast.Assign) and any(isinstance(x, ast.Name) and x.id == m_ for x in ast.walk(n.value))
                and any(isinstance(x, ast.Name) and x.id == "_references" for x in ast.walk(n.value)) and n.lineno > grads[0].lineno
                and not any(isinstance(c, ast.Call) and dotted(c.func) == "hypothetical_attributions" for c in ast.walk(n.value))]
        if uses:
            between = [n for n in walk_no_nested(fi.node) if isinstance(n, ast.Assign) and any(isinstance(t, ast.Name) and t.id == m_ for t in n.targets)
                       and grads[0].lineno < n.lineno < uses[0].lineno]
            if between:
                moved = (between[0], uses[0])
    if moved:
        out.append(named("HALVES", fi, role, "`%s` (line %d) rebinds the multipliers between the gradient and the convergence check (line %d): the check sums "
                         "(x - ref) * projected attributions, which differs from f(x) - f(ref) for references whose columns do not sum to one - spurious "
                         "warnings" % (unparse(moved[0])[:50], moved[0].lineno, moved[1].lineno), moved[0]))
    elif [x for x in src if x in need] == need and warn:
        out.append(holds("HALVES", fi, role, "; ".join(need), warn[0]))
    elif any("(_references - _X) * multipliers" in x for x in src):
        out.append(violation("HALVES", fi, role, "input difference has the opposite orientation of the output difference", fi.node))
    else:
        out.append(unrecognised("HALVES", fi, role, str([x for x in src if "diff" in x])))
    return out


def hypothetical_rule(repo):
    """column k of hypothetical_attributions = sum_c (e_k - ref)[c] * m[c]; linear in the reference"""
    fi = repo.func(D + ".hypothetical_attributions")
    out = []
    role = "projection for character k is sum over characters of (e_k - reference) * multipliers"
    loops = [n for n in fi.node.body if isinstance(n, ast.For)]
    loop = None
    for l in loops:
        if any(isinstance(s, ast.Assign) and isinstance(s.targets[0], ast.Subscript) and unparse(s.targets[0].value) == "projected_contribs" for s in l.body):
            loop = l
    # LINEAR-REF first (works for any rewrite)
    role_lin = "the projection depends on the reference only through linear operations (required for non-one-hot references)"
    nonlin = []
    pm = parent_map(fi.node)
    body_after_checks = [s for s in fi.node.body if not (isinstance(s, ast.For) and any(isinstance(x, ast.Raise) for x in ast.walk(s)))]
    tainted = {"references"}
    for s in body_after_checks:
        for n in ast.walk(s):
            if isinstance(n, ast.Assign) and any(isinstance(x, ast.Name) and x.id in tainted for x in ast.walk(n.value)):
                for t in n.targets:
                    for x in ast.walk(t):
                        if isinstance(x, ast.Name) and isinstance(x.ctx, ast.Store):
                            tainted.add(x.id)
    NONLIN = {"argmax", "argmin", "max", "min", "gather", "sort", "argsort", "topk", "abs", "sign", "round", "where", "nonzero", "bool",
              "clamp", "relu", "softmax", "exp", "log", "eq", "ne", "gt", "lt", "masked_fill", "scatter", "unique"}
    for s in body_after_checks:
        for n in ast.walk(s):
            if isinstance(n, ast.Call):
                name = n.func.attr if isinstance(n.func, ast.Attribute) else (dotted(n.func) or "").split(".")[-1]
                if name in NONLIN:
                    args = list(n.args) + ([n.func.value] if isinstance(n.func, ast.Attribute) else [])
                    if any(isinstance(x, ast.Name) and x.id in tainted for a in args for x in ast.walk(a)):
                        nonlin.append((n, name))
            if isinstance(n, ast.Compare) and any(isinstance(x, ast.Name) and x.id in tainted and x.id != "references" or
                                                  (isinstance(x, ast.Name) and x.id == "references" and not isinstance(pm.get(x), ast.Subscript))
                                                  for x in ast.walk(n)):
                pass
    if nonlin:
        out.append(named("LINEAR-REF", fi, role_lin, "the reference flows into `%s(...)`: the projection is only correct when every reference column is one-hot "
                             "(fails for zero / uniform / frequency baselines)" % nonlin[0][1], nonlin[0][0],
                             witness={"references": "all-zeros or uniform 0.25 baseline", "effect": "attributions no longer sum to f(x) - mean f(ref)"}))
    else:
        out.append(holds("LINEAR-REF", fi, role_lin, "no non-linear operation is applied to values derived from `references`", fi.node))
    if loop is None or not isinstance(loop.target, ast.Name):
        out.append(unrecognised("R-TERM", fi, role, "per-character loop with store into projected_contribs[:, i] not found"))
        return out
    iv = loop.target.id
    te = terms.TermEval()
    onehot = None
    store = None
    for s in loop.body:
        if isinstance(s, ast.Assign) and isinstance(s.targets[0], ast.Subscript) and unparse(s.targets[0]) == "hypothetical_input[:, %s]" % iv \
                and const_value(s.value) in (1, 1.0):
            te.env["hypothetical_input"] = te.atom("onehot(%s)" % iv)
            onehot = s
        elif isinstance(s, ast.Assign) and isinstance(s.targets[0], ast.Subscript) and unparse(s.targets[0]) == "projected_contribs[:, %s]" % iv:
            store = s
        elif isinstance(s, ast.Assign) and isinstance(s.targets[0], ast.Name):
            if s.targets[0].id == "hypothetical_input":
                z = unparse(s.value)
                if not z.startswith("torch.zeros_like(X[0]"):
                    out.append(violation("R-TERM", fi, role, "the hypothetical input starts from `%s`, not from zeros" % z[:50], s))
                    return out
                continue
            te.run([s])
    if onehot is None or store is None:
        out.append(unrecognised("R-TERM", fi, role, "loop body shape not recognised"))
        return out
    got = te.ev(store.value)
    exp_te = terms.TermEval({"hypothetical_input": terms.Rat.atom("onehot(%s)" % iv)})
    exp = exp_te.ev(ast.parse("torch.sum((hypothetical_input - references[0]) * multipliers[0], dim=1)", mode="eval").body)
    v = terms.compare(got, exp, te)
    if unparse(loop.iter) not in ("range(X[0].shape[1])", "range(multipliers[0].shape[1])", "range(references[0].shape[1])"):
        out.append(violation("R-TERM", fi, role, "loop runs over `%s`, not over the characters" % unparse(loop.iter), loop))
    elif v == "EQUAL":
        out.append(holds("R-TERM", fi, role, "stored term == sum((onehot(k) - references[0]) * multipliers[0], dim=1)", store))
    elif v == "DIFFERENT":
        out.append(violation("R-TERM", fi, role, "stored term differs from the rule", store, semantic=terms.structural_difference(got, exp), witness={"got": terms.canon(got)[:300], "expected": terms.canon(exp)[:300]}))
    else:
        out.append(unrecognised("R-TERM", fi, role, "opaque operators: %s" % sorted(te.opaque)[:3]))
    return out


def processing_rule(repo):
    fi = repo.func(D + ".deep_lift_shap")
    out = []
    src = [unparse(s) for s in walk_no_nested(fi.node) if isinstance(s, (ast.Assign, ast.AugAssign))]
    role = "processed output: project to hypothetical contributions, average over the example's references, mask by the observed characters unless hypothetical"
    need = ["multipliers = hypothetical_attributions((multipliers,), (_X,), (_references,))[0]", "attr_chunk = attr_chunk.mean(dim=0)", "attr_chunk *= X[z].cpu()"]
    has = [x for x in src if x in need]
    pm = parent_map(fi.node)
    mask = [s for s in walk_no_nested(fi.node) if isinstance(s, ast.AugAssign) and unparse(s) == "attr_chunk *= X[z].cpu()"]
    hyp = [s_ for s_ in walk_no_nested(fi.node) if isinstance(s_, ast.Assign) and unparse(s_) == need[0]]
    if hyp and not (isinstance(pm.get(hyp[0]), ast.If) and unparse(pm[hyp[0]].test) in ("raw_outputs == False", "not raw_outputs")):
        g0 = pm.get(hyp[0])
        out.append(violation("PROCESS", fi, role, "the hypothetical projection is applied under `%s`: raw multipliers are projected / processed ones are not" % (
            unparse(g0.test) if isinstance(g0, ast.If) else "no condition"), hyp[0]))
    elif has == need and mask:
        g = pm[mask[0]]
        g2 = pm[g] if isinstance(g, ast.If) else None
        ok = isinstance(g, ast.If) and unparse(g.test) in ("not hypothetical", "hypothetical == False") and isinstance(g2, ast.If) \
            and unparse(g2.test) in ("raw_outputs == False", "not raw_outputs")
        if ok:
            out.append(holds("PROCESS", fi, role, "; ".join(need), mask[0]))
        else:
            out.append(violation("PROCESS", fi, role, "masking is guarded by `%s`" % (unparse(g.test) if isinstance(g, ast.If) else "nothing"), mask[0]))
    elif any(x == "attr_chunk = attr_chunk.sum(dim=0)" for x in src):
        out.append(violation("PROCESS", fi, role, "references are summed instead of averaged", fi.node))
    elif any(x.startswith("attr_chunk *= _X") or x.startswith("attr_chunk *= X[Xi") for x in src):
        out.append(violation("PROCESS", fi, role, "mask uses the wrong example: %s" % [x for x in src if x.startswith("attr_chunk *=")], fi.node))
    else:
        out.append(unrecognised("PROCESS", fi, role, str([x for x in src if "attr_chunk" in x or "hypothetical_attributions" in x])[:300]))
    return out


def maxpool_rule(repo):
    """the max-pool backward rule recomputes the arg-max positions: it must do so with the module's own configuration"""
    fi = repo.func(D + "._maxpool")
    out = []
    role = "arg-max positions are recomputed with the pooled module's full configuration (kernel, stride, padding, dilation, ceil_mode)"
    pools = [n for n in walk_no_nested(fi.node) if isinstance(n, ast.Call) and unparse(n.func) == "pool_func"]
    if len(pools) != 1:
        out.append(unrecognised("MAXPOOL", fi, role, "pool_func call not found"))
    else:
        c = pools[0]
        used = {x.attr for a in list(c.args) + [k.value for k in c.keywords] for x in ast.walk(a)
                if isinstance(x, ast.Attribute) and isinstance(x.value, ast.Name) and x.value.id == "module"}
        need = {"kernel_size", "stride", "padding", "dilation", "ceil_mode"}
        miss = sorted(need - used)
        first = unparse(c.args[0]) if c.args else ""
        ri = (len(c.args) >= 7 and const_value(c.args[6]) is True) or const_value(kwarg(c, "return_indices")) is True
        pos = [unparse(a) for a in c.args[1:6]]
        order_ok = pos == ["module." + x for x in ("kernel_size", "stride", "padding", "dilation", "ceil_mode")][:len(pos)]
        if miss:
            out.append(violation("MAXPOOL", fi, role, "`module.%s` is not passed: the positions are recomputed with the default value, so for a module configured "
                                 "otherwise the output difference is routed to the wrong inputs" % miss[0], c, witness={"missing": miss}))
        elif first != "module.input" or not ri:
            out.append(violation("MAXPOOL", fi, role, "pooling is recomputed on `%s` (return_indices=%s)" % (first, ri), c))
        elif not order_ok:
            out.append(violation("MAXPOOL", fi, role, "positional arguments are out of order: %s" % pos, c))
        else:
            out.append(holds("MAXPOOL", fi, role, unparse(c)[:110], c))
    role = "un-pooling routes grad_output * delta_out back through the same positions and geometry"
    unp = [n for n in walk_no_nested(fi.node) if isinstance(n, ast.Call) and unparse(n.func) == "unpool_func"]
    if len(unp) != 1:
        out.append(unrecognised("MAXPOOL", fi, role, "unpool_func call not found"))
    else:
        a = [unparse(x) for x in unp[0].args]
        ok = a == ["grad_output[0] * delta_out", "indices", "module.kernel_size", "module.stride", "module.padding", "list(module.input.shape)"]
        out.append((holds if ok else unrecognised)("MAXPOOL", fi, role, ", ".join(a)[:120], unp[0], nontrivial=False))
    role = "delta_out is (max(out, out_ref) - out_ref ; out - max(out, out_ref)) over the two halves; the result falls back to the plain gradient where delta_in ~ 0"
    src = [unparse(s_) for s_ in walk_no_nested(fi.node) if isinstance(s_, ast.Assign)]
    need = ["delta_out_xmax = torch.max(output, output_ref)", "delta_out = torch.cat([delta_out_xmax - output_ref, output - delta_out_xmax])",
            "unpool_delta_ = unpool_delta + unpool_ref_delta", "new_grad_inp = torch.where(idxs, grad_input[0], unpool_delta / delta_in)"]
    ok = [x for x in src if x in need] == need
    out.append((holds if ok else unrecognised)("MAXPOOL", fi, role, "; ".join(need)[:160], fi.node, nontrivial=False))
    return out


def refgrad_rule(repo):
    """The gradient taken w.r.t. the example half must see the examples ONLY: a reference generator that is handed a tensor which already
    requires grad returns references attached to the same autograd graph (a differentiable generator - `ersatz.shuffle` indexes its
    input - makes d y / d _X collect the reference half as well, and the pair identity sum((x - ref) * m) = f(x) - f(ref) is lost).
    Flow-sensitive taint over the statements of deep_lift_shap (lexical order, loop bodies twice): a name is tainted when it is bound
    to an expression containing `.requires_grad_(..)` / `requires_grad=True`, or mentioning a tainted name outside `.detach()`;
    a call of the `references` callable must not mention a tainted name."""
    from ..core import named
    fi = repo.func(D + ".deep_lift_shap")
    role = "the reference generator is called on tensors that do not require grad (references stay outside the examples' autograd graph)"
    calls = [n for n in ast.walk(fi.node) if isinstance(n, ast.Call) and isinstance(n.func, ast.Name) and n.func.id == "references"]
    if not calls:
        return [unrecognised("REFGRAD", fi, role, "no call of the `references` callable found", fi.node)]
    tainted = set()
    bad = []

    def mentions_tainted(e):
        skip = set()
        for n in ast.walk(e):
            if isinstance(n, ast.Call) and isinstance(n.func, ast.Attribute) and n.func.attr in ("detach", "numpy", "tolist", "item"):
                skip |= {id(x) for x in ast.walk(n)}
        return any(isinstance(n, ast.Name) and n.id in tainted and id(n) not in skip and isinstance(n.ctx, ast.Load) for n in ast.walk(e))

    def makes_grad(e):
        for n in ast.walk(e):
            if isinstance(n, ast.Call) and isinstance(n.func, ast.Attribute) and n.func.attr == "requires_grad_" and \
                    not (n.args and const_value(n.args[0]) is False):
                return True
            if isinstance(n, ast.keyword) and n.arg == "requires_grad" and const_value(n.value) is True:
                return True
        return False

    def visit(stmts):
        for st in stmts:
            if isinstance(st, (ast.FunctionDef, ast.ClassDef)):
                continue
            heads = []
            if isinstance(st, (ast.If, ast.While)):
                heads = [st.test]
            elif isinstance(st, ast.For):
                heads = [st.iter]
            elif isinstance(st, ast.With):
                heads = [i.context_expr for i in st.items]
            simple = [st] if not hasattr(st, "body") else heads
            for part in simple:
                for c in ast.walk(part):
                    if isinstance(c, ast.Call) and isinstance(c.func, ast.Name) and c.func.id == "references" and \
                            any(mentions_tainted(a) for a in list(c.args) + [k.value for k in c.keywords]) and c not in bad:
                        bad.append(c)
            if isinstance(st, ast.Assign) and all(isinstance(t, ast.Name) for t in st.targets):
                t_ = makes_grad(st.value) or mentions_tainted(st.value)
                for t in st.targets:
                    (tainted.add if t_ else tainted.discard)(t.id)
            elif isinstance(st, ast.Expr) and isinstance(st.value, ast.Call) and isinstance(st.value.func, ast.Attribute) and \
                    st.value.func.attr == "requires_grad_" and isinstance(st.value.func.value, ast.Name):
                tainted.add(st.value.func.value.id)
            if isinstance(st, (ast.For, ast.While)):
                visit(st.body)
                visit(st.body)
                visit(st.orelse)
            else:
                for f in ("body", "orelse", "finalbody"):
                    visit(getattr(st, f, []) or [])
                for h in getattr(st, "handlers", []) or []:
                    visit(h.body)
    visit(fi.node.body)
    if bad:
        return [named("REFGRAD", fi, role, "`%s` receives a tensor that already requires grad: references produced by a differentiable generator "
                      "(ersatz.shuffle) join the autograd graph of the examples" % unparse(bad[0])[:70], bad[0])]
    return [holds("REFGRAD", fi, role, "%d generator call(s), none on a tensor that requires grad" % len(calls), calls[0])]


_FULL_REDUCERS = ("max", "min", "sum", "mean", "std", "var", "norm", "median", "amax", "amin", "any", "all", "prod")


def batch_coupling_rule(repo, quals=None):
    """The backward rules work on a batch that holds several examples (and their references) at once.  Every operation in them is
    element-wise or along non-batch axes; a reduction over ALL elements of a captured activation / gradient (`t.max()`, `t.abs().sum()`,
    `torch.mean(t)` without `dim`) folds the other rows of the batch into the value - what one example gets then depends on what else
    is in its batch (batch size, co-batched examples, order).  Named deviation when such a reduction of module.input / module.output /
    grad_input / grad_output (or of a local derived from them) occurs in a rule function."""
    out = []
    for q in quals or ("_nonlinear", "_softmax", "_maxpool", "_f_hook", "_fp_hook", "_b_hook"):
        if not repo.has_func(D + "." + q):
            continue
        fi = repo.func(D + "." + q)
        role = "no reduction over the whole batch inside a backward rule (each row is treated on its own)"
        tainted = set()
        for p_ in fi.params:
            if p_ in ("grad_input", "grad_output", "module", "input", "output", "inputs", "outputs"):
                tainted.add(p_)
        changed = True
        while changed:
            changed = False
            for n in ast.walk(fi.node):
                if isinstance(n, ast.Assign):
                    if any(isinstance(x, ast.Name) and x.id in tainted for x in ast.walk(n.value)):
                        for t in n.targets:
                            for x in ast.walk(t):
                                if isinstance(x, ast.Name) and isinstance(x.ctx, ast.Store) and x.id not in tainted:
                                    tainted.add(x.id)
                                    changed = True
        bad = None
        for n in ast.walk(fi.node):
            if isinstance(n, ast.Call):
                recv = None
                if isinstance(n.func, ast.Attribute) and n.func.attr in _FULL_REDUCERS:
                    if isinstance(n.func.value, ast.Name) and n.func.value.id in ("torch", "numpy"):
                        recv = n.args[0] if n.args else None
                        rest = n.args[1:]
                    else:
                        recv = n.func.value
                        rest = n.args
                    has_dim = bool(rest) or any(k.arg in ("dim", "axis") for k in n.keywords)
                    dim_e = rest[0] if rest else next((k.value for k in n.keywords if k.arg in ("dim", "axis")), None)
                    dims = None
                    if dim_e is not None:
                        dims = [const_value(dim_e)] if not isinstance(dim_e, (ast.Tuple, ast.List)) else [const_value(e_) for e_ in dim_e.elts]
                    reshaped = isinstance(recv, ast.Call) and isinstance(recv.func, ast.Attribute) and recv.func.attr in ("reshape", "view", "unflatten")
                    over_batch = (not has_dim) or (dims is not None and 0 in dims and not reshaped)
                    if recv is not None and over_batch and any(isinstance(x, ast.Name) and x.id in tainted for x in ast.walk(recv)):
                        bad = bad or n
        if bad is not None:
            out.append(named("R-BATCH", fi, role, "`%s` reduces over every row of the batch: the value (and whatever is decided with it) depends on the other "
                             "examples and references that happen to share the batch" % unparse(bad)[:60], bad))
        else:
            out.append(holds("R-BATCH", fi, role, "only element-wise operations / reductions with an explicit dim", fi.node, nontrivial=False))
    return out
