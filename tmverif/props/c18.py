"""C18 - annotation and k-mer counting equal direct enumeration."""
import ast
import re
from ..affine import Lin
from ..front import dotted, const_value, unparse, walk_no_nested, parent_map, kwarg
from ..core import holds, violation, unrecognised, named
from ..flow import AbsInt
from ..rules import decide_states, reaching_defs

ID = "C18"
ANCHORS = 'annotate.count_annotations,annotate.pairwise_annotations,annotate.pairwise_annotations_spacing,kmers.kmers'.split(",")
MIN_INSTANCES = 14
# rule families whose findings in this module are derived by an engine (not by comparing spellings): exempt from the rewrite gate
SEMANTIC_RULES = {"R-GUARD", "R-ACCEPT"}
EXPLANATION = (
    "R-GUARD: at each of the four stores into the (a, b, d) count tensor of pairwise_annotations_spacing the distance "
    "index d is proved to satisfy 0 <= d < max_distance from the guards on the path (abstract interpretation + "
    "Fourier-Motzkin; the extent is taken from the allocation). R-SIB: the two arms (left annotation first / second) are "
    "mirror images under the role swap 0<->1 and d = right.start - left.end. count_annotations: flat index "
    "example*n_annotations + annotation agrees with the allocation size and the reshape, dim=0/1 arms scatter on the "
    "matching column. pairwise_annotations: inner loop starts after the outer element, the mirror increment is skipped on "
    "the diagonal. kmers: positional weights c*n^j, table size n^k, scatter_add of ones or window score sums."
)
ASSUMPTIONS = ["torch scatter_add_/reshape semantics; dtype overflow excluded by the property; gapped_kmers not in the property"]

AN = "annotate"


def run(repo, tier):
    out = []
    out += spacing_rules(repo)
    out += count_rules(repo)
    out += pairwise_rules(repo)
    out += kmers_rules(repo)
    return out


def spacing_rules(repo):
    fi = repo.func(AN + ".pairwise_annotations_spacing")
    out = []
    ai = AbsInt(fi, int_params={"max_distance"})
    # the count tensor and the extent of its distance axis
    alloc = None
    for n in walk_no_nested(fi.node):
        if isinstance(n, ast.Assign) and isinstance(n.targets[0], ast.Name):
            for c in ast.walk(n.value):
                if isinstance(c, ast.Call) and dotted(c.func) in ("torch.zeros", "numpy.zeros") and len(c.args) >= 3:
                    alloc = (n.targets[0].id, c)
                elif isinstance(c, ast.Call) and dotted(c.func) in ("torch.zeros", "numpy.zeros") and c.args and \
                        isinstance(c.args[0], ast.Tuple) and len(c.args[0].elts) == 3:
                    alloc = (n.targets[0].id, ast.Call(func=c.func, args=c.args[0].elts, keywords=[]))
    if alloc is None:
        return [unrecognised("R-GUARD", fi, "allocation of the (a, b, d) tensor", "zeros(n, n, max_distance) not found")]
    yname, zc = alloc
    ext_expr = zc.args[2]
    stores = [s for s in walk_no_nested(fi.node) if isinstance(s, (ast.AugAssign, ast.Assign)) and
              isinstance(s.target if isinstance(s, ast.AugAssign) else s.targets[0], ast.Subscript)]
    stores = [s for s in stores if unparse((s.target if isinstance(s, ast.AugAssign) else s.targets[0]).value) == yname]
    if len(stores) < 4:
        out.append(unrecognised("R-GUARD", fi, "stores into the count tensor", "expected 4 stores into `%s`, found %d" % (yname, len(stores))))
    for k, s in enumerate(stores):
        tgt = s.target if isinstance(s, ast.AugAssign) else s.targets[0]
        idx = tgt.slice.elts if isinstance(tgt.slice, ast.Tuple) else [tgt.slice]
        role = "store #%d into the count tensor: distance index within [0, max_distance)" % k
        if len(idx) != 3:
            out.append(unrecognised("R-GUARD", fi, role, "store `%s` does not have three indices" % unparse(tgt), s))
            continue

        def mk(st, idx=idx):
            d = ai.lin(st, idx[2])
            E = ai.lin(st, ext_expr)
            if d is None or E is None:
                return None
            return [("0 <= d", d), ("d <= extent - 1", E - d - 1)]
        out.append(decide_states(ai, fi, s, mk, "R-GUARD", role))
    # R-SIB: mirror arms
    role = "the two arms are mirror images under 0<->1 with d = right.start - left.end"
    ifs = [n for n in walk_no_nested(fi.node) if isinstance(n, ast.If) and n.orelse and
           any(x in stores for x in ast.walk(n))]
    arm = None
    for n in ifs:
        if re.fullmatch(r"start0 < start1|start1 > start0|start0 <= start1|start1 >= start0", unparse(n.test)):
            arm = n
    if arm is None:
        out.append(unrecognised("R-SIB", fi, role, "`if start0 < start1` with two arms not found"))
    else:
        def skeleton(stmts):
            # the distance definition and the stores (with the condition guarding a conditional store);
            # range guards are decided by R-GUARD and deliberately not part of the mirror comparison
            rows = []
            for s_ in stmts:
                if isinstance(s_, ast.Assign) and unparse(s_.targets[0]) == "d":
                    rows.append(unparse(s_))
                elif s_ in stores:
                    rows.append(unparse(s_))
                elif isinstance(s_, ast.If) and any(x in stores for x in ast.walk(s_)):
                    rows.append("if %s: %s" % (unparse(s_.test), "; ".join(unparse(x) for x in s_.body)))
            return "\n".join(rows)
        a = skeleton(arm.body)
        b = skeleton(arm.orelse)

        def swap(t):
            return norm(re.sub(r"\b(idx|start|end)([01])\b", lambda m: m.group(1) + ("1" if m.group(2) == "0" else "0"), t))

        def norm(t):
            # != and == are symmetric: order their operands
            return re.sub(r"\b(\w+) (!=|==) (\w+)\b", lambda m: "%s %s %s" % ((m.group(1), m.group(2), m.group(3))
                          if m.group(1) <= m.group(3) else (m.group(3), m.group(2), m.group(1))), t)
        b = norm(b)
        dd = [s for s in arm.body if isinstance(s, ast.Assign) and unparse(s.targets[0]) == "d"]
        if swap(a) != b:
            out.append(named("R-SIB", fi, role, "else-arm is not the role-swapped image of the if-arm", arm.orelse[0],
                                 witness={"if_arm_swapped": swap(a)[:300], "else_arm": b[:300]}))
        elif not dd or unparse(dd[0].value) != "start1 - end0":
            out.append(violation("R-SIB", fi, role, "distance in the left-first arm is `%s`, expected start1 - end0" % (unparse(dd[0].value) if dd else "?"), arm))
        else:
            # first store of the arm is y[left, right, d]
            st0 = [s for s in arm.body if s in stores]
            t0 = unparse(st0[0].target) if st0 else ""
            ok = t0 == "%s[idx0, idx1, d]" % yname
            # mirror increment guarded by symmetric and idx0 != idx1
            gi = [s for s in arm.body if isinstance(s, ast.If) and any(x in stores for x in ast.walk(s))]
            okg = bool(gi) and unparse(gi[0].test) in ("symmetric and idx0 != idx1", "idx0 != idx1 and symmetric") and \
                unparse(gi[0].body[0].target if isinstance(gi[0].body[0], ast.AugAssign) else gi[0].body[0]) == "%s[idx1, idx0, d]" % yname
            if not st0:
                out.append(unrecognised("R-SIB", fi, role, "no store directly in the left-first arm", arm))
            elif not ok:
                out.append(violation("R-SIB", fi, role, "left-first arm stores into `%s`" % t0, st0[0] if st0 else arm))
            elif not okg:
                out.append(violation("R-SIB", fi, role, "mirror increment is not `if symmetric and idx0 != idx1: y[idx1, idx0, d] += 1`", gi[0] if gi else arm))
            else:
                out.append(holds("R-SIB", fi, role, "arms mirror each other; d = start1 - end0; increments are += 1", arm))
        incs = [s for s in stores if not (isinstance(s, ast.AugAssign) and isinstance(s.op, ast.Add) and const_value(s.value) == 1)]
        if incs:
            out.append(violation("R-SIB", fi, "every store is an increment by one", unparse(incs[0]), incs[0]))
    # completeness: no pair with a gap inside [0, max_distance) is skipped
    from ..affine import cone, consistent_model, SearchLimit, _infeasible, ge as _ge, lt as _lt
    role = "every pair whose gap d satisfies 0 <= d < max_distance is counted (no over-rejecting skip)"
    conts = [n for n in walk_no_nested(fi.node) if isinstance(n, ast.Continue)]
    bad = None
    n_c = 0
    for c in conts:
        for st in ai.states_at(c):
            st = st.copy()
            d = ai.lin(st, ast.Name(id="d", ctx=ast.Load()))
            E = ai.lin(st, ext_expr)
            if d is None or E is None:
                continue
            n_c += 1
            G = cone(st.G, d) + [_ge(d, 0), _lt(d, E)]
            if _infeasible(G):
                continue
            try:
                m = consistent_model(G, [], scope=(-2, 6))
            except SearchLimit:
                m = None
            if m is not None:
                bad = (c, {k: v for k, v in m.items() if len(k) < 20})
    if bad:
        out.append(violation("R-ACCEPT", fi, role, "a `continue` is reachable with a gap inside the counted range, e.g. %s (abutting annotations have d = 0)" % bad[1], bad[0],
                             witness={"assignment": bad[1]}))
    elif n_c == 0:
        out.append(unrecognised("R-ACCEPT", fi, role, "no skip statement with a tracked gap found"))
    else:
        out.append(holds("R-ACCEPT", fi, role, "%d skip path(s), each contradicts 0 <= d < max_distance" % n_c, conts[0]))
    # tuple input: columns are reordered to (example, annotation, start, end)
    role = "tuple input (example, start, end, annotation) is reordered to (example, annotation, start, end)"
    ro = [s_ for s_ in walk_no_nested(fi.node) if isinstance(s_, ast.Assign) and unparse(s_.targets[0]) == "X" and "torch.cat(x_" in unparse(s_.value)]
    t = unparse(ro[0].value) if ro else ""
    if t == "torch.cat(x_, axis=1)[:, [0, 3, 1, 2]]":
        out.append(holds("R-AXES", fi, role, t, ro[0], nontrivial=False))
    elif ro and "[:, [" in t:
        out.append(violation("R-AXES", fi, role, "column order is `%s`" % t, ro[0]))
    else:
        out.append(unrecognised("R-AXES", fi, role, t))
    # pair enumeration: inner over annotations[i+1:], outer over annotations[:-1] (or all)
    out += pair_loops(fi)
    out += grouping_rule(fi)
    return out


def grouping_rule(fi):
    """rows reach the per-example lists through their OWN example index (`lists[example_idx].append(..)` in a loop over the rows): the
    table need not be sorted.  Cutting the table into consecutive blocks (torch.split / bincount / chunk / itertools.groupby) groups by
    position and is only right for rows sorted by example index."""
    from ..core import named
    role = "rows are grouped by their example index (whatever the order of the rows)"
    keyed = []
    for lp in walk_no_nested(fi.node):
        if isinstance(lp, ast.For) and isinstance(lp.target, ast.Tuple) and lp.target.elts and isinstance(lp.target.elts[0], ast.Name):
            k = lp.target.elts[0].id
            for st in lp.body:
                if isinstance(st, ast.Expr) and isinstance(st.value, ast.Call) and isinstance(st.value.func, ast.Attribute) and \
                        st.value.func.attr == "append" and isinstance(st.value.func.value, ast.Subscript) and \
                        isinstance(st.value.func.value.slice, ast.Name) and st.value.func.value.slice.id == k:
                    keyed.append(st)
    if keyed:
        return [holds("PAIRS", fi, role, unparse(keyed[0])[:70], keyed[0], nontrivial=False)]
    positional = [n for n in walk_no_nested(fi.node) if isinstance(n, ast.Call) and dotted(n.func) in ("torch.split", "torch.tensor_split", "numpy.split",
                  "numpy.array_split", "itertools.groupby", "torch.chunk") and any("X" == getattr(x, "id", None) for a in n.args for x in ast.walk(a))]
    if positional:
        return [named("PAIRS", fi, role, "`%s` cuts the table into consecutive blocks: rows of an unsorted (interleaved / descending) table end up in the "
                      "wrong example" % unparse(positional[0])[:60], positional[0])]
    return [unrecognised("PAIRS", fi, role, "no `lists[example_idx].append(..)` in a loop over the rows")]


def pair_loops(fi):
    role = "every unordered pair of rows of one example is visited exactly once (inner loop starts after the outer element)"
    loops = [n for n in walk_no_nested(fi.node) if isinstance(n, ast.For) and isinstance(n.iter, ast.Call)
             and dotted(n.iter.func) == "enumerate" and n.iter.args and "annotations" in unparse(n.iter.args[0])]
    outer = [l for l in loops if unparse(l.iter.args[0]) in ("annotations[:-1]", "annotations")]
    inner = [l for l in loops if l not in outer]
    if len(outer) != 1 or len(inner) != 1:
        return [unrecognised("PAIRS", fi, role, "pair loops not recognised: %s" % [unparse(l.iter) for l in loops])]
    iv = outer[0].target.elts[0].id if isinstance(outer[0].target, ast.Tuple) else None
    it = unparse(inner[0].iter.args[0])
    if it != "annotations[%s + 1:]" % iv:
        return [violation("PAIRS", fi, role, "inner loop iterates `%s`, expected annotations[%s + 1:]" % (it, iv), inner[0])]
    if not any(x is inner[0] for x in ast.walk(outer[0])):
        return [violation("PAIRS", fi, role, "inner loop is not nested in the outer loop", inner[0])]
    out = [holds("PAIRS", fi, role, "outer %s / inner %s" % (unparse(outer[0].iter.args[0]), it), inner[0])]
    # the clauses below describe executions that go through the pair loops: a return before them is a path they say nothing about
    early = [n for n in walk_no_nested(fi.node) if isinstance(n, ast.Return) and n.lineno < outer[0].lineno]
    if early:
        out.append(unrecognised("PAIRS", fi, "every result is produced by the pair enumeration",
                                "a `return` at line %d precedes the pair loops: that path is not analysed" % early[0].lineno, early[0]))
    # no early exit: rows of an example are in table order (not sorted by coordinate), so leaving a pair loop
    # before its last element drops pairs that direct enumeration counts
    role2 = "the pair loops run to completion (no break / return / raise inside them: rows are not ordered by coordinate)"
    exits = []
    for x in walk_no_nested(outer[0]):
        if isinstance(x, (ast.Break, ast.Return)):
            exits.append(x)
    sorts = [c for c in ast.walk(fi.node) if isinstance(c, ast.Call) and
             (dotted(c.func) in ("sorted", "numpy.argsort", "torch.argsort", "numpy.sort", "torch.sort", "numpy.lexsort") or
              (isinstance(c.func, ast.Attribute) and c.func.attr in ("sort", "argsort", "sort_values")))]
    if exits and sorts:
        out.append(unrecognised("PAIRS", fi, role2, "early exit `%s` at line %d together with a sort `%s`: an ordered scan needs re-confirmation"
                                % (unparse(exits[0]), exits[0].lineno, unparse(sorts[0])[:60]), exits[0]))
    elif exits:
        out.append(named("PAIRS", fi, role2, "`%s` at line %d leaves a pair loop early; the rows of an example are in table order, so "
                             "later rows that pair with the current one are never visited" % (unparse(exits[0]), exits[0].lineno), exits[0]))
    else:
        out.append(holds("PAIRS", fi, role2, "no break/return in the pair loops; rows are never sorted", outer[0]))
    return out


def count_rules(repo):
    fi = repo.func(AN + ".count_annotations")
    out = []
    src = {unparse(s.targets[0]): s for s in walk_no_nested(fi.node) if isinstance(s, ast.Assign) and len(s.targets) == 1}
    role = "flat index example*n_annotations + annotation matches the allocation and the reshape"
    xi = src.get("X_idxs")
    ok = xi is not None and unparse(xi.value) in ("X[:, 0] * n_annotations + X[:, 1]", "X[:, 1] + X[:, 0] * n_annotations",
                                                   "n_annotations * X[:, 0] + X[:, 1]")
    if xi is None:
        out.append(unrecognised("R-AXES", fi, role, "X_idxs not found"))
    elif not ok:
        t = unparse(xi.value)
        m = re.fullmatch(r"X\[:, (\d)\] \* (\w+) \+ X\[:, (\d)\]", t)
        if m and (m.group(1), m.group(3)) == ("0", "1") and m.group(2) != "n_annotations":
            out.append(violation("R-AXES", fi, role, "row stride is `%s`, the reshape uses n_annotations columns" % m.group(2), xi))
        elif m and (m.group(1), m.group(3)) == ("1", "0"):
            out.append(violation("R-AXES", fi, role, "flat index `%s` is annotation-major but the reshape is (n_examples, n_annotations)" % t, xi))
        else:
            out.append(unrecognised("R-AXES", fi, role, "flat index is `%s`" % t, xi))
    elif _stride_version_mismatch(fi, xi) is not None:
        rs_, da, db = _stride_version_mismatch(fi, xi)
        out.append(named("R-AXES", fi, role, "the flat index uses the value of n_annotations defined at line(s) %s but the reshape/"
                             "allocation at line %d sees the definition(s) at line(s) %s (the `shape` override changes the row stride)" % (
                                 sorted(da), rs_.lineno, sorted(db)), xi,
                             witness={"shape": "(n_examples, wider than max annotation + 1)", "effect": "rows of examples >= 1 land in wrong cells"}))
    else:
        # allocation and reshape in the same branch
        br = [n for n in walk_no_nested(fi.node) if isinstance(n, ast.If) and any(x is xi for x in ast.walk(n))]
        body = None
        for n in br:
            for blk in (n.body, n.orelse):
                if xi in blk:
                    body = blk
        txt = [unparse(s) for s in body] if body else []
        need = ["y = torch.zeros(n_examples * n_annotations, dtype=dtype)", "y.scatter_add_(0, X_idxs, X_ones)",
                "y = y.reshape(n_examples, n_annotations)"]
        alt = {"y = torch.zeros(n_annotations * n_examples, dtype=dtype)"}
        miss = [t for t in need if t not in txt and not (t == need[0] and alt & set(txt))]
        rs = [t for t in txt if ".reshape(" in t]
        if miss and rs and rs[0] in ("y = y.reshape(n_annotations, n_examples)", "y = y.reshape(n_annotations, n_examples).T"):
            out.append(violation("R-AXES", fi, role, "`%s` contradicts the example-major flat index" % rs[0], xi))
        elif miss:
            out.append(unrecognised("R-AXES", fi, role, "branch does not contain `%s`; has %s" % (miss[0], txt), xi))
        else:
            out.append(holds("R-AXES", fi, role, "; ".join(txt), xi))
    # dim arms
    for dim, col, size in ((0, "X[:, 1]", "n_annotations"), (1, "X[:, 0]", "n_examples")):
        role = "dim=%d reduction scatters on column %s into a vector of %s" % (dim, col, size)
        arm = None
        for n in walk_no_nested(fi.node):
            if isinstance(n, ast.If) and unparse(n.test) == "dim == %d" % dim:
                arm = n
        if arm is None:
            out.append(unrecognised("R-SIB", fi, role, "`if dim == %d` not found" % dim))
            continue
        txt = [unparse(s) for s in arm.body]
        need = ["y = torch.zeros(%s, dtype=dtype)" % size, "y.scatter_add_(0, %s, X_ones)" % col]
        miss = [t for t in need if t not in txt]
        other = "X[:, 0]" if col == "X[:, 1]" else "X[:, 1]"
        if miss and any("scatter_add_(0, %s," % other in t for t in txt):
            out.append(violation("R-SIB", fi, role, "arm scatters on column %s" % other, arm))
        elif miss and any(t.startswith("y = torch.zeros(") and size not in t for t in txt):
            out.append(violation("R-SIB", fi, role, "arm allocates %s" % [t for t in txt if t.startswith("y = torch.zeros(")][0], arm))
        elif miss and any(isinstance(c_, ast.Call) and dotted(c_.func) in ("torch.bincount", "numpy.bincount") and
                          not any(k_.arg == "minlength" for k_ in c_.keywords) for s_ in arm.body for c_ in ast.walk(s_)):
            out.append(named("R-SIB", fi, role, "the arm counts with bincount(..) without `minlength`: the vector is as long as the largest OBSERVED index + 1, "
                             "not %s - shorter than the declared shape whenever the last rows / columns are empty" % size, arm))
        elif miss:
            out.append(unrecognised("R-SIB", fi, role, "arm is %s" % txt, arm))
        else:
            out.append(holds("R-SIB", fi, role, "; ".join(txt), arm))
    role = "an explicit shape that exactly fits the observed indices is accepted"
    gd = [n for n in walk_no_nested(fi.node) if isinstance(n, ast.If) and "shape[0]" in unparse(n.test) and any(isinstance(b, ast.Raise) for b in n.body)]
    tg = unparse(gd[0].test) if gd else ""
    if tg == "n_examples > shape[0] or n_annotations > shape[1]":
        out.append(holds("R-ACCEPT", fi, role, tg, gd[0], nontrivial=False))
    elif ">=" in tg:
        out.append(violation("R-ACCEPT", fi, role, "`%s` rejects a shape equal to (max example + 1, max annotation + 1)" % tg, gd[0]))
    else:
        out.append(unrecognised("R-ACCEPT", fi, role, tg))
    # ones
    role = "every row contributes exactly one"
    xo = src.get("X_ones")
    ok = xo is not None and unparse(xo.value) in ("torch.ones(len(X), dtype=dtype)", "torch.ones(X.shape[0], dtype=dtype)")
    out.append((holds if ok else unrecognised)("R-AXES", fi, role, unparse(xo.value) if xo is not None else "X_ones missing", xo or fi.node, nontrivial=False))
    return out


def _stride_version_mismatch(fi, xi):
    """the n_annotations used as row stride must be the same definition the reshape / allocation sees"""
    rd = reaching_defs(fi, "n_annotations")
    da = rd.get(id(xi))
    for s_ in walk_no_nested(fi.node):
        if isinstance(s_, ast.Assign) and ".reshape(n_examples, n_annotations)" in unparse(s_.value):
            db = rd.get(id(s_))
            if da is not None and db is not None and da != db:
                return s_, da, db
    return None


def pairwise_rules(repo):
    fi = repo.func(AN + ".pairwise_annotations")
    out = pair_loops(fi)
    role = "pair (a, b) increments [a, b] once and [b, a] once only off the diagonal when symmetric"
    incs = [s for s in walk_no_nested(fi.node) if isinstance(s, ast.AugAssign) and isinstance(s.target, ast.Subscript)]
    txt = [unparse(s) for s in incs]
    if txt != ["y[idx0, idx1] += 1", "y[idx1, idx0] += 1"]:
        out.append(violation("R-SIB", fi, role, "increments are %s" % txt, incs[0] if incs else fi.node))
        return out
    pm = parent_map(fi.node)
    g = pm.get(incs[1])
    g0 = pm.get(incs[0])
    if not isinstance(g, ast.If) or unparse(g.test) not in ("symmetric and idx0 != idx1", "idx0 != idx1 and symmetric"):
        out.append(violation("R-SIB", fi, role, "mirror increment guarded by `%s`" % (unparse(g.test) if isinstance(g, ast.If) else "nothing"), incs[1]))
    elif isinstance(g0, ast.If):
        out.append(violation("R-SIB", fi, role, "primary increment is conditional on `%s`" % unparse(g0.test), incs[0]))
    else:
        out.append(holds("R-SIB", fi, role, "; ".join(txt), incs[0]))
    # grouping by example
    role = "rows are grouped by their example index"
    grp = [s for s in walk_no_nested(fi.node) if isinstance(s, ast.Expr) and unparse(s.value) == "example_annotations[example_idx].append(annotation_idx)"]
    out.append((holds if grp else violation)("PAIRS", fi, role, "example_annotations[example_idx].append(annotation_idx)" if grp else "grouping statement not found", grp[0] if grp else fi.node, nontrivial=False))
    return out


def kmers_rules(repo):
    frozen = lambda rule, fi_, role_, detail, node=None, **kw: unrecognised(rule, fi_, role_, 'statement differs from the confirmed form (re-confirm by reading): ' + detail, node)
    fi = repo.func("kmers.kmers")
    out = []
    src = {}
    for s in walk_no_nested(fi.node):
        if isinstance(s, ast.Assign) and len(s.targets) == 1:
            src.setdefault(unparse(s.targets[0]), []).append(s)
    role = "positional weights are c * n**j for character c at window offset j"
    w = src.get("w", [])
    ok = bool(w) and unparse(w[0].value) in ("torch.arange(n).repeat(k, 1).T * n ** torch.arange(k)",)
    out.append((holds if ok else frozen)("KMER", fi, role, unparse(w[0].value) if w else "w missing", w[0] if w else fi.node))
    role = "n is the alphabet size"
    n_ = src.get("n", [])
    ok = bool(n_) and unparse(n_[0].value) == "X.shape[1]"
    out.append((holds if ok else frozen)("KMER", fi, role, unparse(n_[0].value) if n_ else "n missing", n_[0] if n_ else fi.node, nontrivial=False))
    role = "the table has n**k entries per sequence and is filled by scatter_add along the k-mer axis"
    t = src.get("X_kmers", [])
    sc = [s for s in walk_no_nested(fi.node) if isinstance(s, ast.Expr) and "scatter_add_" in unparse(s.value)]
    ok = bool(t) and unparse(t[0].value) in ("torch.zeros((X.shape[0], n ** k))", "torch.zeros(X.shape[0], n ** k)") and \
        bool(sc) and unparse(sc[0].value) == "X_kmers.scatter_add_(1, idxs, score_)"
    out.append((holds if ok else frozen)("KMER", fi, role, "%s ; %s" % (unparse(t[0].value) if t else "?", unparse(sc[0].value) if sc else "?"), t[0] if t else fi.node))
    role = "each window contributes 1, or the sum of its k scores"
    sv = src.get("score_", [])
    txt = [unparse(s.value) for s in sv]
    ok = "torch.ones(1, dtype=torch.float32).expand_as(idxs)" in txt and "torch.nn.functional.conv1d(scores, ws)[:, 0]" in txt
    ws = src.get("ws", [])
    ok = ok and bool(ws) and unparse(ws[0].value) in ("torch.ones(1, 1, k, dtype=torch.float32)", "torch.ones((1, 1, k), dtype=torch.float32)")
    out.append((holds if ok else frozen)("KMER", fi, role, "; ".join(txt), sv[0] if sv else fi.node))
    role = "window codes come from a stride-1 convolution of X with the weights"
    ix = src.get("idxs", [])
    ok = bool(ix) and unparse(ix[0].value) == "torch.nn.functional.conv1d(X, w).type(torch.int64)[:, 0]"
    out.append((holds if ok else frozen)("KMER", fi, role, unparse(ix[0].value) if ix else "?", ix[0] if ix else fi.node))
    return out


LEVEL_TEXT = ("Index-range proofs for every store of the spacing histogram (for all coordinates, from the guards), mirror "
              "agreement of the sibling arms, and structural agreement of flat index / allocation / reshape / scatter column for "
              "the counting functions. The k-mer clauses are frozen-form comparisons of the five defining statements.")
LEVEL_NOTE = ("Decides 0 <= d < max_distance at all stores, arm symmetry, pair enumeration, flat-index agreement. The kmers and "
              "count_annotations clauses compare against the confirmed spellings: a named deviation (wrong stride, swapped column, "
              "transposed reshape) is a violation, any other rewrite is ANALYSIS-ERROR (re-confirm), never an alarm. Not decided: "
              "dtype overflow, gapped_kmers.")
TECHNIQUE = "abstract interpretation of index guards (Fourier-Motzkin) + sibling-arm mirror comparison + frozen-form rules over ast"
