"""C15 - sequence representations convert losslessly and invert one another (structural clauses)."""
import ast, copy
from ..affine import Lin, decide, entails
from ..front import dotted, const_value, unparse, walk_no_nested, parent_map, kwarg
from ..core import holds, violation, unrecognised, named
from ..flow import AbsInt
from ..rules import fmt_trace

ID = "C15"
ANCHORS = 'utils.one_hot_encode,utils._fast_one_hot_encode,utils.characters,utils.reverse_complement,utils.chunk,utils.unchunk'.split(",")
MIN_INSTANCES = 12
# rule families whose findings in this module are derived by an engine (not by comparing spellings): exempt from the rewrite gate
SEMANTIC_RULES = {"R-SLICE0", "R-LEN", "STATE"}
EXPLANATION = (
    "R-TABLE (one_hot_encode): the 256-entry byte table is filled with the 'illegal' sentinel by default, alphabet bytes with "
    "their index, ignore bytes with the 'ignore' sentinel, and the numba reader handles exactly {ignore: skip, illegal: raise, "
    "else: set}; overlap of alphabet and ignore is rejected first. characters(allow_N): all-zero columns decode to N, others "
    "by argmax into the alphabet. reverse_complement: string and tensor forms read the same map, the default map is an "
    "involutive bijection, the tensor form is flip(-1) + row permutation by index(complement). chunk/unchunk: the chunk-count "
    "formula of unchunk equals the unfold parameters of chunk; R-LEN: each reassembly branch yields size + (c-1)(size-overlap) "
    "positions (1, 2, many chunks) as linear identities; R-SLICE0: a slice bound that is a from-the-end offset is <= -1 on "
    "every path (an offset that can be 0 makes `x[..., :e]` empty)."
)
ASSUMPTIONS = ["torch unfold/flip/moveaxis/reshape semantics; numpy.frombuffer byte view of ASCII text",
               "dtype behaviour of the int8 byte table for non-ASCII input is not decided"]
U = "utils"


def run(repo, tier):
    out = []
    out += ohe_rules(repo)
    out += characters_rules(repo)
    out += rc_rules(repo)
    out += chunk_rules(repo)
    from ..rules import module_state_rule
    out += module_state_rule(repo, U)
    return out


def ohe_rules(repo):
    w = repo.func(U + ".one_hot_encode")
    r = repo.func(U + "._fast_one_hot_encode")
    out = []
    src = [unparse(s) for s in walk_no_nested(w.node) if isinstance(s, (ast.Assign, ast.Expr))]
    role = "byte table default is the 'illegal' sentinel, alphabet bytes map to their index, ignore bytes to the 'ignore' sentinel"
    dflt = [s for s in walk_no_nested(w.node) if isinstance(s, ast.Assign) and unparse(s.targets[0]) == "one_hot_mapping"]
    loops = [n for n in w.node.body if isinstance(n, ast.For)]
    al = [l for l in loops if "alpha_idxs" in unparse(l.iter)]
    ig = [l for l in loops if "ignore_idxs" in unparse(l.iter)]
    illegal = ignore = None
    if dflt:
        t = unparse(dflt[0].value)
        if t == "numpy.zeros(256, dtype=numpy.int8) - 2":
            illegal = -2
        elif t.startswith("numpy.full(256, "):
            illegal = const_value(dflt[0].value.args[1])
        elif t == "numpy.zeros(256, dtype=numpy.int8) - 1":
            illegal = -1
        elif t == "numpy.zeros(256, dtype=numpy.int8)":
            illegal = 0
    if ig and len(ig[0].body) == 1 and isinstance(ig[0].body[0], ast.Assign):
        ignore = const_value(ig[0].body[0].value)
    vec = [s_ for s_ in w.node.body if isinstance(s_, ast.Assign) and unparse(s_.targets[0]) == "one_hot_mapping[ignore_idxs]"]
    if ignore is None and vec:
        ignore = const_value(vec[0].value)
        ig = ig or vec
    ok_al = bool(al) and len(al[0].body) == 1 and unparse(al[0].body[0]) == "one_hot_mapping[idx] = i" and \
        unparse(al[0].iter) == "enumerate(alpha_idxs)" and unparse(al[0].target) == "(i, idx)"
    # reader
    rd_ifs = [n for n in walk_no_nested(r.node) if isinstance(n, ast.If)]
    r_skip = r_raise = None
    for n in rd_ifs:
        t = unparse(n.test)
        if t.startswith("idx == "):
            v = const_value(n.test.comparators[0])
            if any(isinstance(b, ast.Continue) for b in n.body):
                r_skip = v
            if any(isinstance(b, ast.Raise) for b in n.body):
                r_raise = v
    setst = [s for s in walk_no_nested(r.node) if isinstance(s, ast.Assign) and unparse(s) == "X_ohe[i, idx] = 1"]
    if illegal is None or ignore is None or not al or not ig:
        out.append(unrecognised("R-TABLE", w, role, "writer shape not recognised (default=%s ignore=%s)" % (illegal, ignore)))
    elif not ok_al:
        out.append(violation("R-TABLE", w, role, "alphabet bytes are mapped by `%s`" % (unparse(al[0].body[0]) if al[0].body else "?"), al[0]))
    elif illegal >= 0 or ignore >= 0:
        out.append(violation("R-TABLE", w, role, "sentinel %d collides with a valid column index" % (illegal if illegal >= 0 else ignore), dflt[0]))
    elif illegal == ignore:
        out.append(violation("R-TABLE", w, role, "illegal and ignored characters share the sentinel %d: characters outside both sets are no longer rejected" % illegal, dflt[0]))
    else:
        out.append(holds("R-TABLE", w, role, "default %d, ignore %d, alphabet -> index" % (illegal, ignore), dflt[0]))
    role = "the reader skips the writer's 'ignore' sentinel, raises on the 'illegal' sentinel, sets the column otherwise"
    if r_skip is None or r_raise is None or not setst:
        miss = "skip" if r_skip is None else ("raise" if r_raise is None else "set")
        if illegal is not None and ignore is not None:
            out.append(violation("R-TABLE", r, role, "reader has no `%s` arm for the writer's sentinels (ignore=%s illegal=%s)" % (miss, ignore, illegal), r.node))
        else:
            out.append(unrecognised("R-TABLE", r, role, "reader arms not recognised"))
    elif illegal is None or ignore is None:
        out.append(unrecognised("R-TABLE", r, role, "the writer's sentinels were not recognised (ignore=%s illegal=%s): cannot compare with the reader" % (ignore, illegal)))
    elif (r_skip, r_raise) != (ignore, illegal):
        out.append(named("R-TABLE", r, role, "reader skips %s / raises on %s but the writer stores ignore=%s / illegal=%s" % (r_skip, r_raise, ignore, illegal), r.node,
                             witness={"writer": {"ignore": ignore, "illegal": illegal}, "reader": {"skip": r_skip, "raise": r_raise}}))
    else:
        # the sentinel tests precede the store
        ok = all(n.lineno < setst[0].lineno for n in rd_ifs)
        out.append((holds if ok else violation)("R-TABLE", r, role, "skip %d / raise %d / set" % (r_skip, r_raise), setst[0]))
    role = "every character of the sequence is encoded (reader loops over the whole byte array)"
    lp = [n for n in walk_no_nested(r.node) if isinstance(n, ast.For)]
    t = unparse(lp[0].iter) if lp else ""
    if t in ("range(len(seq))", "range(seq.shape[0])", "range(X_ohe.shape[0])"):
        out.append(holds("R-TABLE", r, role, t, lp[0], nontrivial=False))
    elif lp:
        out.append(violation("R-TABLE", r, role, "loop runs over `%s`: trailing characters stay all-zero, i.e. decode as N" % t, lp[0]))
    else:
        out.append(unrecognised("R-TABLE", r, role, "loop not found"))
    # ignore overrides alphabet? overlap rejected first
    role = "a character in both alphabet and ignore is rejected before the table is built"
    chk = [n for n in w.node.body if isinstance(n, ast.For) and unparse(n.iter) == "ignore" and
           any(isinstance(x, ast.Raise) for x in ast.walk(n)) and "in alphabet" in unparse(n)]
    ok = bool(chk) and bool(dflt) and chk[0].lineno < dflt[0].lineno
    out.append((holds if ok else violation)("R-TABLE", w, role, "overlap check %s" % ("precedes the table" if ok else "missing or late"), chk[0] if chk else w.node))
    role = "the encoding has one row per input character and one column per alphabet character, returned as (alphabet, length)"
    ok = ("n, m = (len(sequence), len(alphabet))" in src or ("n = len(sequence)" in src and "m = len(alphabet)" in src)) and \
        "one_hot_encoding = numpy.zeros((n, m), dtype=numpy.int8)" in src
    ret = [s for s in walk_no_nested(w.node) if isinstance(s, ast.Return)]
    ok = ok and bool(ret) and unparse(ret[-1].value) == "torch.from_numpy(one_hot_encoding).type(dtype).T"
    out.append((holds if ok else unrecognised)("R-TABLE", w, role, unparse(ret[-1].value) if ret else "?", ret[-1] if ret else w.node, nontrivial=False))
    return out


def characters_rules(repo):
    fi = repo.func(U + ".characters")
    out = []
    role = "with allow_N, all-zero columns decode to 'N'; other columns by argmax into the alphabet"
    arm = [n for n in walk_no_nested(fi.node) if isinstance(n, ast.If) and unparse(n.test) == "allow_N"]
    if not arm:
        return [unrecognised("DECODE", fi, role, "`if allow_N` not found")]
    tb = [unparse(s) for s in arm[0].body]
    te = [unparse(s) for s in arm[0].orelse]
    ok = tb == ["n_inds = numpy.where(pwm.sum(axis=0) == 0)[0]", "dna_chars = alphabet[pwm.argmax(axis=0)]", "dna_chars[n_inds] = 'N'"] \
        and te == ["dna_chars = alphabet[pwm.argmax(axis=0)]"]
    if ok:
        out.append(holds("DECODE", fi, role, "; ".join(tb), arm[0]))
    elif any("argmax(axis=1)" in t or "argmin" in t for t in tb + te):
        out.append(violation("DECODE", fi, role, "decoding does not take the argmax over the alphabet axis: %s" % (tb + te), arm[0]))
    elif not any("'N'" in t for t in tb):
        out.append(violation("DECODE", fi, role, "all-zero columns are not decoded to 'N'", arm[0]))
    else:
        # named deviation: the 'N' predicate is computed from ties between entries (== column maximum) instead of from
        # zero-ness.  Ties cannot tell an all-zero column from a one-hot column of a one-letter alphabet.
        from ..rules import inline_locals
        nd = [s_ for s_ in arm[0].body if isinstance(s_, ast.Assign) and unparse(s_.targets[0]) == "n_inds"]
        pred = ""
        if nd:
            e = copy.deepcopy(nd[0].value)
            for _ in range(3):
                class _I(ast.NodeTransformer):
                    def visit_Name(self, n):
                        d = inline_locals(fi, n, 1) if n.id not in fi.params else n
                        return d if d is not n else n
                e = _I().visit(e)
            pred = unparse(e)
        if nd and ".max(" in pred and "len(alphabet)" in pred and "== 0" not in pred.replace("axis=0", ""):
            out.append(named("DECODE", fi, role, "the 'N' test `%s` counts entries equal to the column maximum: with a one-letter alphabet every "
                                 "one-hot column satisfies it and decodes to 'N' (all-zero-ness is `pwm.sum(axis=0) == 0`)" % pred[:140], nd[0]))
        else:
            out.append(unrecognised("DECODE", fi, role, "; ".join(tb + te)))
    return out


def rc_rules(repo):
    fi = repo.func(U + ".reverse_complement")
    out = []
    role = "default complement map is an involutive bijection"
    d = fi.defaults.get("complement_map")
    if not isinstance(d, ast.Dict):
        out.append(unrecognised("RC", fi, role, "default map is not a dict literal"))
    else:
        m = {const_value(k): const_value(v) for k, v in zip(d.keys, d.values)}
        inv = all(m.get(v) == k for k, v in m.items()) and len(set(m.values())) == len(m)
        if inv:
            out.append(holds("RC", fi, role, str(m), d))
        else:
            bad = [k for k, v in m.items() if m.get(v) != k]
            out.append(violation("RC", fi, role, "complement(complement(%r)) = %r" % (bad[0], m.get(m.get(bad[0]))), d, witness={"map": m}))
    role = "string form: complement every character through the map and reverse"
    sarm = [n for n in walk_no_nested(fi.node) if isinstance(n, ast.If) and unparse(n.test) == "isinstance(seq, str)"]
    if not sarm:
        out.append(unrecognised("RC", fi, role, "string arm not found"))
    else:
        t = "\n".join(unparse(s) for s in sarm[0].body)
        ok = "seq_rc.append(complement_map[char])" in t and "seq_rc = ''.join(reversed(seq_rc))" in t
        if ok:
            out.append(holds("RC", fi, role, "append(complement_map[char]) ... ''.join(reversed(...))", sarm[0]))
        elif "reversed" not in t and "[::-1]" not in t:
            out.append(violation("RC", fi, role, "string form does not reverse", sarm[0]))
        else:
            out.append(unrecognised("RC", fi, role, t[:120]))
    role = "string form maps N to N when allow_N and rejects characters outside the map otherwise"
    if sarm:
        t = "\n".join(unparse(s_) for s_ in sarm[0].body)
        ok = "elif char == 'N' and allow_N:\n        seq_rc.append('N')" in t and "raise ValueError" in t
        # the N pass-through is a FALLBACK: a complement map that has its own entry for 'N' wins.  A table copied from the map in which
        # 'N' is then stored (or listed after the unpacked map) gives the pass-through precedence.
        override = None
        for n_ in ast.walk(sarm[0]):
            if isinstance(n_, ast.Assign) and len(n_.targets) == 1 and isinstance(n_.targets[0], ast.Subscript) and \
                    const_value(n_.targets[0].slice) == "N" and const_value(n_.value) == "N" and isinstance(n_.targets[0].value, ast.Name):
                tab = n_.targets[0].value.id
                built = [a_ for a_ in ast.walk(sarm[0]) if isinstance(a_, ast.Assign) and any(isinstance(t_, ast.Name) and t_.id == tab for t_ in a_.targets)
                         and "complement_map" in unparse(a_.value)]
                guarded = False
                pm_ = parent_map(sarm[0])
                x_ = n_
                while x_ in pm_:
                    x_ = pm_[x_]
                    if isinstance(x_, ast.If) and ("'N' not in" in unparse(x_.test) or "not 'N' in" in unparse(x_.test)):
                        guarded = True
                if built and not guarded:
                    override = n_
            if isinstance(n_, ast.Dict) and None in n_.keys:
                ks = list(n_.keys)
                star = [i for i, k_ in enumerate(ks) if k_ is None and "complement_map" in unparse(n_.values[i])]
                lit = [i for i, k_ in enumerate(ks) if k_ is not None and const_value(k_) == "N" and const_value(n_.values[i]) == "N"]
                if star and lit and min(lit) > min(star):
                    override = n_
        if ok:
            out.append(holds("RC", fi, role, "N -> N under allow_N, else ValueError", sarm[0], nontrivial=False))
        elif override is not None:
            from ..core import named
            out.append(named("RC", fi, role, "`%s` gives the N pass-through precedence over an entry for 'N' in complement_map (it must only fill a gap): "
                             "with a map that complements N to another symbol, rc(rc(s)) != s and the string and tensor forms disagree" % unparse(override)[:50], override))
        elif "char == 'N'" not in t:
            out.append(violation("RC", fi, role, "the string form has no N case: reverse_complement(reverse_complement(s)) fails for s containing N", sarm[0]))
        else:
            out.append(unrecognised("RC", fi, role, t[:160]))
    role = "tensor form: flip the position axis and permute rows by index(complement) of the same map"
    tarm = [n for n in walk_no_nested(fi.node) if isinstance(n, ast.If) and unparse(n.test) == "isinstance(seq, torch.Tensor)"]
    if not tarm:
        out.append(unrecognised("RC", fi, role, "tensor arm not found"))
    else:
        tb = [unparse(s) for s in tarm[0].body]
        ok = tb == ["chars = list(complement_map.keys())", "idxs = [chars.index(char) for char in complement_map.values()]",
                    "seq_rc = torch.flip(seq, dims=(-1,))[idxs]"]
        if ok:
            out.append(holds("RC", fi, role, tb[-1], tarm[0]))
        elif any("flip" in t for t in tb) and not any("[idxs]" in t for t in tb):
            out.append(violation("RC", fi, role, "tensor form reverses but does not complement: %s" % tb[-1], tarm[0]))
        elif any("[idxs]" in t for t in tb) and not any("flip" in t for t in tb):
            out.append(violation("RC", fi, role, "tensor form complements but does not reverse: %s" % tb[-1], tarm[0]))
        elif any(isinstance(c_, ast.Call) and dotted(c_.func) in ("numpy.searchsorted", "torch.searchsorted", "bisect.bisect_left", "bisect.bisect")
                 for s_ in tarm[0].body for c_ in ast.walk(s_)) and not any("sort" in t and "searchsorted" not in t for t in tb):
            from ..core import named
            out.append(named("RC", fi, role, "the row permutation is looked up with searchsorted / bisect on the map's keys, which is only an index lookup "
                             "when the keys are in ascending order (the documented contract is the caller's key ORDER, e.g. A,T,C,G)", tarm[0]))
        elif any("dims=(0,)" in t or "dims=(-2,)" in t for t in tb):
            out.append(violation("RC", fi, role, "tensor form flips the alphabet axis instead of the position axis", tarm[0]))
        else:
            out.append(unrecognised("RC", fi, role, "; ".join(tb)))
    return out


def chunk_rules(repo):
    ch = repo.func(U + ".chunk")
    un = repo.func(U + ".unchunk")
    out = []
    role = "unchunk's chunk count (L - size)//(size - overlap) + 1 is the count produced by chunk's unfold(-1, size, size - overlap)"
    unf = [n for n in walk_no_nested(ch.node) if isinstance(n, ast.Call) and isinstance(n.func, ast.Attribute) and n.func.attr == "unfold"]
    cnt = [s for s in un.node.body if isinstance(s, ast.Assign) and unparse(s.targets[0]) == "lengths" and "//" in unparse(s.value)]
    sz = [s for s in un.node.body if isinstance(s, ast.Assign) and unparse(s.targets[0]) == "size"]
    if not unf or not cnt or not sz:
        out.append(unrecognised("CHUNKS", un, role, "unfold / count formula not found"))
    else:
        ua = [unparse(a) for a in unf[0].args]
        ct = unparse(cnt[0].value)
        ok = ua == ["-1", "size", "size - overlap"] and ct == "(lengths - size) // (size - overlap) + 1" and unparse(sz[0].value) == "X.shape[-1]"
        if ok:
            out.append(holds("CHUNKS", un, role, "unfold(%s) ~ %s" % (", ".join(ua), ct), cnt[0]))
        elif ua[:2] == ["-1", "size"] and ct.startswith("(lengths - size) // ") and ua[2] != ct[len("(lengths - size) // ("):ct.index(")", 20)]:
            out.append(violation("CHUNKS", un, role, "chunk steps by `%s` but unchunk divides by `%s`" % (ua[2], ct), cnt[0]))
        elif ct in ("(lengths - size) // (size - overlap)", "lengths // (size - overlap) + 1", "lengths // (size - overlap)"):
            out.append(violation("CHUNKS", un, role, "count formula `%s` is not the unfold count" % ct, cnt[0]))
        else:
            out.append(unrecognised("CHUNKS", un, role, "unfold(%s) vs %s" % (", ".join(ua), ct)))
    role = "chunks of all sequences are concatenated in sequence order along the leading axis"
    ret = [s for s in walk_no_nested(ch.node) if isinstance(s, ast.Return)]
    t = unparse(ret[-1].value) if ret else ""
    ok = t == "torch.cat([x.unfold(-1, size, size - overlap).permute(1, 0, 2) for x in X])"
    out.append((holds if ok else unrecognised)("CHUNKS", ch, role, t[:100], ret[-1] if ret else ch.node, nontrivial=False))

    # ---- reassembly branches: R-LEN and R-SLICE0 in the linear domain
    ai = AbsInt(un, int_params={"overlap"})
    ov = [n for n in walk_no_nested(un.node) if isinstance(n, ast.If) and unparse(n.test) == "overlap > 0"]
    if not ov:
        out.append(unrecognised("R-LEN", un, "reassembly branches", "`if overlap > 0` not found"))
        return out
    # chain of branches on the number of chunks
    branches = []   # (kind, assign stmt)
    node = [s for s in ov[0].body if isinstance(s, ast.If)]
    cur = node[0] if node else None
    while cur is not None:
        t = unparse(cur.test)
        kind = {"X_.shape[0] == 1": 1, "X_.shape[0] == 2": 2, "len(X_) == 1": 1, "len(X_) == 2": 2}.get(t)
        asg = [s for s in cur.body if isinstance(s, ast.Assign) and unparse(s.targets[0]) == "X_"]
        if kind is None or not asg:
            out.append(unrecognised("R-LEN", un, "reassembly branches", "branch test `%s`" % t, cur))
            return out
        branches.append((kind, asg[0]))
        if len(cur.orelse) == 1 and isinstance(cur.orelse[0], ast.If):
            cur = cur.orelse[0]
        else:
            asg = [s for s in cur.orelse if isinstance(s, ast.Assign) and unparse(s.targets[0]) == "X_"]
            if asg:
                branches.append(("many", asg[0]))
            cur = None
    kinds = [k for k, _ in branches]
    if kinds != [1, 2, "many"]:
        out.append(unrecognised("R-LEN", un, "reassembly branches", "branches %s" % kinds))
        return out

    def pieces(e):
        """torch.cat([...], dim=-1) pieces or the expression itself"""
        if isinstance(e, ast.Call) and dotted(e.func) == "torch.cat" and e.args and isinstance(e.args[0], (ast.List, ast.Tuple)) \
                and const_value(kwarg(e, "dim", 1)) == -1:
            return list(e.args[0].elts)
        return [e]

    def core_sub(e):
        """strip .moveaxis(0,-2).reshape(..., -1) wrappers: returns (subscript or name, flattened: bool)"""
        flat = False
        while isinstance(e, ast.Call) and isinstance(e.func, ast.Attribute) and e.func.attr in ("moveaxis", "reshape", "movedim", "contiguous"):
            flat = True
            e = e.func.value
        return e, flat

    def ext_of(st, e, size):
        """per-chunk last-axis extent of a piece and the leading-axis selector text"""
        e, flat = core_sub(e)
        if isinstance(e, ast.Name):
            return size, ":", flat
        if not isinstance(e, ast.Subscript):
            return None
        idx = e.slice.elts if isinstance(e.slice, ast.Tuple) else [e.slice]
        lead = unparse(idx[0])
        last = idx[-1]
        if len(idx) == 1 or not isinstance(last, ast.Slice):
            return size, lead, flat
        b = ai.slice_bounds(st, last, size)
        if b is None:
            return None
        return b[1] - b[0], lead, flat

    for kind, asg in branches:
        role = "reassembly of %s chunk(s) yields size + (c-1)*(size - overlap) positions and uses each chunk once, in order" % kind
        sts = ai.states_at(asg)
        if not sts:
            out.append(unrecognised("R-LEN", un, role, "branch unreachable"))
            continue
        verdict = None
        for st in sts:
            st = st.copy()
            size = st.env.get("size")
            ovl = Lin.atom("overlap")
            if size is None:
                verdict = unrecognised("R-LEN", un, role, "size not tracked")
                break
            ps = pieces(asg.value)
            ex = [ext_of(st, p, size) for p in ps]
            if any(x is None for x in ex):
                verdict = unrecognised("R-LEN", un, role, "piece outside the linear fragment: %s" % unparse(asg.value)[:80], asg)
                break
            leads = [x[1] for x in ex]
            if kind == 1:
                want_leads = [[":"]]
                tot = ex[0][0] if len(ex) == 1 else None
                obl = [("single chunk keeps all size positions", tot - size), ("single chunk keeps all size positions'", size - tot)] if tot is not None else None
                if leads not in ([":"], ["..."], ["0"]):
                    obl = None
            elif kind == 2:
                if leads != ["0", "1"]:
                    verdict = violation("R-LEN", un, role, "pieces take chunks %s, expected [0, 1]" % leads, asg)
                    break
                tot = ex[0][0] + ex[1][0]
                exp = size.scale(2) - ovl
                obl = [("total >= 2*size - overlap", tot - exp), ("total <= 2*size - overlap", exp - tot)]
            else:
                if leads != ["0", "1:-1", "-1"]:
                    verdict = violation("R-LEN", un, role, "pieces take chunks %s, expected [0, 1:-1, -1]" % leads, asg)
                    break
                if not ex[1][2]:
                    verdict = violation("R-LEN", un, role, "the middle chunks are not flattened into the position axis", asg)
                    break
                ends = ex[0][0] + ex[2][0]
                exp = size.scale(2) - ovl
                mid = ex[1][0]
                obl = [("first+last >= 2*size - overlap", ends - exp), ("first+last <= 2*size - overlap", exp - ends),
                       ("each middle chunk >= size - overlap", mid - (size - ovl)), ("each middle chunk <= size - overlap", (size - ovl) - mid)]
            if obl is None:
                verdict = unrecognised("R-LEN", un, role, "shape of the single-chunk branch: %s" % unparse(asg.value)[:80], asg)
                break
            for label, e in obl:
                v, model = decide(st.G, e)
                if v == "REFUTED":
                    verdict = violation("R-LEN", un, role, "`%s` fails: %r can be negative on path %s" % (label, e, fmt_trace(st.trace)), asg,
                                        witness={"assignment": {k: x for k, x in sorted(model.items()) if "overlap" in k or "size" in k or "shape" in k}})
                    break
            if verdict:
                break
        out.append(verdict or holds("R-LEN", un, role, "linear identities proved on %d path(s)" % len(sts), asg))

    # ---- R-SLICE0
    role = "every from-the-end slice offset used in the reassembly is <= -1 (an offset of 0 would make the slice empty)"
    bad = None
    n_sl = 0
    for kind, asg in branches:
        for st in ai.states_at(asg):
            for n in ast.walk(asg.value):
                if isinstance(n, ast.Slice) and n.upper is not None and not isinstance(n.upper, ast.Constant):
                    s2 = st.copy()
                    v = ai.lin(s2, n.upper)
                    if v is None:
                        continue
                    n_sl += 1
                    # is it (possibly) a from-the-end offset?  provably <= 0 but not provably <= -1
                    if entails(s2.G, -v) and not entails(s2.G, (-v) - 1):
                        vv, model = decide(s2.G, (-v) - 1)
                        if vv == "REFUTED":
                            bad = (asg, n, model)
    if bad:
        asg, n, model = bad
        out.append(violation("R-SLICE0", un, role, "slice bound `%s` can be 0: `x[..., :%s]` is then empty and the chunk's positions are lost" % (
            unparse(n.upper), unparse(n.upper)), asg, witness={"assignment": {k: x for k, x in sorted(model.items()) if "overlap" in k}}))
    elif n_sl == 0:
        out.append(unrecognised("R-SLICE0", un, role, "no symbolic slice bound found"))
    else:
        out.append(holds("R-SLICE0", un, role, "%d symbolic upper bounds, each <= -1 under `overlap > 0`" % n_sl, ov[0]))
    # no-overlap arm
    role = "without overlap the chunks are concatenated whole"
    t = [unparse(s) for s in ov[0].orelse]
    ok = t == ["X_ = X_.moveaxis(0, -2).reshape(*X_.shape[1:-1], -1)"]
    out.append((holds if ok else unrecognised)("R-LEN", un, role, "; ".join(t)[:100], ov[0], nontrivial=False))
    role = "each sequence consumes its own consecutive block of chunks"
    t = [unparse(s) for s in walk_no_nested(un.node) if isinstance(s, (ast.Assign, ast.AugAssign)) and "lengths_csum" in unparse(s)]
    ok = t == ["lengths_csum = 0", "X_ = X[lengths_csum:lengths_csum + length]", "lengths_csum += length"]
    out.append((holds if ok else unrecognised)("CHUNKS", un, role, "; ".join(t), un.node, nontrivial=False))
    return out


LEVEL_TEXT = ("Writer/reader agreement on sentinel tables, involution of the complement map, agreement of chunk and unchunk on the "
              "chunk count, and linear length identities + strict negativity of from-the-end offsets for every reassembly branch, "
              "proved for all sizes/overlaps from the dominating guards.")
LEVEL_NOTE = ("Decides: sentinel agreement and rejection, N decoding, rc map involution and shared map, chunk-count agreement, "
              "length accounting of the 1/2/many-chunk branches, empty-slice hazards. Not decided: byte-level behaviour for non-ASCII "
              "input; value-level round trip (implied by the structural clauses under the trusted torch semantics).")
TECHNIQUE = "writer/reader table agreement + abstract interpretation of slice extents (linear identities, Fourier-Motzkin) over ast"
