"""C08 - perturbation wrappers evaluate exactly the input that each output index denotes."""
import ast
from ..front import dotted, const_value, unparse, walk_no_nested, parent_map, kwarg
from ..core import holds, violation, unrecognised, named
from ..axes import chain, flat_args, apply_perm, PERMUTERS

ID = "C08"
ANCHORS = 'ablate.ablate,ablate.ablate_annotations,marginalize.marginalize,marginalize.marginalize_annotations,space.space,product.apply_pairwise,product.apply_product'.split(",")
MIN_INSTANCES = 24
# rule families whose findings in this module are derived by an engine (not by comparing spellings): exempt from the rewrite gate
SEMANTIC_RULES = {"R-PURE"}
EXPLANATION = (
    "ROLE rules: in marginalize/ablate/space the 'before' call of func receives the unmodified X (never rebound) and the "
    "'after' call receives exactly the tensor produced by the perturbation primitive called with the caller's own "
    "position arguments. R-ARGWIN (ablate): the [N, n] perturbation tensor is flattened example-major and args are "
    "expanded with repeat_interleave(n, dim=0) - the only expansion with the same order; the un-flatten restores "
    "X_perturb.shape[:2] in both output branches. R-AXES (space): stack over spacings then transpose(0,1) at all four "
    "sites. R-DIMCONF (annotation variants): the per-output re-stacking iterates over the number of model outputs "
    "(len of one element), not over the number of annotations. Product wrappers: itertools.product operand order "
    "equals the reshape extents at every reshape site, the remainder batch is flushed, args stay aligned with X."
)
ASSUMPTIONS = [
    "func is called with exactly the arguments shown (its behaviour is outside the analysed program)",
    "itertools.product order; row-major reshape; repeat_interleave(n, dim=0) is example-major; shuffle_fn returns [N, n, A, L] (C02)",
]


def calls_named(fi, name):
    return [n for n in walk_no_nested(fi.node) if isinstance(n, ast.Call) and dotted(n.func) == name]


def rebound_before(fi, name, node):
    return [n for n in walk_no_nested(fi.node) if isinstance(n, ast.Name) and n.id == name
            and isinstance(n.ctx, ast.Store) and n.lineno < node.lineno]


def assigned_from(fi, var):
    return [n for n in walk_no_nested(fi.node) if isinstance(n, ast.Assign) and len(n.targets) == 1
            and isinstance(n.targets[0], ast.Name) and n.targets[0].id == var]


def before_after(fi, perturb_var, extra_after=None, x_name="X", allow_rebound=False):
    """func(model, X, ...) -> y_before ; func(model, <perturbed>, ...) -> y_after"""
    out = []
    calls = calls_named(fi, "func")
    role_b = "'before' = func(model, %s, ...) on the unmodified input" % x_name
    role_a = "'after' = func(model, <perturbed input>, ...)"
    bef = [c for c in calls if len(c.args) >= 2 and unparse(c.args[1]) == x_name]
    aft = [c for c in calls if c not in bef]
    if not calls:
        return [unrecognised("ROLE", fi, role_b, "no call of func")]
    if not bef:
        out.append(violation("ROLE", fi, role_b, "no func call receives the original %s: %s" % (x_name, [unparse(c)[:50] for c in calls]), calls[0]))
    else:
        c = bef[0]
        rb = rebound_before(fi, x_name, c)
        if unparse(c.args[0]) != "model":
            out.append(violation("ROLE", fi, role_b, "first argument is `%s`" % unparse(c.args[0]), c))
        elif rb and not allow_rebound:
            out.append(violation("ROLE", fi, role_b, "%s is rebound at line %d before the 'before' call" % (x_name, rb[0].lineno), rb[0]))
        else:
            out.append(holds("ROLE", fi, role_b, unparse(c)[:80], c, nontrivial=False))
    if not aft:
        out.append(violation("ROLE", fi, role_a, "no func call on the perturbed input", calls[0]))
    else:
        c = aft[0]
        a1 = unparse(c.args[1]) if len(c.args) > 1 else ""
        ok = a1 == perturb_var or (extra_after is not None and extra_after(c.args[1] if len(c.args) > 1 else None))
        if unparse(c.args[0]) != "model":
            out.append(violation("ROLE", fi, role_a, "after-call is `%s`" % unparse(c)[:80], c))
        elif not ok:
            # a named deviation only: the unmodified input (or nothing) is evaluated again; any other expression is not recognised
            if a1 in (x_name, "") or a1.startswith(x_name + "["):
                out.append(violation("ROLE", fi, role_a, "after-call evaluates `%s`, not the perturbed input: `%s`" % (a1, unparse(c)[:80]), c))
            else:
                out.append(unrecognised("ROLE", fi, role_a, "after-call is `%s`" % unparse(c)[:80], c))
        else:
            out.append(holds("ROLE", fi, role_a, unparse(c)[:80], c, nontrivial=False))
    # which result is returned first
    rets = [n for n in walk_no_nested(fi.node) if isinstance(n, ast.Return)]
    return out


def kw_passthrough(fi, call, expected, role):
    """call passes positional/keyword arguments exactly as `expected` (list of texts for positionals, dict for kws)"""
    pos, kws = expected
    got_pos = [unparse(a) for a in call.args]
    got_kw = {k.arg: unparse(k.value) for k in call.keywords if k.arg}
    for i, t in enumerate(pos):
        if i >= len(got_pos) or got_pos[i] != t:
            return violation("ROLE", fi, role, "argument %d is `%s`, expected `%s`" % (i, got_pos[i] if i < len(got_pos) else "<missing>", t), call)
    for k, t in kws.items():
        if got_kw.get(k) != t:
            return violation("ROLE", fi, role, "%s=%s, expected %s=%s" % (k, got_kw.get(k, "<missing>"), k, t), call)
    for name in set(pos) | set(kws.values()):
        if name.isidentifier() and name in fi.params:
            rb = rebound_before(fi, name, call)
            if rb:
                return named("ROLE", fi, role, "`%s` is modified at line %d before being passed on" % (name, rb[0].lineno), rb[0])
    return holds("ROLE", fi, role, unparse(call)[:90], call, nontrivial=False)


def run(repo, tier):
    out = []
    out += marginalize_rules(repo)
    out += ablate_rules(repo)
    out += space_rules(repo)
    out += annotation_rules(repo)
    out += product_rules(repo, "product.apply_pairwise")
    out += product_rules(repo, "product.apply_product")
    from .c03 import args_as_given_rule
    if repo.has_func("ablate.ablate"):
        out += args_as_given_rule(repo.func("ablate.ablate"))
    return out


# ------------------------------------------------------------------ marginalize
def marginalize_rules(repo):
    fi = repo.func("marginalize.marginalize")
    out = []
    subs = calls_named(fi, "substitute")
    role = "the perturbed input is substitute(X, motif, start=start, alphabet=alphabet)"
    if len(subs) != 1:
        return [unrecognised("ROLE", fi, role, "expected one call of substitute, found %d" % len(subs))]
    out.append(kw_passthrough(fi, subs[0], (["X", "motif"], {"start": "start", "alphabet": "alphabet"}), role))
    var = None
    for a in walk_no_nested(fi.node):
        if isinstance(a, ast.Assign) and a.value is subs[0] and isinstance(a.targets[0], ast.Name):
            var = a.targets[0].id
    if var is None:
        out.append(unrecognised("ROLE", fi, role, "result of substitute is not bound to a name"))
        return out
    out += before_after(fi, var)
    out += return_order(fi, "y_before", "y_after")
    return out


def return_order(fi, b, a):
    rets = [n for n in walk_no_nested(fi.node) if isinstance(n, ast.Return)]
    role = "returns (before, after) in this order"
    if not rets or not isinstance(rets[-1].value, ast.Tuple) or len(rets[-1].value.elts) != 2:
        return [unrecognised("ROLE", fi, role, "return is not a pair")]
    got = [unparse(x) for x in rets[-1].value.elts]
    if got != [b, a]:
        return [violation("ROLE", fi, role, "returns (%s)" % ", ".join(got), rets[-1])]
    # b must be bound from the before call
    return [holds("ROLE", fi, role, "return %s, %s" % (b, a), rets[-1], nontrivial=False)]


# ------------------------------------------------------------------ ablate
def ablate_rules(repo):
    fi = repo.func("ablate.ablate")
    out = []
    sh = calls_named(fi, "shuffle_fn")
    role = "the perturbed inputs are shuffle_fn(X, start=start, end=end, n=n, random_state=random_state)"
    if len(sh) != 1:
        return [unrecognised("ROLE", fi, role, "expected one call of shuffle_fn")]
    out.append(kw_passthrough(fi, sh[0], (["X"], {"start": "start", "end": "end", "n": "n", "random_state": "random_state"}), role))
    var = None
    for a in walk_no_nested(fi.node):
        if isinstance(a, ast.Assign) and a.value is sh[0] and isinstance(a.targets[0], ast.Name):
            var = a.targets[0].id
    if var is None:
        return out + [unrecognised("ROLE", fi, role, "result not bound")]

    def flat(e):
        # <var>.reshape(-1, *<var>.shape[2:])  /  flatten(0, 1)
        if isinstance(e, ast.Call) and isinstance(e.func, ast.Attribute) and unparse(e.func.value) == var:
            if e.func.attr in ("reshape", "view"):
                a = [("*" if isinstance(x, ast.Starred) else "") + unparse(x.value if isinstance(x, ast.Starred) else x) for x in e.args]
                return a == ["-1", "*%s.shape[2:]" % var]
            if e.func.attr == "flatten":
                a = [unparse(x) for x in e.args]
                return a == ["0", "1"]
        return False
    ba = before_after(fi, var, extra_after=flat)
    out += ba
    # the flatten is example-major by construction of reshape(-1, ...) on [N, n, ...]
    calls = calls_named(fi, "func")
    aft = [c for c in calls if len(c.args) >= 2 and unparse(c.args[1]) != "X"]
    role = "extra args are expanded example-major (repeat_interleave(n, dim=0)) to match the flattened [N, n] batch"
    role2 = "the expanded args are the ones passed with the flattened perturbed batch; the originals go with X"
    if aft:
        ka = kwarg(aft[0], "args")
        bef = [c for c in calls if c not in aft]
        kb = kwarg(bef[0], "args") if bef else None
        if ka is None or not isinstance(ka, ast.Name):
            out.append(violation("R-ARGWIN", fi, role2, "after-call passes args=%s" % unparse(ka), aft[0]))
        else:
            defs = assigned_from(fi, ka.id)
            comp = None
            for d in defs:
                for n in ast.walk(d.value):
                    if isinstance(n, (ast.GeneratorExp, ast.ListComp)) and any(
                            isinstance(g.iter, ast.Name) and g.iter.id == "args" for g in n.generators):
                        comp = n
            if comp is None:
                out.append(violation("R-ARGWIN", fi, role, "`%s` is not built from args element-wise" % ka.id, aft[0]))
            else:
                elt = comp.elt
                av = comp.generators[0].target.id
                ok = False
                why = "element is `%s`" % unparse(elt)
                if isinstance(elt, ast.Call) and isinstance(elt.func, ast.Attribute) and unparse(elt.func.value) == av:
                    m = elt.func.attr
                    cnt = unparse(elt.args[0]) if elt.args else unparse(kwarg(elt, "repeats"))
                    dim = kwarg(elt, "dim", 1)
                    if m == "repeat_interleave" and cnt == "n" and const_value(dim) == 0:
                        ok = True
                    elif m == "repeat_interleave" and cnt != "n":
                        why = "repeat count `%s` is not the number of shuffles n" % cnt
                    elif m == "repeat_interleave":
                        why = "repeat_interleave along dim=%s (None flattens, 0 is the example axis)" % unparse(dim)
                    elif m in ("repeat", "tile", "expand"):
                        why = "`.%s(...)` is shuffle-major: row r would meet example r %% N, the flattened batch is example-major" % m
                elif isinstance(elt, ast.Call) and dotted(elt.func) == "torch.repeat_interleave":
                    a0 = unparse(elt.args[0]) if elt.args else ""
                    cnt = unparse(elt.args[1]) if len(elt.args) > 1 else unparse(kwarg(elt, "repeats"))
                    dim = kwarg(elt, "dim", 2)
                    ok = a0 == av and cnt == "n" and const_value(dim) == 0
                out.append((holds if ok else violation)("R-ARGWIN", fi, role, unparse(elt) if ok else why, elt))
            okb = kb is not None and unparse(kb) == "args"
            out.append((holds if okb else violation)("R-ARGWIN", fi, role2,
                       "before: args=%s, after: args=%s" % (unparse(kb), unparse(ka)), aft[0], nontrivial=False))
    # un-flatten in both branches
    role = "outputs are un-flattened to [N, n, ...] with X_perturb.shape[:2] in the %s branch"
    rs = [n for n in walk_no_nested(fi.node) if isinstance(n, ast.Call) and isinstance(n.func, ast.Attribute)
          and n.func.attr in ("reshape", "view") and n not in [c.args[1] for c in aft if len(c.args) > 1]]
    pm = parent_map(fi.node)
    if len(rs) != 2:
        out.append(unrecognised("R-AXES", fi, role % "tensor/list", "expected two un-flatten reshapes, found %d" % len(rs)))
    for r in rs:
        branch = "list" if any(isinstance(a, ast.ListComp) for a in _anc(pm, r)) else "tensor"
        a = [("*" if isinstance(x, ast.Starred) else "") + unparse(x.value if isinstance(x, ast.Starred) else x) for x in r.args]
        base = unparse(r.func.value)
        ok = len(a) == 2 and a[0] == "*%s.shape[:2]" % var and a[1] == "*%s.shape[1:]" % base
        ok = ok or (len(a) == 3 and a[0] in ("X.shape[0]", "%s.shape[0]" % var) and a[1] in ("n", "%s.shape[1]" % var)
                    and a[2] == "*%s.shape[1:]" % base)
        _, ops = chain(_top(pm, r))
        perm = [m for m, c in ops if m in PERMUTERS]
        if perm:
            ok = False
        out.append((holds if ok else violation)("R-AXES", fi, role % branch, "reshape(%s)%s" % (", ".join(a), " followed by " + perm[0] if perm else ""), r))
    out += return_order(fi, "y_before", "y_after")
    return out


def _anc(pm, n):
    while n in pm:
        n = pm[n]
        yield n


def _top(pm, r):
    top = r
    while isinstance(pm.get(top), ast.Attribute) and isinstance(pm.get(pm.get(top)), ast.Call):
        top = pm[pm[top]]
    return top


# ------------------------------------------------------------------ space
def space_rules(repo):
    fi = repo.func("space.space")
    out = []
    ms = calls_named(fi, "multisubstitute")
    role = "row s of the output is built from multisubstitute(X, motifs, <spacing row s>, start=start, alphabet=alphabet)"
    if len(ms) != 1:
        return [unrecognised("ROLE", fi, role, "expected one call of multisubstitute")]
    c = ms[0]
    pm = parent_map(fi.node)
    loop = None
    for a in _anc(pm, c):
        if isinstance(a, ast.For):
            loop = a
            break
    if loop is None or not isinstance(loop.target, ast.Name):
        return [unrecognised("ROLE", fi, role, "multisubstitute is not inside a loop over the spacing rows")]
    lv = loop.target.id
    it = loop.iter
    if isinstance(it, ast.Call) and dotted(it.func) in ("tqdm", "tqdm.tqdm") and it.args:
        it = it.args[0]
    if unparse(it) != "spacing":
        out.append(violation("ROLE", fi, role, "loop iterates `%s`, not the spacing rows in order" % unparse(it), loop))
    sp = unparse(c.args[2]) if len(c.args) > 2 else unparse(kwarg(c, "spacing"))
    # the spacing argument must be derived from the loop variable of this iteration (possibly rebound from itself)
    derived = sp == lv
    for s in loop.body:
        if isinstance(s, ast.Assign) and isinstance(s.targets[0], ast.Name) and s.targets[0].id == sp:
            names = {n.id for n in ast.walk(s.value) if isinstance(n, ast.Name)}
            derived = lv in names
            if isinstance(s.value, ast.ListComp):
                e = s.value
                if not (unparse(e.generators[0].iter) == lv and unparse(e.elt) in ("%s.item()" % e.generators[0].target.id, "int(%s)" % e.generators[0].target.id)):
                    derived = False
    if not derived:
        out.append(violation("ROLE", fi, role, "spacing argument `%s` is not the current spacing row" % sp, c))
    out.append(kw_passthrough(fi, c, (["X", "motifs"], {"start": "start", "alphabet": "alphabet"}), role))
    var = None
    for a in walk_no_nested(fi.node):
        if isinstance(a, ast.Assign) and a.value is c and isinstance(a.targets[0], ast.Name):
            var = a.targets[0].id
    out += before_after(fi, var)
    # both results appended in the same iteration, unconditionally
    role = "each iteration appends its before/after result exactly once, in order"
    apps = [s for s in loop.body if isinstance(s, ast.Expr) and isinstance(s.value, ast.Call)
            and isinstance(s.value.func, ast.Attribute) and s.value.func.attr == "append"]
    targets = sorted(unparse(s.value.func.value) for s in apps)
    if targets != ["y_afters", "y_befores"]:
        out.append(violation("ROLE", fi, role, "appends in loop body: %s" % targets, loop))
    else:
        amap = {unparse(s.value.func.value): unparse(s.value.args[0]) for s in apps}
        # y_befores gets the before call result
        bcalls = [x for x in calls_named(fi, "func") if len(x.args) > 1 and unparse(x.args[1]) == "X"]
        bvar = None
        for s in loop.body:
            if isinstance(s, ast.Assign) and bcalls and s.value is bcalls[0] and isinstance(s.targets[0], ast.Name):
                bvar = s.targets[0].id
        acalls = [x for x in calls_named(fi, "func") if x not in bcalls]
        avar = None
        for s in loop.body:
            if isinstance(s, ast.Assign) and acalls and s.value is acalls[0] and isinstance(s.targets[0], ast.Name):
                avar = s.targets[0].id
        if amap["y_befores"] != bvar or amap["y_afters"] != avar:
            out.append(violation("ROLE", fi, role, "y_befores gets `%s`, y_afters gets `%s`" % (amap["y_befores"], amap["y_afters"]), apps[0]))
        else:
            out.append(holds("ROLE", fi, role, "y_befores.append(%s); y_afters.append(%s)" % (bvar, avar), apps[0], nontrivial=False))
    # stack + transpose at four sites
    stacks = [n for n in walk_no_nested(fi.node) if isinstance(n, ast.Call) and dotted(n.func) == "torch.stack"]
    role = "results stacked over spacings are transposed to [example, spacing, ...] (site %d: %s branch, %s)"
    if len(stacks) != 4:
        out.append(unrecognised("R-AXES", fi, "stack/transposes", "expected 4 torch.stack sites, found %d" % len(stacks)))
    for k, s in enumerate(stacks):
        top = _top(pm, s)
        # chain on top of the stack call
        cur = top
        ops = []
        node = s
        while isinstance(pm.get(node), ast.Attribute) and isinstance(pm.get(pm.get(node)), ast.Call):
            call = pm[pm[node]]
            ops.append((pm[node].attr, call))
            node = call
        lab = ["S", "N", "R"]
        bad = None
        for m, call in ops:
            if m in PERMUTERS:
                nxt = apply_perm(lab, m, call)
                if nxt is None:
                    bad = "cannot interpret .%s" % m
                    break
                lab = nxt
        branch = "list" if any(isinstance(a, ast.ListComp) for a in _anc(pm, s)) else "tensor"
        which = "before" if "before" in unparse(_stmt(pm, s)).split("=")[0] else "after"
        r = role % (k, branch, which)
        dim = kwarg(s, "dim", 1)
        if dim is not None and const_value(dim) == 1:
            lab = ["N", "S", "R"] if not ops else lab
        if bad:
            out.append(unrecognised("R-AXES", fi, r, bad, s))
        elif lab[:2] != ["N", "S"]:
            out.append(violation("R-AXES", fi, r, "layout after the chain is %s, documented is [N, S, ...]" % lab, s))
        else:
            out.append(holds("R-AXES", fi, r, "layout %s" % lab, s))
    return out


def _stmt(pm, n):
    while not isinstance(n, ast.stmt):
        n = pm[n]
    return n


# ------------------------------------------------------------------ annotation variants
def annotation_rules(repo):
    out = []
    for q, inner, expected in (
            ("ablate.ablate_annotations", "ablate", (["model", "X[idx:idx + 1]"], {"start": "start", "end": "end"})),
            ("marginalize.marginalize_annotations", "marginalize", (["model", "X0", "seq"], {}))):
        fi = repo.func(q)
        pm = parent_map(fi.node)
        cs = calls_named(fi, inner)
        role = "annotation a is evaluated on its own example and span"
        if len(cs) != 1:
            out.append(unrecognised("ROLE", fi, role, "expected one call of %s" % inner))
            continue
        c = cs[0]
        loop = None
        for a in _anc(pm, c):
            if isinstance(a, ast.For):
                loop = a
                break
        if loop is None or unparse(loop.target) != "(idx, start, end)" or unparse(loop.iter) != "annotations":
            out.append(unrecognised("ROLE", fi, role, "loop `for idx, start, end in annotations` not found"))
            continue
        out.append(kw_passthrough(fi, c, expected, role))
        if inner == "marginalize":
            role2 = "the transplanted motif is X[idx, :, start:end] of the annotation's own example"
            seqdef = [s for s in loop.body if isinstance(s, ast.Assign) and unparse(s.targets[0]) == "seq"]
            t = unparse(seqdef[0].value) if seqdef else ""
            ok = t in ("X[idx, :, start:end].unsqueeze(0)", "X[idx:idx + 1, :, start:end]", "X[idx, :, start:end][None]")
            out.append((holds if ok else violation)("ROLE", fi, role2, "seq = %s" % t, seqdef[0] if seqdef else loop))
        # appends in the loop, unconditional, one per annotation
        apps = [s for s in loop.body if isinstance(s, ast.Expr) and isinstance(s.value, ast.Call)
                and isinstance(s.value.func, ast.Attribute) and s.value.func.attr == "append"]
        role3 = "every annotation appends its (before, after) result once, in annotation order"
        tg = {unparse(s.value.func.value): unparse(s.value.args[0]) for s in apps}
        if tg != {"y_befores": "y_before", "y_afters": "y_after"}:
            out.append(violation("ROLE", fi, role3, "appends: %s" % tg, loop))
        else:
            # the tuple-unpack target of the inner call
            asg = _stmt(pm, c)
            ok = isinstance(asg, ast.Assign) and unparse(asg.targets[0]) == "(y_before, y_after)"
            out.append((holds if ok else violation)("ROLE", fi, role3, unparse(asg)[:70], asg, nontrivial=False))
        # R-DIMCONF
        comps = [n for n in walk_no_nested(fi.node) if isinstance(n, ast.ListComp) and any(
            isinstance(x, ast.ListComp) for x in ast.walk(n.elt))]
        role4 = "multi-output results are re-stacked per model output (index ranges over one element's outputs) [%s]"
        if len(comps) != 2:
            out.append(unrecognised("R-DIMCONF", fi, role4 % "befores/afters", "expected two transpose comprehensions, found %d" % len(comps)))
        for comp in comps:
            g = comp.generators[0]
            inner_c = [x for x in ast.walk(comp.elt) if isinstance(x, ast.ListComp)][0]
            ig = inner_c.generators[0]
            container = unparse(ig.iter)
            which = "befores" if "before" in container else "afters"
            iv = g.target.id if isinstance(g.target, ast.Name) else None
            ev = ig.target.id if isinstance(ig.target, ast.Name) else None
            elt_ok = unparse(inner_c.elt) == "%s[%s]" % (ev, iv)
            rng = unparse(g.iter)
            good = {"range(len(%s[0]))" % container}
            bad_same = "range(len(%s))" % container
            if not elt_ok:
                out.append(unrecognised("R-DIMCONF", fi, role4 % which, "inner element `%s`" % unparse(inner_c.elt), comp))
            elif rng == bad_same:
                out.append(named("R-DIMCONF", fi, role4 % which,
                                     "`%s` ranges over the container (annotations) while `%s[%s]` subscripts its elements (model outputs)" % (rng, ev, iv), comp,
                                     witness={"annotations": 1, "model_outputs": 2, "effect": "second output dropped; IndexError with 3 annotations"}))
            elif rng in good:
                out.append(holds("R-DIMCONF", fi, role4 % which, rng, comp))
            else:
                # other container mixed in (e.g. befores indexed by len(afters[0])) is fine only if it is an element of a sibling
                sib = {"range(len(y_afters[0]))", "range(len(y_befores[0]))"}
                if rng in sib:
                    out.append(holds("R-DIMCONF", fi, role4 % which, rng, comp))
                else:
                    out.append(unrecognised("R-DIMCONF", fi, role4 % which, "index range `%s`" % rng, comp))
        # tensor branch stacks over annotations
        role5 = "single-output results are stacked over annotations"
        st = [n for n in walk_no_nested(fi.node) if isinstance(n, ast.Call) and dotted(n.func) == "torch.stack"
              and n.args and unparse(n.args[0]) in ("y_befores", "y_afters")]
        ok = len(st) == 2 and all(kwarg(s, "dim", 1) is None or const_value(kwarg(s, "dim", 1)) == 0 for s in st)
        out.append((holds if ok else violation)("R-AXES", fi, role5, "%d stack site(s) over the annotation axis" % len(st), st[0] if st else fi.node, nontrivial=False))
    return out


# ------------------------------------------------------------------ product wrappers
def product_rules(repo, q):
    fi = repo.func(q)
    out = []
    pm = parent_map(fi.node)
    prods = calls_named(fi, "itertools.product")
    role = "flat order of itertools.product equals the reshape extents Xal"
    if len(prods) != 1:
        return [unrecognised("R-AXES", fi, role, "expected one itertools.product")]
    p = prods[0]
    ops = [("*" if isinstance(a, ast.Starred) else "") + unparse(a.value if isinstance(a, ast.Starred) else a) for a in p.args]
    xal = assigned_from(fi, "Xal")
    if len(xal) != 1:
        return [unrecognised("R-AXES", fi, role, "Xal not found")]
    xt = unparse(xal[0].value)
    pairs = {
        ("X", "zip(*args)"): {"[len(X), len(args[0])]"},
        ("X", "*args"): {"[len(X)] + [len(a) for a in args]", "[len(X), *[len(a) for a in args]]", "[len(X), *(len(a) for a in args)]"},
    }
    key = tuple(ops)
    if key not in pairs and "X" in ops and ops[0] != "X":
        out.append(violation("R-AXES", fi, role, "product(%s): X is not the slowest-varying operand although the loop takes "
                             "element [0] as the example and Xal starts with len(X)" % ", ".join(ops), p))
    elif key not in pairs:
        out.append(unrecognised("R-AXES", fi, role, "product operands %s" % (ops,), p))
    elif xt not in pairs[key]:
        out.append(violation("R-AXES", fi, role, "product(%s) enumerates %s-major but Xal = %s" % (", ".join(ops), ops[0], xt), xal[0],
                             witness={"product": ops, "Xal": xt}))
    else:
        out.append(holds("R-AXES", fi, role, "product(%s) ~ Xal = %s" % (", ".join(ops), xt), p))
    # reshape sites
    rs = [n for n in walk_no_nested(fi.node) if isinstance(n, ast.Call) and isinstance(n.func, ast.Attribute)
          and n.func.attr in ("reshape", "view")]
    if len(rs) != 3:
        out.append(unrecognised("R-AXES", fi, "reshape sites", "expected 3 reshape sites, found %d" % len(rs)))
    for k, r in enumerate(rs):
        a = [("*" if isinstance(x, ast.Starred) else "") + unparse(x.value if isinstance(x, ast.Starred) else x) for x in r.args]
        role_r = "reshape site %d restores [*Xal, *output dims] from the concatenated batches" % k
        base = r.func.value
        okb = isinstance(base, ast.Call) and dotted(base.func) == "torch.cat" and (kwarg(base, "dim", 1) is None or const_value(kwarg(base, "dim", 1)) == 0)
        _, chops = chain(_top(pm, r))
        perm = [m for m, c in chops if m in PERMUTERS]
        ok = a[:1] == ["*Xal"] and len(a) == 2 and a[1].startswith("*") and okb and not perm
        out.append((holds if ok else violation)("R-AXES", fi, role_r, "%s.reshape(%s)" % (unparse(base)[:30], ", ".join(a)), r))
    # loop unpacking: x[0] is the X element, x[1:] / x[1] the args
    loops = [n for n in walk_no_nested(fi.node) if isinstance(n, ast.For) and any(x is p for x in ast.walk(n.iter))]
    if not loops:
        return out + [unrecognised("R-FLUSH", fi, "batch loop", "loop over the product not found")]
    loop = loops[0]
    lv = unparse(loop.target)
    role = "element k of the flat enumeration contributes X part and arg parts to the same batch row"
    xa = [s for s in loop.body if isinstance(s, ast.Expr) and unparse(s.value) == "X_.append(%s[0])" % lv]
    inner = [s for s in loop.body if isinstance(s, ast.For)]
    ok = bool(xa) and len(inner) == 1
    if ok:
        il = inner[0]
        want_iter = "enumerate(%s[1])" % lv if key == ("X", "zip(*args)") else "enumerate(%s[1:])" % lv
        ok = unparse(il.iter) == want_iter and len(il.body) == 1 and \
            unparse(il.body[0]) == "args_[%s].append(%s)" % (il.target.elts[0].id, il.target.elts[1].id) \
            if isinstance(il.target, ast.Tuple) and len(il.target.elts) == 2 else False
    out.append((holds if ok else violation)("R-ARGWIN", fi, role, "X_.append(x[0]); args_[i].append(arg) for every arg of the same tuple" if ok
                                            else "loop body does not append the X part and every arg part of the same product element", loop))
    # flush
    role = "the last partial batch is evaluated (for...else / post-loop flush guarded by non-emptiness)"
    trig = [s for s in loop.body if isinstance(s, ast.If) and "len(X_)" in unparse(s.test) and "batch_size" in unparse(s.test)]
    if not trig:
        out.append(unrecognised("R-FLUSH", fi, role, "batch trigger `if len(X_) == batch_size` not found"))
        return out
    t = trig[0]
    tt = unparse(t.test)
    if tt not in ("len(X_) == batch_size", "len(X_) >= batch_size", "batch_size == len(X_)"):
        out.append(violation("R-FLUSH", fi, "batch trigger fires when the buffer holds batch_size elements", "trigger is `%s`" % tt, t))
    else:
        resets = [s for s in t.body if isinstance(s, ast.Assign) and "X_" in unparse(s.targets[0])]
        ev = [s for s in t.body if isinstance(s, ast.Assign) and isinstance(s.value, ast.Call) and dotted(s.value.func) == "_apply"]
        ap = [s for s in t.body if isinstance(s, ast.Expr) and unparse(s.value).startswith("y.append(")]
        ok = bool(resets) and bool(ev) and bool(ap) and t.body.index(ev[0]) < t.body.index(ap[0]) < t.body.index(resets[0])
        verdict = violation
        if ok:
            after = [unparse(s_) for s_ in t.body[t.body.index(ap[0]) + 1:] if isinstance(s_, ast.Assign)]
            both = ("X_, args_ = ([], [[] for _ in args])" in after or "(X_, args_) = ([], [[] for _ in args])" in after or
                    ("X_ = []" in after and "args_ = [[] for _ in args]" in after))
            if not both:
                ok = False
                # named deviation: exactly one of the two buffers is reset (rows of later batches pair with stale arguments); any other
                # spelling of the reset is not recognised
                one = ("X_ = []" in after) != any(a.startswith("args_ = ") for a in after)
                # named deviation: list multiplication makes every per-argument buffer the SAME list object
                aliased = any(a.startswith("args_ = [[]] * ") or a.startswith("args_ = [[]]*") for a in after) or \
                    any("[[]] * len(args)" in a for a in after)
                verdict = named if (one or aliased) else unrecognised
        out.append((holds if ok else verdict)("R-FLUSH", fi, "a full batch is evaluated, appended, then both buffers are reset together",
                                              unparse(t.test), t))
    post = list(loop.orelse)
    idx = None
    for parent_body in (fi.node.body,):
        if loop in parent_body:
            idx = parent_body.index(loop)
            post += parent_body[idx + 1: idx + 2]
    flush = None
    for s in post:
        if isinstance(s, ast.If) and unparse(s.test) in ("len(X_) > 0", "X_", "len(X_) != 0", "len(X_)", "len(X_) >= 1"):
            if any(isinstance(n, ast.Call) and dotted(n.func) == "_apply" for n in ast.walk(s)) and \
                    any(unparse(x).startswith("y.append(") for x in s.body):
                flush = s
    if flush is None:
        out.append(violation("R-FLUSH", fi, role, "no flush of the remaining buffered elements after the loop", loop))
    else:
        out.append(holds("R-FLUSH", fi, role, "remainder flushed under `%s`" % unparse(flush.test), flush))
    # the _apply calls pass the buffers by keyword/position consistently
    role = "buffers are evaluated together: _apply(func, model, X_, args=args_, ...)"
    aps = calls_named(fi, "_apply")
    bad = [c for c in aps if [unparse(a) for a in c.args[:3]] != ["func", "model", "X_"] or unparse(kwarg(c, "args", 3)) != "args_"]
    out.append((violation("ROLE", fi, role, unparse(bad[0])[:80], bad[0]) if bad else
                holds("ROLE", fi, role, "%d call sites" % len(aps), aps[0] if aps else fi.node, nontrivial=False)))
    return out


LEVEL_TEXT = ("Structural role and layout rules over the wrappers' source: which tensor reaches func in the before/after "
              "calls, how position arguments flow to the perturbation primitive, example-major expansion of args, the "
              "un-flatten/transposition of outputs in every branch, per-output re-stacking for annotation variants, and "
              "product-order vs reshape-extent agreement with remainder flush. Independent of shapes, counts and func.")
LEVEL_NOTE = ("Decides the index<->input correspondence of every wrapper for all numbers of shuffles/spacings/annotations/"
              "outputs. Not decided: anything about func beyond 'called with these inputs'; numeric outputs. Trusted: torch "
              "reshape/stack/repeat_interleave and itertools.product order.")
TECHNIQUE = "role/dataflow pattern rules + dimension-label layout typing over ast"
