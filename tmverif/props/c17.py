"""C17 - GC-matched background loci are valid, disjoint from the input and GC-balanced (structural clauses)."""
import ast
from ..affine import Lin, ge, le, decide, entails, consistent_model, cone, SearchLimit
from ..front import dotted, const_value, unparse, walk_no_nested, parent_map, kwarg
from ..core import holds, violation, unrecognised
from ..flow import AbsInt
from ..rules import decide_states

ID = "C17"
ANCHORS = 'match.extract_matching_loci,match._extract_and_filter_chrom'.split(",")
MIN_INSTANCES = 12
# rule families whose findings in this module are derived by an engine (not by comparing spellings): exempt from the rewrite gate
SEMANTIC_RULES = {"R-SLICE0"}
EXPLANATION = (
    "R-COVER: in the nearest-bin spill search of extract_matching_loci both arms (bin i+offset, bin i-offset) are analysed in the "
    "linear-constraint domain: every store index is inside [0, n) and the guards admit the extreme bins 0 and n-1 (a guard that "
    "is stronger than the range check leaves a bin unusable). R-SLICE0 + width identity for the signal window of "
    "_extract_and_filter_chrom: the slice bounds are in range for in_window >= out_window including equality (a from-the-end "
    "offset of 0 would select nothing) and the window has exactly out_window columns. MASK: the `value not in mask[chrom]` test "
    "dominates every append to the candidate lists and the mask covers tiles start//W .. end//W of every input locus. TILES: "
    "returned coordinates are (k*W, (k+1)*W). COUNTS: every transfer takes min(background, wanted) and updates the three "
    "histograms together. R-RNG: all randomness comes from the RandomState built from random_state; Parallel results are "
    "consumed zipped with the submission order (n_jobs invariance)."
)
ASSUMPTIONS = ["joblib.Parallel returns results in submission order; numpy RandomState.shuffle is deterministic for a seed",
               "N fraction / signal values of tiles (file contents) and the robust minimum are NOT decided"]
M = "match"


def run(repo, tier):
    out = []
    out += spill_rules(repo)
    out += signal_window_rules(repo)
    out += mask_rules(repo)
    out += misc_rules(repo)
    return out


def spill_rules(repo):
    fi = repo.func(M + ".extract_matching_loci")
    out = []
    ai = AbsInt(fi, int_params={"i", "n", "offset", "idx"})
    pm = parent_map(fi.node)
    stores = [s for s in walk_no_nested(fi.node) if isinstance(s, ast.AugAssign) and unparse(s.target) == "matched_loci_bin_count[idx]"]
    if len(stores) != 2:
        return [unrecognised("R-COVER", fi, "spill search arms", "expected two `matched_loci_bin_count[idx] += count` stores, found %d" % len(stores))]
    # n = len(loci_bin_count)
    for k, s in enumerate(stores):
        sts = ai.states_at(s)
        arm = "upper (i + offset)" if k == 0 else "lower (i - offset)"
        role = "spill arm %s: store index inside [0, n)" % arm

        def mk(st):
            idx = st.env.get("idx")
            n = st.env.get("n")
            if idx is None or n is None:
                return None
            return [("idx >= 0", idx), ("idx <= n - 1", n - idx - 1)]
        out.append(decide_states(ai, fi, s, mk, "R-COVER", role))
        # coverage of the extreme bin
        role = "spill arm %s can reach the %s bin (the guard is not stronger than the range check)" % (arm, "last" if k == 0 else "first (bin 0)")
        verdict = None
        reach = False
        for st in sts:
            idx = st.env.get("idx")
            n = st.env.get("n")
            if idx is None or n is None:
                verdict = unrecognised("R-COVER", fi, role, "idx / n not tracked", s)
                break
            target = (n - 1) if k == 0 else Lin(0)
            G = cone(st.G, idx) + [ge(idx, target), le(idx, target)]
            # n >= 2 bins exist
            G.append(ge(n, 2))
            try:
                m = consistent_model(G, [], scope=(-2, 8))
            except SearchLimit:
                m = None
                verdict = unrecognised("R-COVER", fi, role, "search budget exhausted", s)
                break
            if m is not None:
                reach = True
        if verdict is None:
            if reach:
                verdict = holds("R-COVER", fi, role, "a model of the path guards with idx == %s exists" % ("n-1" if k == 0 else "0"), s)
            else:
                g = s
                while g in pm and not isinstance(g, ast.If):
                    g = pm[g]
                verdict = violation("R-COVER", fi, role,
                                    "no path reaches the store with idx == %s: guard `%s` excludes that bin, its background tiles are never used for spill-over" % (
                                        "n-1" if k == 0 else "0", unparse(g.test) if isinstance(g, ast.If) else "?"), s,
                                    witness={"background": "only in GC bin %s" % ("n-1" if k == 0 else "0"), "effect": "0 loci returned although tiles are eligible"})
        out.append(verdict)
    # offsets start at 0 and run over all distances
    role = "offsets 0 .. n-1 are tried in increasing order for every bin with unmatched loci"
    ol = [n for n in walk_no_nested(fi.node) if isinstance(n, ast.For) and isinstance(n.target, ast.Name) and n.target.id == "offset"]
    if len(ol) != 1:
        out.append(unrecognised("R-COVER", fi, role, "offset loop not found"))
    else:
        t = unparse(ol[0].iter)
        if t in ("range(n)", "range(0, n)"):
            out.append(holds("R-COVER", fi, role, t, ol[0], nontrivial=False))
        elif t in ("range(1, n)", "range(n - 1)", "range(1, n - 1)"):
            out.append(violation("R-COVER", fi, role, "offset loop `%s` does not cover distances 0..n-1" % t, ol[0]))
        else:
            out.append(unrecognised("R-COVER", fi, role, t, ol[0]))
    role = "the spill search visits every GC bin (highest first) and the selection emits every bin"
    outer = [n_ for n_ in walk_no_nested(fi.node) if isinstance(n_, ast.For) and isinstance(n_.target, ast.Name) and n_.target.id == "i"
             and any(x in stores for x in ast.walk(n_))]
    sel = [n_ for n_ in walk_no_nested(fi.node) if isinstance(n_, ast.For) and any(isinstance(x, ast.For) and unparse(x.iter) == "range(matched_loci_bin_count[i])" for x in n_.body)]
    nt = [unparse(s_.value) for s_ in walk_no_nested(fi.node) if isinstance(s_, ast.Assign) and unparse(s_.targets[0]) == "n"]
    t1 = unparse(outer[0].iter) if outer else "?"
    t2 = unparse(sel[0].iter) if sel else "?"
    if t1 in ("range(n - 1, -1, -1)", "reversed(range(n))") and t2 == "range(n)" and nt == ["len(loci_bin_count)"]:
        out.append(holds("R-COVER", fi, role, "%s ; %s" % (t1, t2), outer[0], nontrivial=False))
    elif outer and sel and nt == ["len(loci_bin_count)"]:
        out.append(violation("R-COVER", fi, role, "bins are visited by `%s` / emitted by `%s`: a GC bin is left out" % (t1, t2), outer[0] if t1 not in ("range(n - 1, -1, -1)", "reversed(range(n))") else sel[0]))
    else:
        out.append(unrecognised("R-COVER", fi, role, "%s ; %s ; n=%s" % (t1, t2, nt)))
    # COUNTS: every transfer is min(bg, wanted) and updates the three histograms together
    role = "each transfer takes min(background[idx], wanted[i]) and updates background, wanted and matched together"
    bad = None
    n_ok = 0
    for s in stores:
        p = pm[s]
        blk = p.body if s in getattr(p, "body", []) else getattr(p, "orelse", [])
        t = [unparse(x) for x in blk]
        # the amount variable is whatever receives min(background[idx], wanted[i]) in this block
        amt = [x.targets[0].id for x in blk if isinstance(x, ast.Assign) and isinstance(x.targets[0], ast.Name) and
               unparse(x.value) in ("min(bg_bin_count[idx], loci_bin_count[i])", "min(loci_bin_count[i], bg_bin_count[idx])")]
        c_ = amt[0] if amt else "count"
        need = ["bg_bin_count[idx] -= %s" % c_, "loci_bin_count[i] -= %s" % c_, "matched_loci_bin_count[idx] += %s" % c_]
        if not amt or [x for x in t if x in need] != need:
            bad = (s, t, c_, bool(amt))
        else:
            n_ok += 1
    if bad:
        t, c_, has_min = bad[1], bad[2], bad[3]
        direct = [x for x in t if x in ("%s = bg_bin_count[idx]" % c_, "%s = loci_bin_count[i]" % c_)]
        if not has_min and direct:
            out.append(violation("COUNTS", fi, role, "transfer amount is `%s`, not min(background, wanted)" % direct[0], bad[0]))
        elif has_min and not any(x.startswith("bg_bin_count[") and "-=" in x for x in t):
            out.append(violation("COUNTS", fi, role, "background histogram is not reduced: the same tiles can be promised twice", bad[0]))
        elif has_min and not any(x.startswith("loci_bin_count[") and "-=" in x for x in t):
            out.append(violation("COUNTS", fi, role, "wanted histogram is not reduced: more loci than inputs can be matched", bad[0]))
        else:
            out.append(unrecognised("COUNTS", fi, role, str(t)[:200], bad[0]))
    else:
        out.append(holds("COUNTS", fi, role, "%d transfer sites" % n_ok, stores[0]))
    role = "exact-bin matching first: matched = minimum(background, wanted), both reduced by it"
    src = [unparse(s) for s in walk_no_nested(fi.node) if isinstance(s, (ast.Assign, ast.AugAssign))]
    need = ["matched_loci_bin_count = numpy.minimum(bg_bin_count, loci_bin_count)", "bg_bin_count -= matched_loci_bin_count",
            "loci_bin_count -= matched_loci_bin_count"]
    ok = [x for x in src if x in need] == need
    out.append((holds if ok else unrecognised)("COUNTS", fi, role, "; ".join(x for x in src if x in need), fi.node, nontrivial=False))
    return out


def _conj(t):
    if isinstance(t, ast.BoolOp) and isinstance(t.op, ast.And):
        return [c for v in t.values for c in _conj(v)]
    return [t]


def signal_window_rules(repo):
    fi = repo.func(M + "._extract_and_filter_chrom")
    out = []
    ai = AbsInt(fi, int_params={"in_window", "out_window"}, nonneg_params=("out_window",))
    sl = [s for s in walk_no_nested(fi.node) if isinstance(s, ast.Assign) and unparse(s.targets[0]) == "values"
          and isinstance(s.value, ast.Subscript) and isinstance(s.value.slice, ast.Tuple) and len(s.value.slice.elts) == 2
          and isinstance(s.value.slice.elts[1], ast.Slice) and s.value.slice.elts[1].lower is not None]
    role = "signal window columns [left_flank, in_window - right_flank) are in range and exactly out_window wide for in_window >= out_window"
    if len(sl) != 1:
        return [unrecognised("R-SLICE0", fi, role, "window slice of `values` not found")]
    s = sl[0]
    sli = s.value.slice.elts[1]
    asserts = [a for a in walk_no_nested(fi.node) if isinstance(a, ast.Assert)]
    has_assert = any(unparse(a.test) in ("in_window >= out_window", "out_window <= in_window") for a in asserts)

    def mk(st):
        if has_assert:
            st.add(ge(Lin.atom("in_window"), Lin.atom("out_window")))
        W = Lin.atom("in_window")
        lo = ai.lin(st, sli.lower)
        if sli.upper is None:
            hi = W
        else:
            v = ai.lin(st, sli.upper)
            if v is None:
                return None
            neg = isinstance(sli.upper, ast.UnaryOp) and isinstance(sli.upper.op, ast.USub)
            if neg or (not v.is_const() and entails(st.G, -v)):
                # from-the-end offset: python selects up to W + v only when v <= -1; v == 0 selects nothing
                return [("from-the-end offset `%s` is <= -1 (0 would select nothing)" % unparse(sli.upper), (-v) - 1),
                        ("window width >= out_window", (W + v - lo) - Lin.atom("out_window")),
                        ("window width <= out_window", Lin.atom("out_window") - (W + v - lo)), ("lower >= 0", lo)]
            hi = v
        if lo is None:
            return None
        return [("lower >= 0", lo), ("upper <= in_window", W - hi), ("window width >= out_window", (hi - lo) - Lin.atom("out_window")),
                ("window width <= out_window", Lin.atom("out_window") - (hi - lo))]
    out.append(decide_states(ai, fi, s, mk, "R-SLICE0", role))
    role = "per-tile signal is the nan-sum over the window and tiles above the threshold are dropped"
    src = [unparse(x) for x in walk_no_nested(fi.node) if isinstance(x, ast.Assign)]
    ok = "values = numpy.nansum(values, axis=-1)" in src and "idxs = idxs & (values <= signal_threshold)" in src
    if ok:
        out.append(holds("SIGNAL", fi, role, "nansum(axis=-1); idxs & (values <= signal_threshold)", fi.node, nontrivial=False))
    elif any("values >= signal_threshold" in x or "values > signal_threshold" in x for x in src):
        out.append(violation("SIGNAL", fi, role, "tiles ABOVE the threshold are kept", fi.node))
    else:
        out.append(unrecognised("SIGNAL", fi, role, str([x for x in src if "values" in x])[:200]))
    # the filter is switched on by the bigwig alone
    role = "the signal filter runs whenever a bigwig is given (its only switch is `bigwig is not None`; a threshold of 0 is a legal value)"
    pm_ = parent_map(fi.node)
    flt = [x for x in walk_no_nested(fi.node) if isinstance(x, ast.Assign) and unparse(x.targets[0]) == "idxs" and "signal_threshold" in unparse(x.value)]
    if len(flt) != 1:
        out.append(unrecognised("SIGNAL", fi, role, "filter statement not found"))
    else:
        conj, q = [], pm_.get(flt[0])
        while q is not None and q is not fi.node:
            if isinstance(q, ast.If):
                inbody = any(flt[0] is x for b in q.body for x in ast.walk(b))
                conj += [(c, inbody) for c in _conj(q.test)]
            elif isinstance(q, (ast.For, ast.While, ast.Try)):
                conj.append((q, True))
            q = pm_.get(q)
        other = [(c, b) for c, b in conj if not (b and not isinstance(c, ast.stmt) and unparse(c) in ("bigwig is not None", "not bigwig is None", "not (bigwig is None)"))]
        tr = [c for c, b in other if b and isinstance(c, ast.Name) and c.id in fi.params]
        if not conj:
            out.append(unrecognised("SIGNAL", fi, role, "filter is unconditional (bigwig=None would fail)", flt[0]))
        elif tr:
            out.append(violation("SIGNAL", fi, role, "the filter is additionally switched by the truth value of `%s`: a threshold of 0 (robust minimum 0, or "
                                 "signal_beta = 0) silently disables it and tiles with arbitrary signal are returned" % tr[0].id, flt[0]))
        elif other:
            out.append(unrecognised("SIGNAL", fi, role, "additional conditions around the filter: %s" % [unparse(c)[:50] for c, b in other], flt[0]))
        else:
            out.append(holds("SIGNAL", fi, role, "if bigwig is not None: ... %s" % unparse(flt[0]), flt[0]))
    role = "tiles with too many N are dropped (n_perc <= max_n_perc)"
    ok = "idxs = n_perc <= max_n_perc" in src
    if ok:
        out.append(holds("SIGNAL", fi, role, "idxs = n_perc <= max_n_perc", fi.node, nontrivial=False))
    elif "idxs = n_perc >= max_n_perc" in src or "idxs = n_perc > max_n_perc" in src:
        out.append(violation("SIGNAL", fi, role, "N filter is inverted", fi.node))
    else:
        out.append(unrecognised("SIGNAL", fi, role, str([x for x in src if "n_perc" in x])))
    role = "candidate tiles are grouped by their own GC bin"
    gd = [x for x in src if x.startswith("gc_perc = {")]
    if gd == ["gc_perc = {gc: numpy.nonzero(idxs & (gc_perc == gc))[0].tolist() for gc in unique_gc}"]:
        out.append(holds("SIGNAL", fi, role, gd[0][:90], fi.node, nontrivial=False))
    elif gd and "gc_perc != gc" in gd[0]:
        out.append(violation("SIGNAL", fi, role, "tiles are grouped under every bin except their own", fi.node))
    elif gd and "idxs &" not in gd[0]:
        out.append(violation("SIGNAL", fi, role, "the N / signal filter `idxs` is not applied when grouping: %s" % gd[0][:80], fi.node))
    else:
        out.append(unrecognised("SIGNAL", fi, role, str(gd)[:120]))
    role = "the signal is reshaped into whole in_window tiles before windowing"
    ok = "values = values[:values.shape[0] // in_window * in_window]" in src and "values = values.reshape(-1, in_window)" in src
    out.append((holds if ok else unrecognised)("SIGNAL", fi, role, "trim to a multiple of in_window; reshape(-1, in_window)", fi.node, nontrivial=False))
    return out


def mask_rules(repo):
    fi = repo.func(M + ".extract_matching_loci")
    out = []
    pm = parent_map(fi.node)
    role = "a tile touched by any input locus is never a candidate: `value not in mask[chrom]` dominates the append"
    apps = [n for n in walk_no_nested(fi.node) if isinstance(n, ast.Call) and unparse(n.func) == "gc_percs[key].append"]
    if len(apps) != 1:
        out.append(unrecognised("MASK", fi, role, "candidate append not found"))
    else:
        a = apps[0]
        g = a
        tests = []
        while g in pm:
            g = pm[g]
            if isinstance(g, ast.If):
                tests.append(unparse(g.test))
        if "value not in mask[chrom]" in tests:
            ok = unparse(a.args[0]) == "(chrom, value)"
            cnt = [s for s in walk_no_nested(fi.node) if isinstance(s, ast.AugAssign) and unparse(s) == "bg_bin_count[key] += 1"]
            same = bool(cnt) and pm[cnt[0]] is pm[pm[a]]
            if ok and same:
                out.append(holds("MASK", fi, role, "append((chrom, value)) and bg_bin_count[key] += 1 under the mask test", a))
            elif not same:
                out.append(violation("MASK", fi, role, "the eligible-background count is not updated together with the candidate list", a))
            else:
                out.append(unrecognised("MASK", fi, role, unparse(a)))
        else:
            out.append(violation("MASK", fi, role, "candidates are appended without testing the mask (guards: %s)" % tests, a))
    role = "the mask of an input locus covers tiles start//W .. end//W inclusive"
    src = [unparse(s) for s in walk_no_nested(fi.node) if isinstance(s, (ast.Assign, ast.Expr))]
    need = ["start = locus.start // in_window", "end = locus.end // in_window + 1", "mask[locus.chrom].extend(range(start, end))"]
    ok = [x for x in src if x in need] == need
    if ok:
        out.append(holds("MASK", fi, role, "; ".join(need), fi.node))
    elif "end = locus.end // in_window" in src:
        out.append(violation("MASK", fi, role, "the tile containing the locus end is not masked (end = locus.end // in_window)", fi.node))
    else:
        out.append(unrecognised("MASK", fi, role, str([x for x in src if "locus." in x])))
    # the mask is built from EVERY input locus: `loci` reaches the mask loop as the caller's table (or the file read from it), never as a
    # filtered subset - a locus that is dropped from the matching for another reason must still be excluded from the background
    role_all = "the exclusion mask is built from every input locus (the table is not filtered before the mask loop)"
    mloops = [n for n in walk_no_nested(fi.node) if isinstance(n, ast.For) and any(isinstance(x, ast.Name) and x.id == "loci" for x in ast.walk(n.iter))
              and any("mask[" in unparse(s_) for s_ in n.body)]
    if len(mloops) != 1:
        out.append(unrecognised("MASK", fi, role_all, "loop over `loci` that fills the mask not found"))
    else:
        from ..core import named
        rebinds = [n for n in walk_no_nested(fi.node) if isinstance(n, ast.Assign) and any(isinstance(t, ast.Name) and t.id == "loci" for t in n.targets)
                   and n.lineno < mloops[0].lineno]
        filt = [n for n in rebinds if (isinstance(n.value, ast.Subscript) and isinstance(n.value.value, ast.Name) and n.value.value.id == "loci")
                or (isinstance(n.value, ast.Call) and isinstance(n.value.func, ast.Attribute) and isinstance(n.value.func.value, ast.Name) and
                    n.value.func.value.id == "loci" and n.value.func.attr in ("query", "drop", "dropna", "head", "tail", "sample", "drop_duplicates"))
                or (isinstance(n.value, ast.Subscript) and isinstance(n.value.value, ast.Attribute) and n.value.value.attr in ("loc", "iloc") and
                    isinstance(n.value.value.value, ast.Name) and n.value.value.value.id == "loci")]
        other = [n for n in rebinds if n not in filt and "read_csv" not in unparse(n.value)]
        if filt:
            out.append(named("MASK", fi, role_all, "`%s` (line %d) keeps a subset of the input loci before the mask is built: the tiles of the dropped loci "
                             "can be returned as background" % (unparse(filt[0])[:60], filt[0].lineno), filt[0]))
        elif other:
            out.append(unrecognised("MASK", fi, role_all, "`loci` is rebound by `%s` before the mask loop" % unparse(other[0])[:60], other[0]))
        else:
            out.append(holds("MASK", fi, role_all, "mask loop iterates `%s`" % unparse(mloops[0].iter)[:50], mloops[0], nontrivial=False))
    return out


def misc_rules(repo):
    fi = repo.func(M + ".extract_matching_loci")
    out = []
    src = [unparse(s) for s in walk_no_nested(fi.node) if isinstance(s, (ast.Assign, ast.Expr))]
    role = "returned loci are aligned tiles (k*W, (k+1)*W) taken from the first matched[i] shuffled candidates of bin i"
    need = ["chrom, start = gc_percs[i][j]", "matched_loci['chrom'].append(chrom)", "matched_loci['start'].append(start * in_window)",
            "matched_loci['end'].append((start + 1) * in_window)"]
    loops = [n for n in walk_no_nested(fi.node) if isinstance(n, ast.For) and unparse(n.iter) == "range(matched_loci_bin_count[i])"]
    ok = [x for x in src if x in need] == need and len(loops) == 1
    if ok:
        out.append(holds("TILES", fi, role, "; ".join(need[2:]), loops[0]))
    elif any("append(start * in_window + " in x or "append((start + 1) * in_window - 1)" in x or "append(start * out_window)" in x for x in src):
        out.append(violation("TILES", fi, role, "returned coordinates are not tile boundaries: %s" % [x for x in src if "matched_loci[" in x], fi.node))
    else:
        out.append(unrecognised("TILES", fi, role, str([x for x in src if "matched_loci[" in x or "gc_percs[i]" in x])[:200]))
    # R-RNG
    role = "all randomness is drawn from the RandomState built from `random_state`"
    glob = [n for n in walk_no_nested(fi.node) if isinstance(n, ast.Call) and (dotted(n.func) or "").startswith("numpy.random.")
            and dotted(n.func) != "numpy.random.RandomState"]
    glob += [n for n in walk_no_nested(fi.node) if isinstance(n, ast.Call) and (dotted(n.func) or "").startswith("random.")]
    rs = [n for n in fi.node.body if isinstance(n, ast.If) and unparse(n.test) == "not isinstance(random_state, numpy.random.RandomState)"]
    sh = [x for x in src if x == "random_state.shuffle(value)"]
    if glob:
        out.append(violation("R-RNG", fi, role, "unseeded global generator call `%s`" % unparse(glob[0])[:50], glob[0]))
    elif not rs or not sh:
        out.append(unrecognised("R-RNG", fi, role, "RandomState construction / shuffle not found"))
    else:
        out.append(holds("R-RNG", fi, role, "RandomState(random_state); random_state.shuffle(value) per bin", rs[0]))
    role = "candidate lists are shuffled per bin in a fixed bin order before selection"
    sl = [n for n in walk_no_nested(fi.node) if isinstance(n, ast.For) and unparse(n.iter) == "gc_percs.items()"]
    ok = bool(sl) and any(unparse(x) == "random_state.shuffle(value)" for x in sl[0].body)
    out.append((holds if ok else unrecognised)("R-RNG", fi, role, "for key, value in gc_percs.items(): random_state.shuffle(value)", sl[0] if sl else fi.node, nontrivial=False))
    # n_jobs invariance
    role = "per-chromosome results are consumed zipped with the chromosomes in submission order (independent of n_jobs)"
    par = [n for n in walk_no_nested(fi.node) if isinstance(n, ast.Call) and isinstance(n.func, ast.Call) and dotted(n.func.func) == "Parallel"]
    z = [n for n in walk_no_nested(fi.node) if isinstance(n, ast.For) and unparse(n.iter) == "zip(chroms, chrom_percs)"]
    if not par or not z:
        out.append(unrecognised("ORDER", fi, role, "Parallel(...)(...) / zip(chroms, chrom_percs) not found"))
    else:
        gen = par[0].args[0] if par[0].args else None
        it = unparse(gen.generators[0].iter) if isinstance(gen, ast.GeneratorExp) else "?"
        ok = it in ("tqdm(chroms, disable=not verbose, desc=desc)", "chroms")
        if ok:
            out.append(holds("ORDER", fi, role, "submitted over chroms, consumed with zip(chroms, chrom_percs)", z[0]))
        elif "sorted(" in it or "reversed(" in it or "set(" in it:
            out.append(violation("ORDER", fi, role, "jobs are submitted over `%s` but consumed zipped with chroms" % it, par[0]))
        else:
            out.append(unrecognised("ORDER", fi, role, it))
    # worker is effect free w.r.t. shared state: it only returns a dict
    w = repo.func(M + "._extract_and_filter_chrom")
    role = "the per-chromosome worker has no global/nonlocal state and returns its result"
    gl = [n for n in walk_no_nested(w.node) if isinstance(n, (ast.Global, ast.Nonlocal))]
    out.append(violation("ORDER", w, role, "worker declares global state", gl[0]) if gl else holds("ORDER", w, role, "no global/nonlocal statements", w.node, nontrivial=False))
    # tiling generator
    g = repo.func(M + "._chrom_coords_generator")
    role = "background tiles are consecutive full-width windows inside the chromosome"
    t = [unparse(s) for s in walk_no_nested(g.node) if isinstance(s, (ast.For, ast.Assign, ast.Expr))]
    loops = [n for n in walk_no_nested(g.node) if isinstance(n, ast.For)]
    ok = bool(loops) and unparse(loops[0].iter) == "range(width, chrom_size + 1, width)"
    if ok:
        out.append(holds("TILES", g, role, "for end in range(width, chrom_size + 1, width)", loops[0]))
    elif loops and unparse(loops[0].iter) in ("range(width, chrom_size + width, width)", "range(width, chrom_size + width + 1, width)"):
        out.append(violation("TILES", g, role, "last tile can extend past the chromosome end: `%s`" % unparse(loops[0].iter), loops[0]))
    else:
        out.append(unrecognised("TILES", g, role, unparse(loops[0].iter) if loops else "?"))
    # final result sorted (deterministic order)
    role = "GC bins use the same binning for inputs and background"
    f2 = repo.func(M + "._extract_and_filter_chrom")
    s2 = [unparse(s) for s in walk_no_nested(f2.node) if isinstance(s, ast.Assign)]
    ok = "loci_gc = ((loci_gc + gc_bin_width / 2.0) // gc_bin_width).astype(int)" in [x for x in src] and \
        "gc_perc = ((gc_perc + gc_bin_width / 2.0) // gc_bin_width).astype(int)" in s2
    out.append((holds if ok else unrecognised)("TILES", fi, role, "((x + w/2) // w).astype(int) on both sides", fi.node, nontrivial=False))
    return out


LEVEL_TEXT = ("Linear-constraint analysis of the spill search (index range and reachability of the extreme bins) and of the signal "
              "window (range, strict negativity of from-the-end offsets, width identity for in_window >= out_window incl. equality), "
              "plus dominance of the mask test, histogram-update agreement, tile-coordinate form, RNG and job-order rules.")
LEVEL_NOTE = ("Decides: bin coverage of the spill search, signal-window slice validity/width, mask dominance and extent, count update "
              "protocol, tile alignment, seeded randomness, n_jobs-independent consumption order. NOT decided: N fraction / signal values "
              "of returned tiles and the robust minimum (file contents); the exact 'at least min(input, eligible)' count per bin follows "
              "from the protocol but is not computed. Confirmed-form clauses give ANALYSIS-ERROR on unknown rewrites.")
TECHNIQUE = "abstract interpretation (linear constraints: range + reachability models) + dominance/protocol rules over ast"
