"""C02 - shuffles preserve composition (mono- or di-nucleotide), flanks and determinism (structural clauses)."""
import ast
from ..affine import Lin, decide
from ..front import dotted, const_value, unparse, walk_no_nested, parent_map, kwarg
from ..core import holds, violation, unrecognised, named
from ..flow import AbsInt
from ..rules import decide_states, subscript_bounds_obligations, pure_params, Must, call_matcher
from ..axes import chain, apply_perm, PERMUTERS
from .c01 import x_slices, accept_rule
from ..affine import ge

ID = "C02"
ANCHORS = 'ersatz.shuffle,ersatz.dinucleotide_shuffle,ersatz._dinucleotide_shuffle,ersatz._fast_shuffle'.split(",")
MIN_INSTANCES = 14
# rule families whose findings in this module are derived by an engine (not by comparing spellings): exempt from the rewrite gate
SEMANTIC_RULES = {"MUST-VALIDATE", "R-PURE"}
EXPLANATION = (
    "REGION: in ersatz.shuffle the slice that is overwritten and the slice that is gathered from are the same linear forms "
    "[start, end) of the unmodified input, proved inside [0, L] from the guards (including the negative-`end` normalisation), "
    "and the gather index is an arange(end-start) permuted in place by the seeded generator - a permutation by construction, so "
    "the multiset inside the region is preserved and everything outside is an untouched clone. dinucleotide_shuffle writes the "
    "walk's result into the same [start, end) it read. R-RNG: every draw from a global generator is control-dependent on "
    "`random_state is None` or dominated by numpy.random.seed(<seed>) in the jitted walk; the per-example seed is random_state + "
    "example index. PREFIX-PERM (necessary condition of 'the walk cannot strand'): the random permutation is applied to the strict "
    "prefix [:-1] of every character's successor list, the counters are consumed monotonically. R-AXES: outputs are [N, n, A, L]. "
    "R-PURE for X."
)
ASSUMPTIONS = ["RandomState.shuffle / numpy.random.permutation produce permutations; the Euler-path theorem (last outgoing edge kept last "
               "=> a complete walk exists) is NOT proved here, only its structural premise",
               "dinucleotide-count preservation itself and one-hot validity of float32 outputs are not decided"]
E = "ersatz"


def run(repo, tier):
    out = []
    out += shuffle_rules(repo)
    out += dinuc_rules(repo)
    out += walk_rules(repo)
    out += pure_params(repo, repo.func(E + ".shuffle"), ["X"])
    out += pure_params(repo, repo.func(E + ".dinucleotide_shuffle"), ["X"])
    out += pure_params(repo, repo.func(E + "._dinucleotide_shuffle"), ["X"])
    return out


def shuffle_rules(repo):
    fi = repo.func(E + ".shuffle")
    ai = AbsInt(fi, int_params={"start", "end", "n"})
    out = []
    sites = x_slices(fi, ai)
    if len(sites) < 2:
        return [unrecognised("REGION", fi, "region slices", "expected the store and the gather slice of an X-shaped tensor")]
    for k, (stmt, sub, sl) in enumerate(sites):
        store = isinstance(sub.ctx, ast.Store)
        role = "%s slice [start, end) of the %s lies inside [0, L]" % ("overwritten" if store else "gathered", "clone" if store else "input")

        def mk(st, sub=sub, sl=sl):
            Ex = Lin.atom(ai.shape_atom(st, sub.value.id, -1))
            return subscript_bounds_obligations(ai, st, sub, Ex, sl, strict=True)
        out.append(decide_states(ai, fi, stmt, mk, "REGION", role))
    st_sites = [(s, sub, sl) for (s, sub, sl) in sites if isinstance(sub.ctx, ast.Store)]
    ld_sites = [(s, sub, sl) for (s, sub, sl) in sites if isinstance(sub.ctx, ast.Load)]
    role = "the overwritten region equals the gathered region, and the source is the unmodified input X"
    if len(st_sites) != 1 or len(ld_sites) != 1:
        out.append(unrecognised("REGION", fi, role, "expected one store and one gather slice"))
    else:
        (s, ssub, ssl), (_, lsub, lsl) = st_sites[0], ld_sites[0]

        def mk(st):
            Ex = Lin.atom(ai.shape_atom(st, ssub.value.id, -1))
            a = ai.slice_bounds(st, ssl, Ex)
            b = ai.slice_bounds(st, lsl, Ex)
            if a is None or b is None:
                return None
            return [("same lower bound", a[0] - b[0]), ("same lower bound'", b[0] - a[0]), ("same upper bound", a[1] - b[1]), ("same upper bound'", b[1] - a[1])]
        r = decide_states(ai, fi, s, mk, "REGION", role)
        if r.status == "HOLDS" and lsub.value.id != "X":
            r = violation("REGION", fi, role, "the gathered source is `%s`, not the caller's X (an earlier shuffle would leak into the next)" % lsub.value.id, s)
        out.append(r)
        # the gather index: arange(end-start), shuffled in place by the seeded generator
        role = "the gather index is arange(end - start) permuted in place by the seeded RandomState"
        v = s.value
        idxname = None
        if isinstance(v, ast.Subscript) and isinstance(v.slice, ast.Tuple) and isinstance(v.slice.elts[-1], ast.Name):
            idxname = v.slice.elts[-1].id
        pm = parent_map(fi.node)
        blk = pm[s].body if s in getattr(pm[s], "body", []) else []
        defs = [x for x in blk if isinstance(x, ast.Assign) and unparse(x.targets[0]) == idxname]
        shf = [x for x in blk if isinstance(x, ast.Expr) and unparse(x.value) == "random_state.shuffle(%s)" % idxname]
        if idxname is None or not defs:
            out.append(unrecognised("REGION", fi, role, "gather index not recognised in `%s`" % unparse(v)[:60], s))
        else:
            t = unparse(defs[0].value)
            if t not in ("numpy.arange(end - start)", "numpy.arange(start, end) - start"):
                if t.startswith("numpy.arange("):
                    out.append(violation("REGION", fi, role, "index is `%s`: its extent differs from the region" % t, defs[0]))
                else:
                    out.append(unrecognised("REGION", fi, role, t, defs[0]))
            elif not shf or not (blk.index(defs[0]) < blk.index(shf[0]) < blk.index(s)):
                out.append(violation("REGION", fi, role, "the index is not shuffled between its creation and the gather", s))
            else:
                out.append(holds("REGION", fi, role, "%s; random_state.shuffle(%s)" % (t, idxname), defs[0]))
        # clone per shuffle
        role = "each shuffle starts from a fresh clone of X"
        cl = [x for x in blk if isinstance(x, ast.Assign) and unparse(x.targets[0]) == ssub.value.id and unparse(x.value) in ("torch.clone(X)", "X.clone()")]
        ok = bool(cl) and blk.index(cl[0]) < blk.index(s)
        out.append((holds if ok else violation)("REGION", fi, role, unparse(cl[0]) if cl else "no clone of X inside the per-shuffle loop", cl[0] if cl else s))
    # RNG
    role = "randomness comes from RandomState(random_state); no global generator"
    glob = [n for n in walk_no_nested(fi.node) if isinstance(n, ast.Call) and (dotted(n.func) or "").startswith("numpy.random.")
            and dotted(n.func) != "numpy.random.RandomState"]
    rs = [n for n in fi.node.body if isinstance(n, ast.If) and unparse(n.test) == "not isinstance(random_state, numpy.random.RandomState)"
          and [unparse(x) for x in n.body] == ["random_state = numpy.random.RandomState(random_state)"]]
    if glob:
        out.append(violation("R-RNG", fi, role, "global generator call `%s`" % unparse(glob[0])[:50], glob[0]))
    else:
        out.append((holds if rs else unrecognised)("R-RNG", fi, role, "RandomState built from the parameter", rs[0] if rs else fi.node))
    # layout
    out += layout_rule(fi, "torch.stack(X_shufs)", ["n", "N", "A", "L"])
    # exactly n shuffles, each appended
    role = "n shuffles are produced and all are returned"
    loops = [n for n in fi.node.body if isinstance(n, ast.For)]
    okn = bool(loops) and unparse(loops[-1].iter) == "range(n)" and any(isinstance(x, ast.Expr) and unparse(x.value).startswith("X_shufs.append(") for x in loops[-1].body)
    if okn:
        out.append(holds("R-AXES", fi, role, "for i in range(n): ... X_shufs.append(X_)", loops[-1], nontrivial=False))
    elif loops and unparse(loops[-1].iter) != "range(n)":
        out.append(violation("R-AXES", fi, role, "loop runs over `%s`" % unparse(loops[-1].iter), loops[-1]))
    else:
        out.append(unrecognised("R-AXES", fi, role, "shuffle loop not recognised"))
    # negative end means 'counted from the end, -1 = through the last position'
    role = "a negative end is normalised to L + 1 + end (end=-1 shuffles through the last position)"
    norm = [x for x in walk_no_nested(fi.node) if isinstance(x, ast.If) and unparse(x.test) in ("end < 0", "end <= -1")]
    if not norm or len(norm[0].body) != 1 or not isinstance(norm[0].body[0], ast.Assign):
        out.append(unrecognised("REGION", fi, role, "normalisation `if end < 0: end = ...` not found"))
    else:
        a = norm[0].body[0]

        def mk(st):
            v = ai.lin(st, a.value)
            exp = Lin.atom("X.shape[-1]") + 1 + Lin.atom("end")
            if v is None:
                return None
            return [("normalised end >= L + 1 + end", v - exp), ("normalised end <= L + 1 + end", exp - v)]
        out.append(decide_states(ai, fi, a, mk, "REGION", role))
    # acceptance of every region inside the sequence, validation
    out += accept_rule(repo, "shuffle", lambda ai_, st: [ge(Lin.atom("start"), 0), ge(Lin.atom("end"), Lin.atom("start") + 1),
                                                       ge(Lin.atom("X.shape[-1]"), Lin.atom("end"))], rule="R-ACCEPT")
    m = Must(fi, call_matcher({"val": lambda c: dotted(c.func) == "_validate_input" and c.args and unparse(c.args[0]) == "X"
                               and const_value(kwarg(c, "ohe", 6)) is True}))
    okv = all("val" in f for _, f in m.return_facts) and bool(m.return_facts)
    out.append((holds if okv else violation)("MUST-VALIDATE", fi, "X is validated as one-hot before use", "dominates %d return(s)" % len(m.return_facts), fi.node))
    return out


def layout_rule(fi, stack_text, labels):
    role = "returned tensor is laid out [example, shuffle, alphabet, position]"
    ret = [s for s in walk_no_nested(fi.node) if isinstance(s, ast.Return)]
    if not ret:
        return [unrecognised("R-AXES", fi, role, "no return")]
    base, ops = chain(ret[-1].value)
    if unparse(base) != stack_text and not (isinstance(base, ast.Call) and dotted(base.func) == "torch.stack"):
        return [unrecognised("R-AXES", fi, role, unparse(ret[-1].value)[:80], ret[-1])]
    lab = list(labels)
    dim = kwarg(base, "dim", 1) if isinstance(base, ast.Call) else None
    if dim is not None and const_value(dim) == 1 and labels[0] == "n":
        lab = ["N", "n", "A", "L"]
    for m, c in ops:
        if m in PERMUTERS:
            lab = apply_perm(lab, m, c)
            if lab is None:
                return [unrecognised("R-AXES", fi, role, "cannot interpret .%s" % m, ret[-1])]
    if lab != ["N", "n", "A", "L"]:
        return [violation("R-AXES", fi, role, "layout is %s" % lab, ret[-1])]
    return [holds("R-AXES", fi, role, unparse(ret[-1].value)[:80], ret[-1])]


def _copies_of(e):
    """(example index text, number of copies text) of a fresh tensor built from rows of X, or None:
       X[i:i + 1] -> (i, 1 with a leading axis) ; X[i] -> (i, no leading axis) ; clone / detach / contiguous keep it ; unsqueeze(0) / [None]
       add the leading axis ; .repeat(k, 1, 1) makes k copies (a missing leading axis is prepended by repeat itself)"""
    def ev(e):
        # -> (index text, copies text | None for 'no leading axis yet')
        if isinstance(e, ast.Subscript) and isinstance(e.value, ast.Name) and e.value.id == "X":
            sl = e.slice
            if isinstance(sl, ast.Slice) and sl.lower is not None and sl.upper is not None and sl.step is None and \
                    unparse(sl.upper) in ("%s + 1" % unparse(sl.lower), "1 + %s" % unparse(sl.lower)):
                return unparse(sl.lower), "1"
            if isinstance(sl, (ast.Name, ast.Constant)):
                return unparse(sl), None
            if isinstance(sl, ast.Tuple) and len(sl.elts) == 1 + 0 and isinstance(sl.elts[0], ast.Constant) and sl.elts[0].value is None:
                return None
            return None
        if isinstance(e, ast.Subscript) and isinstance(e.slice, ast.Constant) and e.slice.value is None:
            r = ev(e.value)
            return (r[0], "1") if r and r[1] is None else None
        if isinstance(e, ast.Call):
            f = e.func
            if dotted(f) == "torch.clone" and len(e.args) == 1 and not e.keywords:
                return ev(e.args[0])
            if isinstance(f, ast.Attribute) and f.attr in ("clone", "detach", "contiguous") and not e.args and not e.keywords:
                return ev(f.value)
            if isinstance(f, ast.Attribute) and f.attr == "unsqueeze" and len(e.args) == 1 and const_value(e.args[0]) == 0:
                r = ev(f.value)
                return (r[0], "1") if r and r[1] is None else None
            if isinstance(f, ast.Attribute) and f.attr == "repeat" and len(e.args) == 3 and not e.keywords and \
                    const_value(e.args[1]) == 1 and const_value(e.args[2]) == 1:
                r = ev(f.value)
                if r and r[1] in (None, "1"):
                    return r[0], unparse(e.args[0])
        return None
    r = ev(e)
    return r if r and r[1] is not None else None


def dinuc_rules(repo):
    fi = repo.func(E + ".dinucleotide_shuffle")
    out = []
    loop = [n for n in fi.node.body if isinstance(n, ast.For)]
    if not loop or not isinstance(loop[0].target, ast.Name):
        return [unrecognised("REGION", fi, "per-example loop", "not found")]
    loop = loop[0]
    iv = loop.target.id
    role = "the walk's result is written into the same [start, end) it was computed from, for the same example"
    call = [n for n in walk_no_nested(loop) if isinstance(n, ast.Call) and dotted(n.func) == "_dinucleotide_shuffle"]
    st = [s for s in loop.body if isinstance(s, ast.Assign) and isinstance(s.targets[0], ast.Subscript)]
    if len(call) != 1 or len(st) != 1:
        out.append(unrecognised("REGION", fi, role, "expected one walk call and one region store"))
    else:
        src = unparse(call[0].args[0]) if call[0].args else ""
        tgt = unparse(st[0].targets[0])
        base = unparse(st[0].targets[0].value)
        res = [s for s in loop.body if isinstance(s, ast.Assign) and s.value is call[0]]
        resname = unparse(res[0].targets[0]) if res else None
        if src != "X[%s, :, start:end]" % iv:
            out.append(violation("REGION", fi, role, "walk input is `%s`" % src, call[0]))
        elif tgt != "%s[:, :, start:end]" % base:
            out.append(violation("REGION", fi, role, "result is written to `%s` although it was computed from [start:end)" % tgt, st[0]))
        elif unparse(st[0].value) != resname:
            out.append(violation("REGION", fi, role, "stored value is `%s`" % unparse(st[0].value), st[0]))
        else:
            cl = [s for s in loop.body if isinstance(s, ast.Assign) and unparse(s.targets[0]) == base]
            t = unparse(cl[0].value) if cl else ""
            got = _copies_of(cl[0].value) if cl else None
            if got is None:
                out.append(unrecognised("REGION", fi, role, "the output buffer `%s` is not a recognised way of writing n copies of example %s" % (t, iv), cl[0] if cl else st[0]))
            elif got != (iv, "n"):
                out.append(named("REGION", fi, role, "the output buffer is `%s`: %s cop(ies) of example `%s`, not n copies of example %s" % (t, got[1], got[0], iv), cl[0]))
            else:
                out.append(holds("REGION", fi, role, "%s <- walk(%s)" % (tgt, src), st[0]))
        # n passed through
        role = "the number of shuffles and verbosity are passed through; the per-example seed is random_state + example index"
        kw = {k.arg: unparse(k.value) for k in call[0].keywords}
        if kw.get("random_state") != "random_state + %s" % iv and kw.get("random_state") != "%s + random_state" % iv:
            out.append(violation("R-RNG", fi, role, "seed passed to the walk is `%s`" % kw.get("random_state"), call[0],
                                 witness={"effect": "examples share a seed / the seed depends on something other than (random_state, example index)"}))
        elif kw.get("n_shuffles") != "n":
            out.append(violation("R-RNG", fi, role, "n_shuffles=%s" % kw.get("n_shuffles"), call[0]))
        else:
            out.append(holds("R-RNG", fi, role, "random_state=random_state + %s, n_shuffles=n" % iv, call[0]))
    # the unseeded draw
    for q in (E + ".dinucleotide_shuffle", E + "._dinucleotide_shuffle"):
        f = repo.func(q)
        role = "the only draw from the global generator replaces a seed that is None"
        pm = parent_map(f.node)
        draws = [n for n in walk_no_nested(f.node) if isinstance(n, ast.Call) and (dotted(n.func) or "").startswith("numpy.random.")
                 and dotted(n.func) not in ("numpy.random.RandomState",)]
        bad = None
        for d in draws:
            g = d
            tests = []
            while g in pm:
                g = pm[g]
                if isinstance(g, ast.If):
                    tests.append(unparse(g.test))
            if "random_state is None" not in tests:
                bad = (d, tests)
        if bad:
            out.append(violation("R-RNG", f, role, "`%s` is guarded by %s: a given seed (e.g. a numpy integer) can be replaced by a random one, "
                                 "so repeated calls with the same seed differ" % (unparse(bad[0])[:40], bad[1] or "nothing"), bad[0]))
        else:
            out.append(holds("R-RNG", f, role, "%d global draw(s), each under `random_state is None`" % len(draws), f.node, nontrivial=bool(draws)))
    role = "every example is shuffled and returned (loop over range(X.shape[0]), one append per example)"
    okl = unparse(loop.iter) in ("range(X.shape[0])", "range(len(X))") and any(isinstance(x, ast.Expr) and unparse(x.value).startswith("X_shufs.append(") for x in loop.body)
    if okl:
        out.append(holds("R-AXES", fi, role, unparse(loop.iter), loop, nontrivial=False))
    else:
        out.append(violation("R-AXES", fi, role, "loop runs over `%s`" % unparse(loop.iter), loop))
    # validation
    role = "X is validated as a 3-d one-hot tensor before use"
    m = Must(fi, call_matcher({"val": lambda c: dotted(c.func) == "_validate_input" and c.args and unparse(c.args[0]) == "X"
                               and const_value(kwarg(c, "ohe", 6)) is True}))
    ok = all("val" in f for _, f in m.return_facts) and bool(m.return_facts)
    out.append((holds if ok else violation)("MUST-VALIDATE", fi, role, "dominates %d return(s)" % len(m.return_facts), fi.node))
    # layout
    out += layout_rule(fi, "torch.stack(X_shufs)", ["N", "n", "A", "L"])
    return out


def walk_rules(repo):
    out = []
    fs = repo.func(E + "._fast_shuffle")
    body = [s for s in fs.node.body if not (isinstance(s, ast.Expr) and isinstance(s.value, ast.Constant))]
    role = "the jitted walk seeds the global generator before its first draw"
    seeds = [s for s in body if isinstance(s, ast.Expr) and unparse(s.value) == "numpy.random.seed(random_state)"]
    draws = [n for n in walk_no_nested(fs.node) if isinstance(n, ast.Call) and (dotted(n.func) or "").startswith("numpy.random.")
             and dotted(n.func) != "numpy.random.seed"]
    if not draws:
        out.append(unrecognised("R-RNG", fs, role, "no random draw in the walk"))
    elif not seeds or any(any(d is x for x in ast.walk(b_)) for b_ in body[:body.index(seeds[0])] for d in draws):
        out.append(named("R-RNG", fs, role, "numpy.random.seed(random_state) does not precede the first draw: draws at %s are unseeded" % fs.line(draws[0]), draws[0]))
    else:
        out.append(holds("R-RNG", fs, role, "the seed is a top-level statement before every draw; %d draw(s) follow" % len(draws), seeds[0]))
    role = "the random permutation is applied to the strict prefix of each successor list (the last outgoing edge stays last)"
    src = [unparse(s) for s in walk_no_nested(fs.node) if isinstance(s, ast.Assign)]
    a = "next_idxs_ = numpy.arange(n)"
    b = "next_idxs_[:-1] = numpy.random.permutation(n - 1)"
    c = "next_idxs[char, :n] = next_idxs[char, :n][next_idxs_]"
    if [x for x in src if x in (a, b, c)] == [a, b, c]:
        out.append(holds("PREFIX-PERM", fs, role, "; ".join((a, b, c)), fs.node))
    elif "next_idxs_ = numpy.random.permutation(n)" in src or "next_idxs_[:] = numpy.random.permutation(n)" in src:
        out.append(named("PREFIX-PERM", fs, role, "the whole successor list is permuted: the last edge can move and the walk can strand", fs.node))
    elif any(x.startswith("next_idxs_[1:] = numpy.random.permutation") for x in src):
        out.append(named("PREFIX-PERM", fs, role, "the FIRST edge is kept instead of the last", fs.node))
    else:
        out.append(unrecognised("PREFIX-PERM", fs, role, str([x for x in src if "next_idxs" in x])[:200]))
    role = "the walk consumes each character's successor list monotonically and emits one character per position"
    need = ["char = idxs[idx]", "count = counters[i, char]", "idx = next_idxs[char, count]", "shuffled_sequences[i, idxs[idx], j] = 1"]
    srcw = [unparse(s) for s in walk_no_nested(fs.node) if isinstance(s, (ast.Assign, ast.AugAssign))]
    need2 = need[:3] + ["counters[i, char] += 1"] + need[3:]
    got = [x for x in srcw if x in need2]
    if got == need2 and "shuffled_sequences[i, idxs[idx], 0] = 1" in srcw and "idx = 0" in srcw:
        out.append(holds("WALK", fs, role, "; ".join(need2), fs.node))
    elif not any(x.startswith("counters[") for x in srcw):
        # true absence: nothing in the walk writes the per-character consumption counter at all
        out.append(named("WALK", fs, role, "nothing writes `counters[...]`: every step re-reads successor 0 of its character", fs.node))
    else:
        out.append(unrecognised("WALK", fs, role, str(got)))
    role = "the walk visits every shuffle, every character's successor list and every position after the first"
    its = [unparse(l.iter) for l in walk_no_nested(fs.node) if isinstance(l, ast.For)]
    if its == ["range(n_shuffles)", "range(n_chars)", "range(1, len(idxs))"]:
        out.append(holds("WALK", fs, role, "; ".join(its), fs.node, nontrivial=False))
    elif len(its) == 3:
        out.append(violation("WALK", fs, role, "loop ranges are %s" % its, fs.node))
    else:
        out.append(unrecognised("WALK", fs, role, str(its)))
    ds = repo.func(E + "._dinucleotide_shuffle")
    role = "successor lists are built for every character"
    its = [unparse(l.iter) for l in walk_no_nested(ds.node) if isinstance(l, ast.For)]
    if its == ["range(n_chars)"]:
        out.append(holds("WALK", ds, role, its[0], ds.node, nontrivial=False))
    else:
        out.append(violation("WALK", ds, role, "loop ranges are %s" % its, ds.node))
    role = "successor lists hold, for each character, the positions following its occurrences (all but the last position)"
    src = [unparse(s) for s in walk_no_nested(ds.node) if isinstance(s, ast.Assign)]
    need = ["next_idxs_ = numpy.where(idxs[:-1] == char)[0]", "n = len(next_idxs_)", "next_idxs[char][:n] = next_idxs_ + 1", "next_idxs_counts[char] = n"]
    if [x for x in src if x in need] == need:
        out.append(holds("WALK", ds, role, "; ".join(need), ds.node))
    elif "next_idxs_ = numpy.where(idxs == char)[0]" in src:
        out.append(violation("WALK", ds, role, "the last position is given a successor beyond the sequence", ds.node))
    else:
        out.append(unrecognised("WALK", ds, role, str([x for x in src if "next_idxs" in x])[:200]))
    role = "the walk is started with fresh zeroed outputs and counters and receives the caller's seed"
    call = [n for n in walk_no_nested(ds.node) if isinstance(n, ast.Call) and dotted(n.func) == "_fast_shuffle"]
    ok = bool(call) and [unparse(a) for a in call[0].args] == ["n_shuffles", "n_chars", "idxs", "next_idxs", "next_idxs_counts", "counters", "shuffled_sequences", "random_state"] \
        and "counters = numpy.zeros((n_shuffles, n_chars), dtype=numpy.int32)" in src and \
        "shuffled_sequences = numpy.zeros((n_shuffles, *X.shape), dtype=numpy.float32)" in src
    out.append((holds if ok else unrecognised)("WALK", ds, role, unparse(call[0])[:100] if call else "?", call[0] if call else ds.node, nontrivial=False))
    return out


LEVEL_TEXT = ("Region proofs in the linear-constraint domain (slice bounds and store/gather agreement for every start/end incl. negative "
              "end), structural permutation argument for composition preservation, seed-dependence (R-RNG) rules quantifying over all "
              "seeds and call histories, the structural premise of the Euler-walk argument, output layout and input purity.")
LEVEL_NOTE = ("Decides: region confinement, multiset preservation for shuffle (by construction), determinism structure (seeding, per-example "
              "seed, no unguarded global draws), prefix-permutation premise, layout, purity. NOT decided: that the walk cannot strand and "
              "dinucleotide-count preservation (combinatorial theorem), validity of float32 one-hot values.")
TECHNIQUE = "abstract interpretation of slice bounds (linear constraints) + RNG control-dependence / dominance rules + alias analysis over ast"
