"""C13 - TOMTOM results are independent of threads, co-processed queries and their order."""
import ast
from ..affine import Lin, ge, le
from ..front import dotted, const_value, unparse, walk_no_nested, parent_map, kwarg, AnalysisError
from ..core import holds, violation, unrecognised, Result, HOLDS
from .. import scratch

ID = "C13"
ANCHORS = 'tools.tomtom._tomtom,tools.tomtom._binned_median,tools.tomtom._pairwise_max'.split(",")
MIN_INSTANCES = 30
# rule families whose findings in this module are derived by an engine (not by comparing spellings): exempt from the rewrite gate
SEMANTIC_RULES = {"R-TID", "R-RACE", "R-SCRATCH", "R-BOUNDS", "STATE"}
EXPLANATION = (
    "R-TID: every array allocated before the prange loop of tomtom._tomtom and used inside it other than through the prange "
    "variable is per-thread scratch and must be addressed with the thread id (numba.get_thread_id()) as first index at every "
    "use. R-RACE: every store in the prange body to storage created outside it is indexed by the prange variable or the "
    "thread id. R-SCRATCH (history independence): region-based def-before-use analysis over the inlined kernels "
    "(_integer_distances_and_histogram, _binned_median, _p_value_backgrounds, _pairwise_max, _p_values, _merge_rc_results): "
    "for every read of a scratch cell within one prange iteration an earlier write of the same iteration must cover it - "
    "cells an access touches are { index(v) | linear path constraints(v) }, coverage is decided by unification of loop "
    "variables, Fourier-Motzkin projection and entailment; writes from earlier prange iterations (= what the thread "
    "processed before) are never accepted as cover. Reads whose coverage needs value reasoning are listed in a confirmed "
    "table naming the writes they rely on. N-NEAREST: argsort of the p-value column over the real targets, the same index "
    "vector gathers the five fields and is stored as the index column. THREADS: the numba thread count is saved and restored. "
    "R-BOUNDS: numba kernels are not bounds-checked, so an index outside a scratch allocation reads/writes whatever the allocator "
    "placed next to it (another thread's scratch, heap metadata): for every point index of every inlined access, 0 <= index < extent "
    "of the allocation is proved from the loop bounds by the linear engine (axes with a bilinear extent are listed as not decided)."
)
ASSUMPTIONS = [
    "numba prange: each iteration runs on one thread, get_thread_id() is constant within an iteration and distinct for concurrently "
    "running iterations",
    "facts used by the region analysis (each confirmed by reading): nq = Q_lens[i] <= max(Q_lens); nq >= 1; lengths in T_lens <= max(T_lens); "
    "reverse_complement is passed as int(bool) in {0, 1}; n_bins, n_score_bins >= 1; offset, n_cache >= 0; an element v of `for .. in enumerate(ARR)` "
    "satisfies v <= max(ARR)",
    "bit-identity of floating-point results across thread counts follows from race freedom + per-query determinism (no cross-query "
    "reduction exists) and is not measured",
]
T = "tools.tomtom"

# reads whose coverage needs value-level reasoning: (array, read text) -> (reason, writes it relies on [substring of write text])
CONFIRMED = {
    ("_B", "B_cdfs[nt, uint64(score - 1)]"): (
        "row nt <= max(T_lens) = T_max by definition of T_max and rows 0..T_max are all written; column score-1 < n because a score "
        "is a sum of nq integerised similarities each < n_bins + offset (value reasoning, not decidable structurally)",
        ["B[0]", "z[i]", "B[i, j]"]),
    ("_gamma_int", "gamma[k_idx, l]"): (
        "k_idx = rr_inv[...] indexes the de-duplicated target columns, i.e. rows 0..T.shape[-1]-1, all written for columns l < nq",
        ["gamma_int[j, k]"]),
    ("_results", "_results[pid, idxs]"): (
        "idxs = argsort over rows [0, n_in_targets) returns indices inside that range, whose five fields are all written",
        ["results[i, 0]", "results[i, 3]"]),
}


def run(repo, tier):
    out = []
    # the wrapper's n_jobs only sets (and restores) numba's thread count
    from ..rules import knob_rule
    if repo.has_func(T + ".tomtom"):
        out += knob_rule(repo.func(T + ".tomtom"), "n_jobs")
    fi = repo.func(T + "._tomtom")
    pm = parent_map(fi.node)
    pr = [n for n in walk_no_nested(fi.node) if isinstance(n, ast.For) and isinstance(n.iter, ast.Call)
          and dotted(n.iter.func) in ("prange", "numba.prange")]
    if len(pr) != 1 or not isinstance(pr[0].target, ast.Name):
        return [unrecognised("R-TID", fi, "prange loop", "expected exactly one prange loop in _tomtom")]
    loop = pr[0]
    pv = loop.target.id
    # thread id variable
    tid = [s for s in loop.body if isinstance(s, ast.Assign) and isinstance(s.value, ast.Call)
           and dotted(s.value.func) in ("numba.get_thread_id", "get_thread_id") and isinstance(s.targets[0], ast.Name)]
    if len(tid) != 1:
        return [unrecognised("R-TID", fi, "thread id", "pid = numba.get_thread_id() not found in the prange body")]
    tv = tid[0].targets[0].id
    # arrays allocated before the loop
    allocs = {}
    for s in fi.node.body:
        if s is loop:
            break
        if isinstance(s, ast.Assign) and isinstance(s.targets[0], ast.Name) and isinstance(s.value, ast.Call) \
                and dotted(s.value.func) in scratch.ALLOC_FUNCS:
            allocs[s.targets[0].id] = s
    used_in_loop = {}
    for n in ast.walk(loop):
        if isinstance(n, ast.Name) and n.id in allocs and isinstance(n.ctx, ast.Load):
            used_in_loop.setdefault(n.id, []).append(n)
    out_arrays = set()
    scratch_arrays = []
    for name, uses in sorted(used_in_loop.items()):
        firsts = []
        for u in uses:
            p = pm.get(u)
            if isinstance(p, ast.Subscript) and p.value is u:
                i0 = p.slice.elts[0] if isinstance(p.slice, ast.Tuple) else p.slice
                firsts.append((unparse(i0), p))
            else:
                firsts.append(("<whole array>", u))
        kinds = {f for f, _ in firsts}
        if kinds == {pv}:
            out_arrays.add(name)
            continue
        role = "per-thread scratch `%s` is addressed by the thread id at every use in the prange body" % name
        scratch_arrays.append(name)
        bad = [(f, n) for f, n in firsts if f != tv]
        if bad:
            out.append(violation("R-TID", fi, role, "`%s` is used with first index `%s`: iterations running on different threads share / "
                                 "mix scratch rows" % (unparse(bad[0][1])[:50], bad[0][0]), bad[0][1]))
        else:
            out.append(holds("R-TID", fi, role, "%d uses, all `%s[%s, ...]`" % (len(firsts), name, tv), firsts[0][1]))
    if len(scratch_arrays) < 9:
        out.append(unrecognised("R-TID", fi, "scratch arrays", "expected 9 per-thread scratch arrays, found %d: %s" % (len(scratch_arrays), scratch_arrays)))
    # the thread id is taken inside the iteration and not reassigned
    role = "the thread id is read inside the iteration that uses it"
    re_ = [n for n in ast.walk(loop) if isinstance(n, ast.Name) and n.id == tv and isinstance(n.ctx, ast.Store)]
    ok = len(re_) == 1 and loop.body.index(tid[0]) <= 1
    out.append((holds if ok else violation)("R-TID", fi, role, unparse(tid[0]), tid[0], nontrivial=False))

    # ------------------------------------------------------------ R-RACE
    role = "every store in the prange body to storage created outside it is indexed by the prange variable or the thread id"
    bad = []
    nst = 0
    for n in ast.walk(loop):
        tgts = []
        if isinstance(n, ast.Assign):
            tgts = [t for t in n.targets if isinstance(t, ast.Subscript)]
            for t in n.targets:
                if isinstance(t, ast.Name) and t.id in allocs:
                    bad.append((n, "shared array `%s` is rebound inside the parallel loop" % t.id))
        elif isinstance(n, ast.AugAssign):
            if isinstance(n.target, ast.Subscript):
                tgts = [n.target]
            elif isinstance(n.target, ast.Name) and n.target.id not in _bound_in(loop):
                bad.append((n, "reduction on shared scalar `%s`" % n.target.id))
        for t in tgts:
            base = t
            while isinstance(base, ast.Subscript):
                first = base
                base = base.value
            if isinstance(base, ast.Name) and (base.id in allocs or base.id in fi.params):
                nst += 1
                i0 = first.slice.elts[0] if isinstance(first.slice, ast.Tuple) else first.slice
                if unparse(i0) not in (pv, tv):
                    bad.append((n, "store `%s` is not indexed by `%s`/`%s`" % (unparse(t)[:50], pv, tv)))
    if bad:
        out.append(violation("R-RACE", fi, role, bad[0][1], bad[0][0]))
    else:
        out.append(holds("R-RACE", fi, role, "%d direct store site(s)" % nst, loop))
    # kernels only write arrays they are handed (per-thread rows) : no global / shared writes inside callees
    role = "kernels called from the prange body write only the arrays they are handed"
    summ = {}
    rc_, nn_ = Lin.atom("reverse_complement"), Lin.atom("n_nearest")
    # the two boolean-like flags select alternatives of index values and conditional writes: the prange body is analysed once per
    # flag configuration (reverse_complement is int(bool); n_nearest is -1 or a positive count), callee summaries are shared
    configs = [("rc=0,all targets", [ge(rc_, 0), le(rc_, 0), ge(nn_, -1), le(nn_, -1)]),
               ("rc=1,all targets", [ge(rc_, 1), le(rc_, 1), ge(nn_, -1), le(nn_, -1)]),
               ("rc=0,n_nearest", [ge(rc_, 0), le(rc_, 0), ge(nn_, 1)]),
               ("rc=1,n_nearest", [ge(rc_, 1), le(rc_, 1), ge(nn_, 1)])]
    per_cfg = []
    try:
        for label, assume in configs:
            ks = scratch.KernelSummary(repo, fi, summ, assume=assume)
            per_cfg.append((label, ks))
    except AnalysisError as e:
        return out + [unrecognised("R-SCRATCH", fi, "kernel summaries", str(e))]
    ks = per_cfg[0][1]
    shared_w = [a for _, k in per_cfg for a in k.acc if a.kind == "W" and a.arr in fi.params and any(v == "%s~%d" % (pv, loop.lineno) for _, v in a.loops)]
    if shared_w:
        out.append(violation("R-RACE", fi, role, "input array `%s` is written inside the parallel loop: %s" % (shared_w[0].arr, shared_w[0].text), shared_w[0].node))
    else:
        out.append(holds("R-RACE", fi, role, "no write to an input array in the inlined prange body", loop))

    # ------------------------------------------------------------ R-SCRATCH
    merged = {}
    order = []
    for label, k in per_cfg:
        for r in scratch_rules(repo, fi, loop, pv, tv, scratch_arrays, k):
            if r.key not in merged:
                order.append(r.key)
                merged[r.key] = (r, label)
            else:
                rank = {"HOLDS": 0, "UNRECOGNISED": 1, "VIOLATION": 2}
                if rank[r.status] > rank[merged[r.key][0].status]:
                    merged[r.key] = (r, label)
    for key in order:
        r, label = merged[key]
        r.detail = "[%s] %s" % (label if r.status != "HOLDS" else "all 4 flag configurations", r.detail)
        out.append(r)
    # ------------------------------------------------------------ N-NEAREST + threads
    out += nearest_rules(fi, loop, pv, tv)
    out += thread_rules(repo)
    from ..rules import module_state_rule
    out += module_state_rule(repo, T)
    return out


def _bound_in(loop):
    return {n.id for n in ast.walk(loop) if isinstance(n, ast.Name) and isinstance(n.ctx, ast.Store)}


def scratch_rules(repo, fi, loop, pv, tv, arrays, ks):
    out = []
    pvar = "%s~%d" % (pv, loop.lineno)
    # accesses inside the prange iteration
    accs = [a for a in ks.acc if any(v == pvar for _, v in a.loops)]
    # allocation extents (drop the thread axis) and shape atoms -> extents
    extents = {}
    shape_sub = {}
    for name, (dims, uninit, node) in ks.allocs.items():
        if name in arrays:
            extents[name] = dims[1:]
            for k, d in enumerate(dims):
                if d is not None:
                    shape_sub["%s.shape[%d]" % (name, k)] = d
                    shape_sub["%s.shape[%d]" % (name, k - len(dims))] = d
        else:
            extents[name] = dims
            for k, d in enumerate(dims):
                if d is not None:
                    shape_sub["%s.shape[%d]" % (name, k)] = d
                    shape_sub["%s.shape[%d]" % (name, k - len(dims))] = d

    def sub(l):
        return l.subst(shape_sub) if l is not None else None

    def sub_axis(a):
        if a[0] == "lin":
            return ("lin", sub(a[1]))
        if a[0] == "slice":
            return ("slice", sub(a[1]), sub(a[2]))
        return a
    prepared = []
    for a in accs:
        if a.arr in arrays:
            if not a.idx or a.idx[0][0] != "lin":
                continue     # reported by R-TID
            b = scratch.Access(a.kind, a.arr, [sub_axis(x) for x in a.idx[1:]], [sub(g) for g in a.G], a.cond_ok, a.loops, a.node, a.text, a.func, a.site)
            prepared.append(b)
        elif a.arr.endswith("t_sums") or ":" in a.arr:
            b = scratch.Access(a.kind, a.arr, [sub_axis(x) for x in a.idx], [sub(g) for g in a.G], a.cond_ok, a.loops, a.node, a.text, a.func, a.site)
            prepared.append(b)
    # facts (confirmed by reading, see ASSUMPTIONS)
    facts = []
    nq_atoms = {at for a in prepared for g in a.G for at in g.atoms() if at.startswith("nq@")}
    for at in nq_atoms:
        facts.append(ge(Lin.atom("max(Q_lens)"), Lin.atom(at)))
        facts.append(ge(Lin.atom(at), 1))
    facts.append(ge(Lin.atom("max(T_lens)"), 1))
    facts.append(ge(Lin.atom("len(T_lens)"), 0))
    facts.append(ge(Lin.atom("n_score_bins"), 1))
    facts += list(ks.ai._assume0)
    facts += [sub(g) for g in ks.axioms]
    # products of non-negative scalars (opaque atoms "(a)*(b)") are non-negative / positive
    NONNEG = ("nq", "n_bins", "offset", "n_score_bins", "n_cache")
    POS = ("nq", "n_bins", "n_score_bins")
    import re
    atoms = {at for a in prepared for g in a.G for at in g.atoms()} | {at for a in prepared for x in a.idx for l in x[1:] if l is not None for at in l.atoms()}
    for at in atoms:
        m = re.fullmatch(r"(?:c[\d:]+)?\((\w+)(?:@\d+)?\)\*\((\w+)(?:@\d+)?\)", at)
        if m and m.group(1) in NONNEG and m.group(2) in NONNEG:
            facts.append(ge(Lin.atom(at), 1 if (m.group(1) in POS and m.group(2) in POS) else 0))
        if re.fullmatch(r"offset@\d+|n_cache|n_median_bins", at):
            facts.append(ge(Lin.atom(at), 0))
    locals_ = sorted({a.arr for a in prepared if a.arr not in arrays})
    out += bounds_rules(repo, fi, loop, prepared, arrays, locals_, extents, sub, facts)
    for name in list(arrays) + locals_:
        ext = [sub(d) if d is not None else None for d in extents.get(name, [])]
        role = "every cell of scratch `%s` read in an iteration was written earlier in the same iteration" % name.split(":")[-1]
        try:
            problems, n_r, n_w = scratch.check_array(prepared, name, {name: ext}, facts=facts, forbid=pvar)
        except AnalysisError as e:
            out.append(unrecognised("R-SCRATCH", fi, role, str(e)))
            continue
        if n_r == 0 and n_w == 0:
            out.append(unrecognised("R-SCRATCH", fi, role, "no access to `%s` found in the inlined prange body" % name))
            continue
        viol, unk, conf = [], [], []
        for r, status, reasons in problems:
            key = (name, r.text)
            if key in CONFIRMED:
                why, relies = CONFIRMED[key]
                ws = [a.text for a in prepared if a.arr == name and a.kind == "W" and a.cond_ok]
                missing = [x for x in relies if not any(w.startswith(x) or x in w for w in ws)]
                if missing:
                    viol.append((r, "confirmed coverage of `%s` relied on the write `%s`, which no longer exists unconditionally" % (r.text, missing[0])))
                else:
                    conf.append(r)
            elif status == "REFUTED":
                viol.append((r, "; ".join(reasons[:2]) or "no write of this array precedes the read in the iteration"))
            else:
                unk.append((r, "; ".join(reasons[:2])))
        if viol:
            r, why = viol[0]
            out.append(violation("R-SCRATCH", fi, role,
                                 "%s is not covered by any write of the same iteration (the value seen depends on what the thread processed "
                                 "before): %s" % (r.describe(), why[:300]), r.node,
                                 witness={"read": r.describe(), "index": scratch.fmt_idx(r.idx), "uncovered_reads": len(viol)}))
        elif unk:
            r, why = unk[0]
            out.append(unrecognised("R-SCRATCH", fi, role, "%s: coverage neither proved nor refuted (%s)" % (r.describe(), why[:200]), r.node))
        else:
            out.append(holds("R-SCRATCH", fi, role, "%d reads covered by %d writes (%d by the confirmed table)" % (n_r, n_w, len(conf)), loop,
                             facts=["confirmed: %s - %s" % (c.text, CONFIRMED[(name, c.text)][0][:120]) for c in conf]))
    return out


# axes whose extent is bilinear in run-time scalars: in-bounds-ness is a property of the data (tomtom prints a warning when
# offset > n_cache), not of the code shape
BOUNDS_SKIP = {
    ("_A", 2): "extent n_len = Q_max*n_score_bins + Q_max*n_cache vs. index < n = nq*n_bins + nq*offset: bilinear, needs offset <= n_cache (data)",
    ("_A_csum", 2): "same n_len axis as _A",
    ("_B", 1): "same n_len axis as _A",
}


def _element_facts(repo, atoms):
    """`for i, v in enumerate(ARR)` / `for v in ARR` in a kernel: v <= max(ARR) (v is an element of ARR).  Only generated when ARR is a
    parameter that every package call site binds to an argument of the same name, so `max(ARR)` denotes the same array everywhere."""
    import re
    facts = []
    loops = {}
    mi = repo.mod(T)
    for f in mi.funcs.values():
        for n in walk_no_nested(f.node):
            if not isinstance(n, ast.For):
                continue
            it, tg = n.iter, n.target
            if isinstance(it, ast.Call) and dotted(it.func) == "enumerate" and it.args and isinstance(it.args[0], ast.Name) \
                    and isinstance(tg, ast.Tuple) and len(tg.elts) == 2 and isinstance(tg.elts[1], ast.Name):
                loops[(tg.elts[1].id, n.lineno)] = (f, it.args[0].id)
            elif isinstance(it, ast.Name) and isinstance(tg, ast.Name):
                loops[(tg.id, n.lineno)] = (f, it.id)
    for at in atoms:
        m = re.fullmatch(r"(?:c[\d:]+:)?(\w+)~(\d+)", at)
        if not m or (m.group(1), int(m.group(2))) not in loops:
            continue
        f, arr = loops[(m.group(1), int(m.group(2)))]
        if arr not in f.params:
            continue
        same = True
        for g in mi.funcs.values():
            for c in ast.walk(g.node):
                if isinstance(c, ast.Call) and isinstance(c.func, ast.Name) and c.func.id == f.name:
                    k = f.params.index(arr)
                    a = c.args[k] if k < len(c.args) else None
                    if not (isinstance(a, ast.Name) and a.id == arr):
                        same = False
        if same:
            facts.append(ge(Lin.atom("max(%s)" % arr), Lin.atom(at)))
    return facts


def bounds_rules(repo, fi, loop, prepared, arrays, locals_, extents, sub, facts):
    """R-BOUNDS: numba does not bounds-check; an index outside the allocation writes into whatever the allocator placed next to
    the scratch (another thread's scratch, allocator metadata), so results depend on threads and history."""
    from ..affine import decide
    out = []
    atoms = {at for a in prepared for g in a.G for at in g.atoms()}
    facts = list(facts) + _element_facts(repo, atoms)
    for name in list(arrays) + list(locals_):
        ext = [sub(d) if d is not None else None for d in extents.get(name, [])]
        short = name.split(":")[-1]
        role = "every point index into `%s` lies inside its allocation (axes with linear extents)" % short
        seen, n_ok, skipped, bad, unk = set(), 0, set(), [], []
        for a in prepared:
            if a.arr != name:
                continue
            for k, ax in enumerate(a.idx):
                if ax[0] != "lin":
                    continue
                if k >= len(ext) or ext[k] is None:
                    skipped.add("axis %d: extent not linear" % k)
                    continue
                if (short, k) in BOUNDS_SKIP:
                    skipped.add("axis %d: %s" % (k, BOUNDS_SKIP[(short, k)][:60]))
                    continue
                key = (k, repr(ax[1]), tuple(sorted(repr(g) for g in a.G)))
                if key in seen:
                    continue
                seen.add(key)
                G = list(a.G) + facts
                for label, obl in (("index >= 0", ax[1]), ("index <= extent - 1", ext[k] - ax[1] - 1)):
                    st, w = decide(G, obl)[:2]
                    if st == "PROVED":
                        n_ok += 1
                    elif st == "REFUTED":
                        bad.append((a, k, label, ext[k], w))
                    else:
                        unk.append((a, k, label))
        if bad:
            a, k, label, e, w = bad[0]
            wit = {kk: v for kk, v in (w or {}).items() if len(kk) < 40} if isinstance(w, dict) else {}
            out.append(violation("R-BOUNDS", fi, role, "%s: axis %d has extent `%s` but `%s` is not implied by the loop bounds (numba does not "
                                 "check bounds: the access lands outside the allocation), e.g. %s" % (a.describe(), k, e, label, wit), a.node,
                                 witness={"assignment": wit, "unproved": len(bad)}))
        elif unk:
            a, k, label = unk[0]
            out.append(unrecognised("R-BOUNDS", fi, role, "%s axis %d: `%s` neither proved nor refuted" % (a.describe(), k, label), a.node))
        elif n_ok:
            out.append(holds("R-BOUNDS", fi, role, "%d obligations proved%s" % (n_ok, ("; not decided - " + "; ".join(sorted(skipped))) if skipped else ""), loop))
    return out


def nearest_rules(fi, loop, pv, tv):
    out = []
    role = "n_nearest: argsort of the p-value column over the real targets; the same index vector gathers the fields and is stored"
    arm = [n for n in loop.body if isinstance(n, ast.If) and unparse(n.test) in ("n_nearest == -1", "n_nearest != -1")]
    if not arm:
        return [unrecognised("N-NEAREST", fi, role, "`if n_nearest == -1` not found")]
    a = arm[0]
    full, near = (a.body, a.orelse) if unparse(a.test) == "n_nearest == -1" else (a.orelse, a.body)
    tn = [unparse(s) for s in near]
    tf = [unparse(s) for s in full]
    want = ["idxs = numpy.argsort(_results[%s, :n_in_targets, 0])[:n_nearest]" % tv, "results[%s, :, :5] = _results[%s, idxs]" % (pv, tv),
            "results[%s, :, 5] = idxs" % pv]
    if tn == want:
        out.append(holds("N-NEAREST", fi, role, "; ".join(tn), a))
    elif tn and "argsort(-" in tn[0]:
        out.append(violation("N-NEAREST", fi, role, "targets are ranked by descending p-value: `%s`" % tn[0], a))
    elif tn and ", 1])" in tn[0]:
        out.append(violation("N-NEAREST", fi, role, "targets are ranked by the score column, not the p-value column: `%s`" % tn[0], a))
    elif tn and ":n_in_targets" not in tn[0]:
        out.append(violation("N-NEAREST", fi, role, "ranking includes rows beyond the real targets: `%s`" % tn[0], a))
    elif len(tn) == 3 and tn[0] == want[0] and tn[1] == want[1] and tn[2] != want[2]:
        out.append(violation("N-NEAREST", fi, role, "stored index column is `%s`" % tn[2], a))
    else:
        out.append(unrecognised("N-NEAREST", fi, role, "; ".join(tn)))
    role = "without n_nearest the rows of the real targets are copied in target order"
    ok = tf == ["results[%s] = _results[%s, :n_in_targets]" % (pv, tv)]
    out.append((holds if ok else unrecognised)("N-NEAREST", fi, role, "; ".join(tf), a, nontrivial=False))
    role = "n_in_targets is half the target list iff reverse complements were appended"
    nd = [s for s in fi.node.body if isinstance(s, ast.Assign) and unparse(s.targets[0]) == "n_in_targets"]
    ok = bool(nd) and unparse(nd[0].value) == "len(T_lens) // 2 if reverse_complement else len(T_lens)"
    out.append((holds if ok else unrecognised)("N-NEAREST", fi, role, unparse(nd[0].value) if nd else "?", nd[0] if nd else fi.node, nontrivial=False))
    return out


def thread_rules(repo):
    fi = repo.func(T + ".tomtom")
    role = "the numba thread count changed for n_jobs is saved before and restored after the kernel call"
    sets = [n for n in walk_no_nested(fi.node) if isinstance(n, ast.Call) and dotted(n.func) == "numba.set_num_threads"]
    gets = [s for s in walk_no_nested(fi.node) if isinstance(s, ast.Assign) and isinstance(s.value, ast.Call)
            and dotted(s.value.func) == "numba.get_num_threads"]
    call = [n for n in walk_no_nested(fi.node) if isinstance(n, ast.Call) and dotted(n.func) == "_tomtom"]
    if len(sets) != 2 or len(gets) != 1 or len(call) != 1:
        return [unrecognised("THREADS", fi, role, "expected get_num_threads once and set_num_threads twice around the _tomtom call")]
    saved = unparse(gets[0].targets[0])
    ok = unparse(sets[0].args[0]) == "n_jobs" and unparse(sets[1].args[0]) == saved and \
        gets[0].lineno < sets[0].lineno < call[0].lineno < sets[1].lineno
    if ok:
        return [holds("THREADS", fi, role, "%s = get_num_threads(); set(n_jobs); _tomtom(...); set(%s)" % (saved, saved), sets[1])]
    return [violation("THREADS", fi, role, "thread count is not restored to the saved value after the call", sets[-1])]


LEVEL_TEXT = ("Region-based definite-initialisation analysis of all per-thread scratch buffers across the inlined numba kernels, "
              "quantified over every query length, target set, thread schedule and processing history: a value read from scratch in "
              "an iteration is always one written in that iteration, so results cannot depend on what the thread processed before; "
              "plus thread-id addressing, write-disjointness of the prange body and the n_nearest gather.")
LEVEL_NOTE = ("Decides: thread-id addressing of 9 scratch arrays, race freedom of the prange body, def-before-use of every scratch read "
              "(3 reads via a confirmed table that names the writes relied on), n_nearest ranking/gather form, thread-count restore, in-bounds-ness of every point index into the scratch arrays on "
              "axes with linear extents. Not decided: the n_len axis of _A/_A_csum/_B (needs offset <= n_cache, a property of the data that "
              "tomtom only warns about); bit-identity of float sums across thread counts (follows from the above; not measured); annotate_seqlets inherits.")
TECHNIQUE = "region-based def-before-use dataflow over inlined numba kernels (linear constraints, unification + Fourier-Motzkin projection)"
