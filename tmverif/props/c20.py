"""C20 - greedy design never worsens the loss and takes the best substitution each step (structural clauses)."""
import ast
from ..affine import Lin, ge, decide
from ..front import dotted, const_value, unparse, walk_no_nested, parent_map, kwarg
from ..core import holds, violation, unrecognised, named
from ..flow import AbsInt
from ..rules import decide_states, pure_params

ID = "C20"
ANCHORS = 'design.greedy_substitution,design._fast_tile_substitute'.split(",")
MIN_INSTANCES = 12
# rule families whose findings in this module are derived by an engine (not by comparing spellings): exempt from the rewrite gate
SEMANTIC_RULES = {"R-PURE", "R-WIN"}
EXPLANATION = (
    "R-WIN: the number of tiled candidate sequences equals the number of start positions ersatz.substitute accepts "
    "(L - len(motif) + 1, taken from substitute's own guard 0 <= start <= L - m), and in the numba kernel tile i writes columns "
    "[i, i + m) which stay below L for every tile (linear-constraint proof linking caller and kernel extents). R-ACCEPT: the "
    "running best is compared with a strict `improvement > best_improvement`, best_improvement is reset to 0 at the start of each "
    "iteration, X is replaced only by substitute(X, motifs[best_motif_idx], start=best_pos) under best_motif_idx != -1, loss_prev "
    "becomes the loss of the applied candidate, the max_iter test precedes the search, the tol test follows the application and "
    "tests the best (not the last) improvement. Candidates of all motifs go through the same running minimum. R-PURE for X and y."
)
ASSUMPTIONS = ["argmin picks a smallest loss (trusted API); the model is deterministic; one_hot_encode(motif) has len(motif) columns",
               "predict preserves candidate order (C03)"]
D = "design"


def run(repo, tier):
    out = []
    fi = repo.func(D + ".greedy_substitution")
    k = repo.func(D + "._fast_tile_substitute")
    pm = parent_map(fi.node)
    out += tile_rules(repo, fi, k)
    out += accept_rules(fi, pm)
    out += pure_params(repo, fi, ["X", "y"])
    return out


def tile_rules(repo, fi, k):
    out = []
    ai = AbsInt(fi, ranks={"X": 3})
    role = "one candidate per start position that ersatz.substitute accepts: L - len(motif) + 1 tiles"
    reps = [n for n in walk_no_nested(fi.node) if isinstance(n, ast.Call) and isinstance(n.func, ast.Attribute)
            and n.func.attr == "repeat" and unparse(n.func.value) == "X"]
    pm = parent_map(fi.node)
    if len(reps) != 1:
        out.append(unrecognised("R-WIN", fi, role, "X.repeat(count, 1, 1) not found"))
    else:
        r = reps[0]
        stmt = r
        while not isinstance(stmt, ast.stmt):
            stmt = pm[stmt]
        rest = [const_value(a) for a in r.args[1:]]
        if rest != [1, 1]:
            out.append(violation("R-WIN", fi, role, "candidates are tiled with repeat(%s)" % ", ".join(unparse(a) for a in r.args), r))
        else:
            def mk(st):
                c = ai.lin(st, r.args[0])
                exp = ai.lin(st, ast.parse("X.shape[-1] - len(motif) + 1", mode="eval").body)
                if c is None or exp is None:
                    return None
                return [("count >= L - m + 1 (last fitting start evaluated)", c - exp), ("count <= L - m + 1 (no tile past the end)", exp - c)]
            out.append(decide_states(ai, fi, stmt, mk, "R-WIN", role))
    # the kernel
    role = "tile i writes the motif into columns [i, i + m) of candidate i, all alphabet rows"
    ak = AbsInt(k, ranks={"X": 3, "motif": 2})
    stores = [s for s in walk_no_nested(k.node) if isinstance(s, ast.Assign) and isinstance(s.targets[0], ast.Subscript)
              and unparse(s.targets[0].value) == "X"]
    if len(stores) != 1:
        out.append(unrecognised("R-WIN", k, role, "expected one store into X"))
        return out
    st0 = stores[0]
    idx = st0.targets[0].slice.elts if isinstance(st0.targets[0].slice, ast.Tuple) else []
    vidx = st0.value.slice.elts if isinstance(st0.value, ast.Subscript) and isinstance(st0.value.slice, ast.Tuple) else []
    if len(idx) != 3 or len(vidx) != 2 or unparse(st0.value.value) != "motif":
        out.append(unrecognised("R-WIN", k, role, "store `%s`" % unparse(st0)))
        return out

    def mk(st):
        i_, kk, col = (ak.lin(st, x) for x in idx)
        mk_, mj = (ak.lin(st, x) for x in vidx)
        if None in (i_, kk, col, mk_, mj):
            return None
        # caller contract (proved above): X.shape[0] == L - m + 1  with m = motif.shape[1], L = X.shape[2]
        N0 = Lin.atom("X.shape[-3]")
        L = Lin.atom("X.shape[-1]")
        m = Lin.atom("motif.shape[-1]")
        st.add(ge(N0, L - m + 1), ge(L - m + 1, N0))
        return [("candidate row == tile index", i_ - Lin.atom(st.sver.get("i", "i"))) if False else ("row index >= 0", i_),
                ("column == tile + motif column", col - (i_ + mj)), ("column == tile + motif column'", (i_ + mj) - col),
                ("alphabet row agrees", kk - mk_), ("alphabet row agrees'", mk_ - kk),
                ("column <= L - 1", L - col - 1), ("column >= 0", col)]
    out.append(decide_states(ak, k, st0, mk, "R-WIN", role))
    # loops cover the whole motif
    loops = [n for n in walk_no_nested(k.node) if isinstance(n, ast.For)]
    its = [unparse(l.iter) for l in loops]
    role = "every tile receives every motif column and alphabet row"
    ok = its == ["numba.prange(X.shape[0])", "range(n_len)", "range(n_alphabet)"] or its == ["numba.prange(X.shape[0])", "range(n_alphabet)", "range(n_len)"]
    sh = [unparse(s) for s in walk_no_nested(k.node) if isinstance(s, ast.Assign) and "motif.shape" in unparse(s.value)]
    ok = ok and sh == ["n_alphabet, n_len = motif.shape"]
    out.append((holds if ok else unrecognised)("R-WIN", k, role, "; ".join(its), k.node, nontrivial=False))
    # call
    role = "the tiled copy (not X itself) is handed to the in-place kernel, then predicted"
    call = [n for n in walk_no_nested(fi.node) if isinstance(n, ast.Call) and dotted(n.func) == "_fast_tile_substitute"]
    if len(call) != 1:
        out.append(unrecognised("R-WIN", fi, role, "kernel call not found"))
    else:
        a = [unparse(x) for x in call[0].args]
        src = {unparse(s.targets[0]): unparse(s.value) for s in walk_no_nested(fi.node) if isinstance(s, ast.Assign) and len(s.targets) == 1}
        ok = a == ["X_", "motif_ohe"] and src.get("motif_ohe") == "one_hot_encode(motif, alphabet=alphabet).numpy()"
        pr = [n for n in walk_no_nested(fi.node) if isinstance(n, ast.Call) and dotted(n.func) == "predict" and len(n.args) > 1 and unparse(n.args[1]) == "X_"]
        ok = ok and len(pr) == 1 and unparse(kwarg(pr[0], "args", 2)) == "args"
        out.append((holds if ok else unrecognised)("R-WIN", fi, role, "_fast_tile_substitute(%s); predict(model, X_, args=args)" % ", ".join(a), call[0], nontrivial=False))
        out += fresh_buffer_rule(fi, call[0])
    return out


def fresh_buffer_rule(fi, call):
    """the in-place kernel writes a motif into every row of its first argument: candidates of one motif must not survive into the
    evaluation of the next.  The buffer is bound, in the same iteration of the loop that contains the call, to a fresh allocation
    (repeat / tile / clone / copy / numpy(force=True) of the current sequence); a subscript (numpy / torch basic indexing = a view) of
    an array that lives across iterations is shared storage."""
    role = "the buffer handed to the in-place kernel is freshly allocated for every motif (no storage shared between motifs)"
    pm = parent_map(fi.node)
    if not call.args or not isinstance(call.args[0], ast.Name):
        return [unrecognised("R-FRESH", fi, role, "first argument of the kernel is not a plain name", call)]
    buf = call.args[0].id
    loop = call
    while loop in pm and not isinstance(loop, (ast.For, ast.While)):
        loop = pm[loop]
    if not isinstance(loop, (ast.For, ast.While)):
        return [unrecognised("R-FRESH", fi, role, "kernel call is not inside a loop", call)]
    defs = [s_ for s_ in ast.walk(loop) if isinstance(s_, ast.Assign) and len(s_.targets) == 1 and isinstance(s_.targets[0], ast.Name)
            and s_.targets[0].id == buf and s_.lineno < call.lineno]
    if not defs:
        return [named("R-FRESH", fi, role, "`%s` is not rebound inside the loop that calls the kernel: every motif writes into the same array" % buf, call)]
    d = defs[-1]
    v = d.value
    inner_names = {x.id for s_ in ast.walk(loop) for x in ast.walk(s_) if isinstance(x, ast.Name) and isinstance(x.ctx, ast.Store)}
    # peel value-preserving wrappers that keep sharing storage
    e = v
    while True:
        if isinstance(e, ast.Subscript):
            base = e.value
            while isinstance(base, (ast.Subscript, ast.Attribute)):
                base = base.value
            if isinstance(base, ast.Name) and base.id not in inner_names and base.id != "X":
                return [named("R-FRESH", fi, role, "`%s = %s` is a view of `%s`, which is created outside the motif loop: what one motif wrote is still "
                              "there when the next (shorter) motif is evaluated" % (buf, unparse(v)[:50], base.id), d)]
            e = e.value
            continue
        if isinstance(e, ast.Call) and isinstance(e.func, ast.Attribute) and e.func.attr in ("repeat", "tile", "clone", "copy", "repeat_interleave", "contiguous"):
            return [holds("R-FRESH", fi, role, "%s = %s" % (buf, unparse(v)[:60]), d)]
        if isinstance(e, ast.Call) and dotted(e.func) in ("numpy.tile", "numpy.repeat", "torch.clone", "numpy.copy", "numpy.array", "torch.tile"):
            return [holds("R-FRESH", fi, role, "%s = %s" % (buf, unparse(v)[:60]), d)]
        if isinstance(e, ast.Call) and isinstance(e.func, ast.Attribute) and e.func.attr in ("numpy", "detach", "cpu", "view", "reshape"):
            e = e.func.value
            continue
        return [unrecognised("R-FRESH", fi, role, "`%s = %s`: allocation not recognised" % (buf, unparse(v)[:60]), d)]


def accept_rules(fi, pm):
    out = []
    wl = [n for n in fi.node.body if isinstance(n, ast.While)]
    if len(wl) != 1 or unparse(wl[0].test) != "True":
        return [unrecognised("R-ACCEPT", fi, "iteration loop", "`while True` loop not found")]
    w = wl[0]
    body = w.body
    texts = [unparse(s) for s in body]
    ml = [s for s in body if isinstance(s, ast.For)]
    if len(ml) != 1:
        return [unrecognised("R-ACCEPT", fi, "motif loop", "expected one loop over the motifs")]
    ml = ml[0]
    # 1. max_iter before the search
    role = "the max_iter test precedes the candidate search (never more than max_iter substitutions)"
    mi = [s for s in body if isinstance(s, ast.If) and unparse(s.test) in ("iteration == max_iter", "max_iter == iteration", "iteration >= max_iter")
          and any(isinstance(b, ast.Break) for b in s.body)]
    if not mi:
        out.append(violation("R-ACCEPT", fi, role, "no `if iteration == max_iter: break`", w))
    elif body.index(mi[0]) > body.index(ml):
        out.append(named("R-ACCEPT", fi, role, "the max_iter test comes after the search/application", mi[0]))
    else:
        inc = [s for s in body if isinstance(s, ast.AugAssign) and unparse(s) == "iteration += 1"]
        init = [s for s in fi.node.body if isinstance(s, ast.Assign) and unparse(s) == "iteration = 0"]
        ok = len(inc) == 1 and body.index(inc[0]) == len(body) - 1 and bool(init)
        out.append((holds if ok else unrecognised)("R-ACCEPT", fi, role, "iteration = 0 ... if iteration == max_iter: break ... iteration += 1", mi[0]))
    # 2. reset of the running best at the start of each iteration
    role = "the running best is reset to (0, -1, -1) at the start of every iteration"
    pre = [s for s in body[:body.index(ml)] if isinstance(s, ast.Assign) and len(s.targets) == 1]
    vals = {}
    for s_ in pre:
        tg = s_.targets[0]
        if isinstance(tg, ast.Tuple) and isinstance(s_.value, ast.Tuple) and len(tg.elts) == len(s_.value.elts):
            for a_, b_ in zip(tg.elts, s_.value.elts):
                vals[unparse(a_)] = (b_, s_)
        elif isinstance(tg, ast.Name):
            vals[tg.id] = (s_.value, s_)
    bi = vals.get("best_improvement")
    if bi is None:
        # named deviation: the best of the previous iteration survives, so a position is accepted without being the best of this iteration
        out.append(violation("R-ACCEPT", fi, role, "best_improvement is not reset inside the iteration before the search", w))
    else:
        c = const_value(bi[0])
        got = tuple(unparse(vals[k][0]) if k in vals else None for k in ("best_improvement", "best_motif_idx", "best_pos"))
        if isinstance(c, (int, float)) and c < 0:
            out.append(violation("R-ACCEPT", fi, role, "best_improvement starts at %s: a loss-increasing substitution can be accepted" % c, bi[1]))
        elif got == ("0", "-1", "-1"):
            out.append(holds("R-ACCEPT", fi, role, "best_improvement, best_motif_idx, best_pos = 0, -1, -1", bi[1]))
        elif got[1] is None:
            out.append(violation("R-ACCEPT", fi, role, "best_motif_idx is not reset: an iteration without improvement re-applies the previous substitution", bi[1]))
        else:
            out.append(unrecognised("R-ACCEPT", fi, role, str(got), bi[1]))
    # 3. strict improvement inside the motif loop, over all motifs
    role = "a candidate replaces the running best only on strictly larger improvement; all motifs share the one running best"
    ifs = [s for s in ml.body if isinstance(s, ast.If) and "best_improvement" in unparse(s.test)]
    if len(ifs) != 1:
        out.append(violation("R-ACCEPT", fi, role, "the comparison with the running best is not inside the loop over motifs", ml))
    else:
        t = unparse(ifs[0].test)
        tb = [unparse(s) for s in ifs[0].body]
        want = ["best_improvement = improvement", "best_motif_idx = idx", "best_pos = pos", "best_loss = loss_curr"]
        imp = [unparse(s.value) for s in ml.body if isinstance(s, ast.Assign) and unparse(s.targets[0]) == "improvement"]
        if t in ("improvement >= best_improvement",):
            out.append(violation("R-ACCEPT", fi, role, "`%s` accepts zero-improvement candidates (never terminates by tol=0 / changes X without gain)" % t, ifs[0]))
        elif t in ("improvement < best_improvement", "best_improvement > improvement"):
            out.append(violation("R-ACCEPT", fi, role, "`%s` keeps the worst candidate" % t, ifs[0]))
        elif t not in ("improvement > best_improvement", "best_improvement < improvement"):
            out.append(unrecognised("R-ACCEPT", fi, role, t, ifs[0]))
        elif imp != ["loss_prev - loss_curr"]:
            if imp == ["loss_curr - loss_prev"]:
                out.append(violation("R-ACCEPT", fi, role, "improvement = loss_curr - loss_prev has the wrong sign", ifs[0]))
            else:
                out.append(unrecognised("R-ACCEPT", fi, role, "improvement = %s" % imp, ifs[0]))
        elif sorted(tb) != sorted(want):
            miss = [x for x in want if x not in tb]
            out.append(violation("R-ACCEPT", fi, role, "the update of the running best lacks `%s` (has %s)" % (miss[0] if miss else "?", tb), ifs[0]))
        else:
            out.append(holds("R-ACCEPT", fi, role, "%s: %s" % (t, "; ".join(tb)), ifs[0]))
        # per-motif minimum over positions
        role2 = "for each motif the best position is the arg-min of the per-candidate mean loss"
        src = [unparse(s) for s in ml.body if isinstance(s, ast.Assign)]
        ok = "pos = loss_curr.argmin()" in src and "loss_curr = loss_curr[pos]" in src and src.index("pos = loss_curr.argmin()") < src.index("loss_curr = loss_curr[pos]")
        lc = [s for s in ml.body if isinstance(s, ast.Assign) and unparse(s.targets[0]) == "loss_curr" and "loss(" in unparse(s.value)]
        okl = bool(lc) and unparse(lc[0].value).replace("\n", "") == "loss(y[:, mask].expand_as(y_hat[:, mask]), y_hat[:, mask]).mean(dim=tuple(range(1, len(y_hat.shape))))"
        if "pos = loss_curr.argmax()" in src:
            out.append(violation("R-ACCEPT", fi, role2, "position with the largest loss is chosen", ml))
        else:
            out.append((holds if ok and okl else unrecognised)("R-ACCEPT", fi, role2, "pos = loss_curr.argmin()", ml))
    # 4. application
    role = "X is replaced only by substitute(X, motifs[best_motif_idx], start=best_pos) when some candidate improved; loss_prev follows"
    ap = [s for s in body if isinstance(s, ast.If) and unparse(s.test) in ("best_motif_idx != -1", "best_motif_idx >= 0", "best_motif_idx > -1")]
    if len(ap) != 1:
        xs = [s for s in body if isinstance(s, ast.Assign) and unparse(s.targets[0]) == "X"]
        if xs:
            out.append(violation("R-ACCEPT", fi, role, "X is replaced unconditionally: `%s`" % unparse(xs[0])[:70], xs[0]))
        else:
            out.append(unrecognised("R-ACCEPT", fi, role, "application branch not found"))
    else:
        a = ap[0]
        if body.index(a) < body.index(ml):
            out.append(violation("R-ACCEPT", fi, role, "the substitution is applied before the candidates are compared", a))
        else:
            tb = [unparse(s) for s in a.body if not (isinstance(s, ast.If) and "verbose" in unparse(s.test))]
            okx = tb[:1] == ["X = substitute(X, motifs[best_motif_idx], start=best_pos, alphabet=alphabet)"]
            okl = "loss_prev = best_loss" in tb
            if not okx:
                out.append(violation("R-ACCEPT", fi, role, "applied substitution is `%s`" % (tb[0] if tb else "?")[:90], a))
            elif not okl:
                out.append(violation("R-ACCEPT", fi, role, "loss_prev is not updated to the applied candidate's loss (has %s)" % tb[1:], a))
            else:
                out.append(holds("R-ACCEPT", fi, role, "; ".join(tb[:2]), a))
    # 5. tol stop after the application, on the best improvement
    role = "the procedure stops as soon as the best available improvement is not above tol (tested after applying)"
    tl = [s for s in body if isinstance(s, ast.If) and "tol" in unparse(s.test) and any(isinstance(b, ast.Break) for b in s.body)]
    if len(tl) != 1:
        out.append(violation("R-ACCEPT", fi, role, "no `if best_improvement <= tol: break`", w))
    else:
        t = unparse(tl[0].test)
        if t in ("best_improvement <= tol", "tol >= best_improvement", "not best_improvement > tol"):
            if ap and len(ap) == 1 and body.index(tl[0]) < body.index(ap[0]):
                out.append(named("R-ACCEPT", fi, role, "the tol test precedes the application: the last improving substitution is dropped", tl[0]))
            else:
                out.append(holds("R-ACCEPT", fi, role, t, tl[0]))
        elif t in ("improvement <= tol", "tol >= improvement"):
            out.append(violation("R-ACCEPT", fi, role, "`%s` tests the improvement of the LAST motif examined (variable leaked from the motif loop), "
                                 "not the best one" % t, tl[0], witness={"motifs": ["helpful", "useless"], "effect": "stops after one step although the first motif still improves"}))
        elif t in ("best_improvement < tol",):
            out.append(violation("R-ACCEPT", fi, role, "`%s` continues when the improvement equals tol" % t, tl[0]))
        else:
            out.append(unrecognised("R-ACCEPT", fi, role, t, tl[0]))
    # 6. initial loss
    role = "loss_prev starts as the loss of the unmodified sequence"
    src = {unparse(s.targets[0]): unparse(s.value) for s in fi.node.body if isinstance(s, ast.Assign) and len(s.targets) == 1}
    ok = src.get("loss_prev") == "loss(y[:, mask], y_orig[:, mask]).mean()" and \
        src.get("y_orig", "").replace("\n", "").startswith("predict(model, X, args=args")
    # sibling agreement: the baseline and the candidate losses restrict target and prediction to the same outputs
    def _operands(e):
        for c in ast.walk(e):
            if isinstance(c, ast.Call) and unparse(c.func) == "loss" and len(c.args) == 2:
                sig = []
                for a in c.args:
                    while isinstance(a, ast.Call) and isinstance(a.func, ast.Attribute) and a.func.attr in ("expand_as", "expand", "contiguous"):
                        a = a.func.value
                    sig.append((unparse(a.value), unparse(a.slice)) if isinstance(a, ast.Subscript) else (unparse(a), None))
                return sig
        return None
    base = [s_ for s_ in fi.node.body if isinstance(s_, ast.Assign) and unparse(s_.targets[0]) == "loss_prev"]
    cand = [s_ for s_ in walk_no_nested(fi.node) if isinstance(s_, ast.Assign) and unparse(s_.targets[0]) == "loss_curr" and "loss(" in unparse(s_.value)]
    sb = _operands(base[0].value) if base else None
    sc = _operands(cand[0].value) if cand else None
    if sb and sc and not ok:
        slb, slc = {x[1] for x in sb}, {x[1] for x in sc}
        if slb != slc and (slb == {None} or slc == {None} or len(slb) > 1 or len(slc) > 1):
            out.append(violation("R-SIB", fi, "the starting loss and the candidate losses are the same objective (same output mask on target and prediction)",
                                 "baseline `%s` selects %s, candidates `%s` select %s: with a mask that excludes outputs the first acceptance test compares "
                                 "losses over different outputs" % (unparse(base[0].value), sorted(map(str, slb)), unparse(cand[0].value)[:70].replace("\n", " "), sorted(map(str, slc))), base[0]))
            ok = None
    if ok is not None:
        out.append((holds if ok else unrecognised)("R-ACCEPT", fi, role, src.get("loss_prev", "?"), fi.node, nontrivial=False))
    # sibling agreement: the sequence that is enumerated in the search and the sequence that is indexed when the winner is applied
    role_e = "the winning index refers to the same list that was enumerated in the search"
    enum_src = None
    for l_ in [n_ for n_ in walk_no_nested(fi.node) if isinstance(n_, ast.For)]:
        it = l_.iter
        if isinstance(it, ast.Call) and dotted(it.func) == "enumerate" and it.args:
            a0 = it.args[0]
            while isinstance(a0, ast.Call) and dotted(a0.func) in ("tqdm", "tqdm.tqdm", "list", "iter") and a0.args:
                a0 = a0.args[0]
            if any("best_motif_idx" in unparse(x) for x in ast.walk(l_)):
                enum_src = a0
    appl = [n_ for n_ in walk_no_nested(fi.node) if isinstance(n_, ast.Subscript) and unparse(n_.slice) == "best_motif_idx"]
    if enum_src is None or not appl:
        out.append(unrecognised("R-SIB", fi, role_e, "search loop / application index not found"))
    elif any(unparse(a_.value) != unparse(enum_src) for a_ in appl):
        bad_ = [a_ for a_ in appl if unparse(a_.value) != unparse(enum_src)][0]
        out.append(named("R-SIB", fi, role_e, "the search enumerates `%s` but the winner is taken from `%s[best_motif_idx]`: when the two lists differ "
                         "another motif than the one scored is substituted" % (unparse(enum_src)[:40], unparse(bad_.value)[:40]), bad_))
    else:
        out.append(holds("R-SIB", fi, role_e, "enumerate(%s) / %s[best_motif_idx]" % (unparse(enum_src), unparse(enum_src)), appl[0]))
    role = "the function returns the current sequence"
    ret = [s for s in walk_no_nested(fi.node) if isinstance(s, ast.Return)]
    ok = len(ret) == 1 and unparse(ret[0].value) == "X"
    out.append((holds if ok else violation)("R-ACCEPT", fi, role, unparse(ret[0].value) if ret else "?", ret[0] if ret else fi.node, nontrivial=False))
    return out


LEVEL_TEXT = ("Linear-constraint proof that the tiling evaluates exactly the start positions substitute accepts (count and column "
              "bounds, caller and kernel linked), plus structural rules for the accept/stop protocol of the greedy loop. These are "
              "necessary conditions of 'never worsens the loss' and 'takes the best substitution', valid for all motifs and lengths.")
LEVEL_NOTE = ("Decides: candidate coverage incl. the last fitting position, bounded tile writes, strict-improvement acceptance, reset, "
              "application form, loss_prev update, max_iter/tol ordering and operands, purity. Not decided: argmin semantics, model "
              "determinism, numeric loss values. Statements outside the confirmed spellings give ANALYSIS-ERROR, not alarms.")
TECHNIQUE = "abstract interpretation of tile extents (linear constraints) + protocol/ordering rules over ast + alias analysis"
