"""C10 - variant-effect functions evaluate exactly the string-level edited sequences."""
import ast
import re
from ..front import dotted, const_value, unparse, walk_no_nested, parent_map, kwarg
from ..core import holds, violation, unrecognised, named
from ..rules import pure_params
from .c08 import before_after, calls_named, return_order

ID = "C10"
ANCHORS = 'variant_effect.substitution_effect,variant_effect.deletion_effect,variant_effect.insertion_effect'.split(",")
MIN_INSTANCES = 16
# rule families whose findings in this module are derived by an engine (not by comparing spellings): exempt from the rewrite gate
SEMANTIC_RULES = {"R-MASK", "R-PURE", "R-SLICE0"}
EXPLANATION = (
    "R-MASK: abstract interpretation over element-value sets of the indicator tensors in deletion_effect "
    "(zeros_like -> {0}, index-store of 1 -> {0,1}, comparison -> bool, + adds sets, 1 - s maps, |/&/~ stay boolean): the "
    "tensor used as boolean index to remove positions must be a true indicator (a sum of two indicators is {0,1,2}, whose "
    "complement is not one). R-SIB: the single flag `left` orients the flank search, its un-flip and the trim of the "
    "reference. R-ORDER: insertions of one example are selected by their own rows and applied in descending coordinate "
    "order (or ascending with a running offset), each through ersatz.insert. Substitution: clone before write and the two "
    "index stores address the same (example, position) columns. ROLE: before/after calls. R-PURE for all tensor inputs."
)
ASSUMPTIONS = ["torch advanced-indexing/boolean-mask semantics; ersatz.insert rejects out-of-range positions (C01)",
               "equal positions within one insertion list are excluded by the property"]
VE = "variant_effect"


# ---------------------------------------------------------------- value-set domain for indicator tensors
BOOL = "bool"


def vs_of(e, env):
    """abstract element-value set of a tensor expression: frozenset of ints | 'bool' | None (unknown)"""
    if isinstance(e, ast.Name):
        return env.get(e.id)
    if isinstance(e, ast.Constant) and isinstance(e.value, int) and not isinstance(e.value, bool):
        return frozenset([e.value])
    if isinstance(e, ast.IfExp):
        a, b = vs_of(e.body, env), vs_of(e.orelse, env)
        if a is None or b is None:
            return None
        if a == BOOL and b == BOOL:
            return BOOL
        if a == BOOL or b == BOOL:
            return None
        return a | b
    if isinstance(e, ast.UnaryOp) and isinstance(e.op, ast.Invert):
        a = vs_of(e.operand, env)
        return BOOL if a == BOOL else None
    if isinstance(e, ast.BinOp):
        a, b = vs_of(e.left, env), vs_of(e.right, env)
        if isinstance(e.op, (ast.BitOr, ast.BitAnd, ast.BitXor)):
            if a == BOOL and b == BOOL:
                return BOOL
            if a is not None and b is not None and a != BOOL and b != BOOL and a <= {0, 1} and b <= {0, 1}:
                return frozenset([0, 1])
            return None
        if a is None or b is None:
            return None
        ai = frozenset([0, 1]) if a == BOOL else a
        bi = frozenset([0, 1]) if b == BOOL else b
        if isinstance(e.op, ast.Add):
            return frozenset(x + y for x in ai for y in bi)
        if isinstance(e.op, ast.Sub):
            return frozenset(x - y for x in ai for y in bi)
        if isinstance(e.op, ast.Mult):
            return frozenset(x * y for x in ai for y in bi)
        return None
    if isinstance(e, ast.Compare):
        return BOOL
    if isinstance(e, ast.Subscript):
        return vs_of(e.value, env)
    if isinstance(e, ast.Call):
        d = dotted(e.func)
        if d in ("torch.zeros_like", "torch.zeros", "numpy.zeros", "numpy.zeros_like"):
            return frozenset([0])
        if d in ("torch.ones_like", "torch.ones"):
            return frozenset([1])
        if d in ("torch.flip", "torch.clone") and e.args:
            return vs_of(e.args[0], env)
        if d in ("torch.logical_or", "torch.logical_and", "torch.logical_xor", "torch.logical_not"):
            return BOOL
        if d in ("torch.clamp", "torch.clip") and e.args:
            a = vs_of(e.args[0], env)
            lo, hi = const_value(kwarg(e, "min", 1)), const_value(kwarg(e, "max", 2))
            if a is not None and a != BOOL:
                return frozenset(min(max(x, lo if lo is not None else x), hi if hi is not None else x) for x in a)
            return a
        if isinstance(e.func, ast.Attribute):
            m = e.func.attr
            base = vs_of(e.func.value, env)
            if m in ("type", "to") and e.args:
                t = unparse(e.args[0])
                if t in ("torch.bool", "bool"):
                    return ("CAST", base)
                return base
            if m == "bool":
                return ("CAST", base)
            if m in ("flip", "clone", "repeat", "contiguous", "int", "long", "float", "unsqueeze", "expand", "reshape"):
                return base
            if m in ("clamp", "clip"):
                lo, hi = const_value(kwarg(e, "min", 0)), const_value(kwarg(e, "max", 1))
                if base is not None and base != BOOL:
                    return frozenset(min(max(x, lo if lo is not None else x), hi if hi is not None else x) for x in base)
                return base
            if m in ("logical_not", "logical_or", "logical_and"):
                return BOOL
    return None


def mask_rule(fi):
    role = "the removal mask used as boolean index is a true indicator (logical union of deletions and trim flank)"
    env = {}
    casts = []        # (node, base value set)
    for s in fi.node.body:
        if isinstance(s, ast.Assign) and len(s.targets) == 1:
            t = s.targets[0]
            if isinstance(t, ast.Name):
                v = vs_of(s.value, env)
                if isinstance(v, tuple) and v[0] == "CAST":
                    casts.append((s, v[1]))
                    v = BOOL if v[1] is not None else None
                # nested casts inside larger expressions
                for n in ast.walk(s.value):
                    if n is not s.value and isinstance(n, ast.Call):
                        vv = vs_of(n, env)
                        if isinstance(vv, tuple) and vv[0] == "CAST":
                            casts.append((s, vv[1]))
                if v is None and isinstance(s.value, ast.BinOp):
                    # re-evaluate with inner casts resolved to bool
                    v = vs_of(_resolve_casts(s.value), env)
                env[t.id] = v
            elif isinstance(t, ast.Subscript) and isinstance(t.value, ast.Name) and t.value.id in env:
                c = const_value(s.value)
                cur = env[t.value.id]
                if isinstance(c, int) and cur is not None and cur != BOOL:
                    env[t.value.id] = cur | {c}
                else:
                    env[t.value.id] = None
        elif isinstance(s, ast.AugAssign) and isinstance(s.target, ast.Name) and s.target.id in env:
            e = ast.BinOp(left=ast.Name(id=s.target.id, ctx=ast.Load()), op=s.op, right=s.value)
            env[s.target.id] = vs_of(e, env)
    # the boolean-index use:  X[<mask>]
    uses = []
    for n in walk_no_nested(fi.node):
        if isinstance(n, ast.Subscript) and isinstance(n.value, ast.Name) and n.value.id == "X" and isinstance(n.slice, ast.Name) \
                and isinstance(n.ctx, ast.Load):
            uses.append(n)
    if not uses:
        return [unrecognised("R-MASK", fi, role, "no boolean-mask indexing X[<mask>] found")]
    for s, base in casts:
        if base is None:
            continue
        if base != BOOL and not base <= {0, 1}:
            bad = sorted(x for x in base if x not in (0, 1))
            return [violation("R-MASK", fi, role,
                              "a tensor with possible element values %s is cast to bool: value %d also becomes True, so a position "
                              "that is in both sets (deleted and inside the trim flank) is treated like one that is in neither" % (
                                  sorted(base), bad[0]), s,
                              witness={"element_values": sorted(base), "offending_value": bad[0]})]
    # the mask variable at the point of use must be boolean
    # (re-run up to the statement containing the use to get its value there)
    env2 = {}
    use = uses[0]
    stmt_of_use = [s for s in fi.node.body if any(x is use for x in ast.walk(s))][0]
    final = None
    env_at = {}
    # replay
    env_at = _replay(fi, stmt_of_use)
    final = env_at.get(use.slice.id)
    if final == BOOL:
        return [holds("R-MASK", fi, role, "mask `%s` is boolean, built only from comparisons and logical operators / casts of {0,1}-valued indicators" % use.slice.id, use)]
    if final is None:
        return [unrecognised("R-MASK", fi, role, "cannot classify the element values of `%s`" % use.slice.id, use)]
    return [violation("R-MASK", fi, role, "mask `%s` has element values %s when used as an index" % (use.slice.id, sorted(final)), use)]


def _resolve_casts(e):
    return e


def _replay(fi, until):
    env = {}
    for s in fi.node.body:
        if s is until:
            break
        if isinstance(s, ast.Assign) and len(s.targets) == 1:
            t = s.targets[0]
            if isinstance(t, ast.Name):
                v = _vs_bool(s.value, env)
                env[t.id] = v
            elif isinstance(t, ast.Subscript) and isinstance(t.value, ast.Name) and t.value.id in env:
                c = const_value(s.value)
                cur = env[t.value.id]
                env[t.value.id] = (cur | {c}) if isinstance(c, int) and cur not in (None, BOOL) else None
        elif isinstance(s, ast.AugAssign) and isinstance(s.target, ast.Name) and s.target.id in env:
            e = ast.BinOp(left=ast.Name(id=s.target.id, ctx=ast.Load()), op=s.op, right=s.value)
            env[s.target.id] = _vs_bool(e, env)
    return env


def _vs_bool(e, env):
    """vs_of with casts collapsed to BOOL (the cast's soundness is checked separately)"""
    class T(ast.NodeTransformer):
        pass
    v = vs_of(e, env)
    if isinstance(v, tuple):
        return BOOL if v[1] is not None else None
    if v is None and isinstance(e, ast.BinOp):
        # operands may be casts
        def sub(x):
            r = vs_of(x, env)
            if isinstance(r, tuple):
                return BOOL if r[1] is not None else None
            return r
        a, b = sub(e.left), sub(e.right)
        if isinstance(e.op, (ast.BitOr, ast.BitAnd, ast.BitXor)) and a == BOOL and b == BOOL:
            return BOOL
    return v


def run(repo, tier):
    out = []
    out += substitution_rules(repo)
    out += deletion_rules(repo)
    out += insertion_rules(repo)
    for f, ps in (("substitution_effect", ["X", "substitutions"]), ("deletion_effect", ["X", "deletions"]),
                  ("insertion_effect", ["X", "insertions"])):
        out += pure_params(repo, repo.func(VE + "." + f), ps)
    from ..rules import negative_slice_rule
    from .. import rules as _rules
    # X_var = X[mask].reshape(N, A, -1): its length is L minus the per-example number of removed positions - data, any value in [1, L]; a
    # counter-model may therefore choose it freely (it is not an extent the engine merely failed to relate to L)
    _rules.TRUSTED_LOCAL_EXTENTS.add("X_var")
    for f in ("deletion_effect", "insertion_effect"):
        out += negative_slice_rule(repo.func(VE + "." + f))
    return out


def substitution_rules(repo):
    fi = repo.func(VE + ".substitution_effect")
    out = []
    stores = [s for s in fi.node.body if isinstance(s, ast.Assign) and isinstance(s.targets[0], ast.Subscript)]
    role = "each listed (example, position) column is zeroed and then its character set, on a clone"
    accum = [n for n in ast.walk(fi.node) if isinstance(n, ast.Call) and (
        dotted(n.func) in ("torch.sparse_coo_tensor", "torch.sparse.FloatTensor", "torch.index_add", "torch.scatter_add") or
        (isinstance(n.func, ast.Attribute) and n.func.attr in ("index_add_", "index_add", "scatter_add_", "scatter_add", "scatter_reduce_", "scatter_reduce")) or
        (isinstance(n.func, ast.Attribute) and n.func.attr in ("index_put_", "index_put") and any(k.arg == "accumulate" and const_value(k.value) is True for k in n.keywords)))]
    if len(stores) != 2 and accum:
        from ..core import named
        out.append(named("SUBST", fi, role, "`%s` ACCUMULATES at repeated coordinates (a substitution listed twice writes 2, not a one-hot 1); an indexed "
                         "assignment sets" % unparse(accum[0])[:50], accum[0]))
    elif len(stores) != 2:
        out.append(unrecognised("SUBST", fi, role, "expected two index stores, found %d" % len(stores)))
    else:
        t0 = [unparse(i) for i in stores[0].targets[0].slice.elts] if isinstance(stores[0].targets[0].slice, ast.Tuple) else []
        t1 = [unparse(i) for i in stores[1].targets[0].slice.elts] if isinstance(stores[1].targets[0].slice, ast.Tuple) else []
        b0, b1 = unparse(stores[0].targets[0].value), unparse(stores[1].targets[0].value)
        S = "substitutions"
        ok0 = t0 == ["%s[:, 0]" % S, ":", "%s[:, 1]" % S] and const_value(stores[0].value) == 0
        ok1 = t1 == ["%s[:, 0]" % S, "%s[:, 2]" % S, "%s[:, 1]" % S] and const_value(stores[1].value) == 1
        if b0 != b1:
            out.append(violation("SUBST", fi, role, "the two stores address different tensors (%s, %s)" % (b0, b1), stores[0]))
        elif ok0 and ok1:
            # the base is a clone of X
            cl = [s for s in fi.node.body if isinstance(s, ast.Assign) and unparse(s.targets[0]) == b0
                  and unparse(s.value) in ("torch.clone(X)", "X.clone()")]
            if not cl or fi.node.body.index(cl[0]) > fi.node.body.index(stores[0]):
                out.append(violation("SUBST", fi, role, "`%s` is not a clone of X made before the stores" % b0, stores[0]))
            else:
                out.append(holds("SUBST", fi, role, "%s[%s] = 0; %s[%s] = 1" % (b0, ", ".join(t0), b1, ", ".join(t1)), stores[0]))
        elif t0[:1] == t1[:1] and len(t0) == 3 and len(t1) == 3 and t0[2] != t1[2]:
            out.append(violation("SUBST", fi, role, "the zeroing store addresses positions `%s` but the setting store `%s`" % (t0[2], t1[2]), stores[1]))
        elif len(t0) == 3 and len(t1) == 3 and (t0[0] != t1[0]):
            out.append(violation("SUBST", fi, role, "the stores address different example columns (`%s` vs `%s`)" % (t0[0], t1[0]), stores[1]))
        elif ok1 and not ok0:
            out.append(violation("SUBST", fi, role, "zeroing store is `%s = %s`" % (unparse(stores[0].targets[0]), unparse(stores[0].value)), stores[0]))
        elif ok0 and not ok1:
            out.append(violation("SUBST", fi, role, "setting store is `%s = %s`" % (unparse(stores[1].targets[0]), unparse(stores[1].value)), stores[1]))
        else:
            out.append(unrecognised("SUBST", fi, role, "stores: %s ; %s" % (unparse(stores[0]), unparse(stores[1]))))
        out += before_after(fi, b0)
    out += return_order(fi, "y_before", "y_after")
    return out


def deletion_rules(repo):
    fi = repo.func(VE + ".deletion_effect")
    out = []
    out += mask_rule(fi)
    src = {}
    for s in fi.node.body:
        if isinstance(s, ast.Assign) and len(s.targets) == 1:
            src.setdefault(unparse(s.targets[0]), []).append(s)
    role = "the deletion indicator has one row per example and one column per position"
    mb = [s_ for s_ in fi.node.body if isinstance(s_, ast.Assign) and unparse(s_.targets[0]) == "mask"]
    t0 = unparse(mb[0].value) if mb else ""
    if t0 in ("torch.zeros_like(X[:, 0]).type(torch.int32)", "torch.zeros_like(X[:, 0], dtype=torch.int32)", "torch.zeros(X.shape[0], X.shape[-1], dtype=torch.int32)"):
        out.append(holds("DEL", fi, role, t0, mb[0], nontrivial=False))
    elif "X[0" in t0 or "X[:, :, 0]" in t0:
        out.append(violation("DEL", fi, role, "indicator is built from `%s`: its axes are not (example, position)" % t0, mb[0]))
    else:
        out.append(unrecognised("DEL", fi, role, t0))
    # deletions marked at their own (example, position)
    role = "user deletions are marked at [deletions[:,0], deletions[:,1]]"
    marks = [s for s in fi.node.body if isinstance(s, ast.Assign) and isinstance(s.targets[0], ast.Subscript)
             and unparse(s.targets[0].value) == "mask"]
    ok = len(marks) == 1 and unparse(marks[0].targets[0].slice) == "(deletions[:, 0], deletions[:, 1])" and const_value(marks[0].value) == 1
    out.append((holds if ok else violation)("DEL", fi, role, unparse(marks[0]) if marks else "no marking store", marks[0] if marks else fi.node))
    # counts = max - count
    role = "every example is topped up to the maximum deletion count (counts = max - count)"
    cs = [unparse(s.value) for s in src.get("counts", [])]
    okc = cs[:1] in (["mask.sum(dim=-1)"], ["mask.sum(-1)"], ["mask.sum(axis=-1)"]) and len(cs) == 2 and \
        cs[1] in ("abs(counts - counts.max())", "counts.max() - counts", "torch.abs(counts - counts.max())")
    out.append((holds if okc else unrecognised)("DEL", fi, role, "; ".join(cs), (src.get("counts") or [fi.node])[0]))
    # flank: first `counts` undeleted positions from the chosen side
    role = "the trim flank is the first counts[i] undeleted positions seen from the chosen side"
    fl = src.get("flank", [])
    t = unparse(fl[0].value) if fl else ""
    okf = t in ("torch.cumsum(1 - m, dim=-1) <= counts[:, None]", "(1 - m).cumsum(dim=-1) <= counts[:, None]")
    if fl and not okf and re.search(r"cumsum\(1 - m, dim=-1\) < counts\[:, None\]", t):
        out.append(violation("DEL", fi, role, "`%s` trims one position too few" % t, fl[0]))
    elif fl and not okf and re.search(r"cumsum\(m, dim=-1\)", t):
        out.append(violation("DEL", fi, role, "`%s` counts deleted instead of undeleted positions" % t, fl[0]))
    else:
        out.append((holds if okf else unrecognised)("DEL", fi, role, t, fl[0] if fl else fi.node))
    # R-SIB on `left`
    role = "the flag `left` orients the flank search, its un-flip and the trim of the reference consistently"
    ifexps = [n for n in walk_no_nested(fi.node) if isinstance(n, ast.IfExp) and "left" in unparse(n.test)]
    ifs = [n for n in fi.node.body if isinstance(n, ast.If) and "left" in unparse(n.test)]
    probs = []
    for n in ifexps:
        pos = unparse(n.test) in ("left == True", "left", "left is True")
        neg = unparse(n.test) in ("left == False", "not left", "left is False")
        a, b = (n.body, n.orelse) if pos else ((n.orelse, n.body) if neg else (None, None))
        if a is None:
            probs.append((n, "test `%s` not recognised" % unparse(n.test)))
            continue
        ta, tb = unparse(a), unparse(b)
        # left arm must be the unflipped tensor, right arm its flip along the last axis
        m_ = re.fullmatch(r"torch\.flip\((\w+), dims=\(-1,\)\)|(\w+)\.flip\(-1\)|torch\.flip\((\w+), \(-1,\)\)|torch\.flip\((\w+), dims=\[-1\]\)", tb)
        if not m_ or (m_.group(1) or m_.group(2) or m_.group(3) or m_.group(4)) != ta:
            probs.append((n, "for left=True the arm is `%s`, for left=False `%s` (expected x / flip(x, -1))" % (ta, tb)))
    if len(ifexps) < 2:
        probs.append((fi.node, "expected two orientation selections (search and un-flip), found %d" % len(ifexps)))
    if len(ifs) != 1:
        probs.append((fi.node, "expected one `if left` selecting the trim of X"))
    else:
        n = ifs[0]
        pos = unparse(n.test) in ("left == True", "left", "left is True")
        a, b = (n.body, n.orelse) if pos else (n.orelse, n.body)
        ta = unparse(a[0]) if a else ""
        tb = unparse(b[0]) if b else ""
        swapped = ta == "X = X[:, :, :X_var.shape[-1]]" and tb == "X = X[:, :, -X_var.shape[-1]:]"
        if swapped:
            probs.append((n, "the reference is trimmed from the opposite side of the edited sequence: left=True keeps the FIRST positions of X "
                             "while the flank search removed positions counted from the left"))
        elif ta != "X = X[:, :, -X_var.shape[-1]:]" or tb != "X = X[:, :, :X_var.shape[-1]]":
            probs.append((n, "left=True keeps `%s`, left=False keeps `%s`; expected the last / first X_var.shape[-1] positions" % (ta, tb)))
    if probs:
        kind = violation if not any("not recognised" in w or "expected two" in w or "expected one" in w for _, w in probs) else unrecognised
        if kind is violation and "opposite side" in probs[0][1]:
            kind = named
        out.append(kind("R-SIB", fi, role, probs[0][1], probs[0][0]))
    else:
        out.append(holds("R-SIB", fi, role, "%d orientation selections + trim of X keyed on the same flag" % len(ifexps), ifexps[0]))
    # X_var
    role = "the edited batch keeps exactly the unmasked positions, per example"
    xv = src.get("X_var", [])
    t = unparse(xv[0].value) if xv else ""
    ok = t == "X[mask].reshape(X.shape[0], X.shape[1], -1)"
    out.append((holds if ok else unrecognised)("DEL", fi, role, t, xv[0] if xv else fi.node, nontrivial=False))
    # mask is complemented exactly once and broadcast over the alphabet axis
    role = "the keep-mask is the complement of the removal mask, broadcast over characters"
    ms = [unparse(s.value) for s in src.get("mask", [])]
    comp = [t for t in ms if t in ("~mask", "torch.logical_not(mask)", "mask.logical_not()", "(1 - mask).type(torch.bool)",
                                   "(1 - mask).bool()", "mask == 0", "(mask == 0)")]
    bro = [t for t in ms if t == "mask[:, None].repeat(1, X.shape[1], 1)"]
    if len(comp) == 1 and bro and ms.index(comp[0]) < ms.index(bro[0]):
        out.append(holds("DEL", fi, role, "; ".join(ms[-2:]), src["mask"][-1]))
    elif len(comp) == 0 and bro and not any("~" in t or "1 -" in t or "== 0" in t or "logical_not" in t for t in ms):
        out.append(violation("DEL", fi, role, "removal mask is never complemented: %s" % ms, (src.get("mask") or [fi.node])[-1]))
    else:
        out.append(unrecognised("DEL", fi, role, "; ".join(ms)))
    # X is deliberately rebound to the reference trimmed to the edited length (checked by R-SIB above)
    out += before_after(fi, "X_var", allow_rebound=True)
    out += return_order(fi, "y_before", "y_after")
    return out


def insertion_rules(repo):
    fi = repo.func(VE + ".insertion_effect")
    out = []
    loops = [n for n in fi.node.body if isinstance(n, ast.For)]
    role = "insertions of example i are exactly the rows whose first column is i"
    if not loops or not isinstance(loops[0].target, ast.Name):
        return [unrecognised("INS", fi, role, "per-example loop not found")]
    loop = loops[0]
    iv = loop.target.id
    asg = [s for s in loop.body if isinstance(s, ast.Assign) and isinstance(s.targets[0], ast.Name)]
    sel = [s for s in asg if re.fullmatch(r"insertions\[insertions\[:, 0\] == %s\]" % iv, unparse(s.value))]
    if unparse(loop.iter) not in ("range(X.shape[0])", "range(len(X))"):
        out.append(violation("INS", fi, role, "loop iterates `%s`" % unparse(loop.iter), loop))
    elif not sel:
        out.append(violation("INS", fi, role, "no selection `insertions[insertions[:, 0] == %s]`" % iv, loop))
    else:
        out.append(holds("INS", fi, role, unparse(sel[0]), sel[0]))
    # order
    role = "insertions of one example are applied right-to-left (descending coordinate) so coordinates stay original"
    svar = sel[0].targets[0].id if sel else None
    sorts = [s for s in asg if "argsort" in unparse(s.value) or "sort(" in unparse(s.value)]
    inner = [n for n in loop.body if isinstance(n, ast.For)]
    if not inner:
        out.append(unrecognised("R-ORDER", fi, role, "inner loop over the insertions not found"))
        return out
    il = inner[0]
    itv = unparse(il.iter)
    desc = [s for s in sorts if re.fullmatch(r"%s\[torch\.argsort\(%s\[:, 1\], descending=True\)\]" % (svar, svar), unparse(s.value))]
    asc = [s for s in sorts if re.fullmatch(r"%s\[torch\.argsort\(%s\[:, 1\](, descending=False)?\)\]" % (svar, svar), unparse(s.value))]
    offset = any(isinstance(n, ast.AugAssign) for n in ast.walk(il))
    if desc and itv == desc[0].targets[0].id:
        out.append(holds("R-ORDER", fi, role, unparse(desc[0].value), desc[0]))
    elif asc and itv == asc[0].targets[0].id and offset:
        out.append(holds("R-ORDER", fi, role, "ascending order with a running offset", asc[0]))
    elif asc and itv == asc[0].targets[0].id:
        out.append(named("R-ORDER", fi, role, "insertions are applied in ascending order without offsetting later coordinates", asc[0]))
    elif not sorts:
        out.append(named("R-ORDER", fi, role, "the rows are applied in list order (`for ... in %s`) without sorting by coordinate: "
                             "an insertion left of an already-applied one shifts it" % itv, il))
    elif re.search(r"argsort\(%s\[:, [02]\]" % svar, " ".join(unparse(s.value) for s in sorts)):
        out.append(named("R-ORDER", fi, role, "rows are sorted by a column other than the coordinate", sorts[0]))
    else:
        out.append(unrecognised("R-ORDER", fi, role, "sorting idiom `%s` not recognised" % unparse(sorts[0].value), sorts[0]))
    # each insertion through ersatz.insert at its own coordinate with a one-hot column of its character
    role = "each insertion places a one-hot column of its character immediately before its coordinate via ersatz.insert"
    ins = [n for n in ast.walk(il) if isinstance(n, ast.Call) and dotted(n.func) == "insert"]
    tg = [unparse(t) for t in (il.target.elts if isinstance(il.target, ast.Tuple) else [])]
    if len(ins) != 1 or len(tg) != 3:
        out.append(unrecognised("INS", fi, role, "inner loop shape not recognised"))
    else:
        c = ins[0]
        pos, ch = tg[1], tg[2]
        st = unparse(kwarg(c, "start", 2))
        body = [unparse(s) for s in il.body]
        okv = any(("v = torch.zeros((1, %s.shape[1], 1))" % b_) in body for b_ in ("X", "x")) and "v[:, %s] = 1" % ch in body
        if st != pos:
            out.append(violation("INS", fi, role, "insert(..., start=%s): expected the row's coordinate `%s`" % (st, pos), c))
        elif not okv:
            out.append(unrecognised("INS", fi, role, "construction of the inserted column: %s" % body))
        elif [unparse(a) for a in c.args[:2]] != ["x", "v"]:
            out.append(violation("INS", fi, role, "insert(%s)" % ", ".join(unparse(a) for a in c.args), c))
        else:
            out.append(holds("INS", fi, role, unparse(c), c))
    # trim
    role = "the overhang is trimmed from the side named by `left` back to the original length"
    ifs = [n for n in loop.body if isinstance(n, ast.If) and "left" in unparse(n.test)]
    nested = [n for n in ast.walk(il) if isinstance(n, ast.If) and "left" in unparse(n.test)]
    if nested:
        out.append(violation("R-SIB", fi, role, "the trim runs inside the loop over insertions: after the first insertion the sequence is cut back, so the "
                             "remaining insertions are applied at shifted coordinates (left=True)", nested[0]))
    elif len(ifs) != 1:
        out.append(unrecognised("R-SIB", fi, role, "`if left` trim not found"))
    else:
        n = ifs[0]
        pos = unparse(n.test) in ("left == True", "left", "left is True")
        a, b = (n.body, n.orelse) if pos else (n.orelse, n.body)
        ta, tb = unparse(a[0]) if a else "", unparse(b[0]) if b else ""
        if ta == "x = x[:, :, -X.shape[-1]:]" and tb == "x = x[:, :, :X.shape[-1]]":
            out.append(holds("R-SIB", fi, role, "left: %s | right: %s" % (ta, tb), n))
        elif ta == "x = x[:, :, :X.shape[-1]]" and tb == "x = x[:, :, -X.shape[-1]:]":
            out.append(named("R-SIB", fi, role, "trim sides are exchanged (left=True keeps the first L positions)", n))
        else:
            out.append(unrecognised("R-SIB", fi, role, "left: %s | right: %s" % (ta, tb), n))
    # start from the example's own row
    role = "editing starts from the example's own sequence X[i:i+1]"
    x0 = [s for s in loop.body if isinstance(s, ast.Assign) and unparse(s.targets[0]) == "x"]
    ok = bool(x0) and unparse(x0[0].value) in ("X[%s:%s + 1]" % (iv, iv), "X[%s][None]" % iv, "X[%s].unsqueeze(0)" % iv)
    out.append((holds if ok else violation)("INS", fi, role, unparse(x0[0]) if x0 else "?", x0[0] if x0 else loop, nontrivial=False))
    role = "edited examples are collected in example order"
    app = [s for s in loop.body if isinstance(s, ast.Expr) and unparse(s.value) == "X_var.append(x)"]
    cat = [s for s in fi.node.body if isinstance(s, ast.Assign) and unparse(s) == "X_var = torch.cat(X_var)"]
    out.append((holds if app and cat else unrecognised)("INS", fi, role, "X_var.append(x); X_var = torch.cat(X_var)", app[0] if app else loop, nontrivial=False))
    out += before_after(fi, "X_var")
    out += return_order(fi, "y_before", "y_after")
    return out


LEVEL_TEXT = ("Abstract interpretation over indicator value sets (deletion mask), sibling-arm agreement on the trim side, "
              "ordering idiom of insertions, index-store agreement for substitutions, before/after roles and input purity - "
              "structural necessary conditions of 'func sees exactly the string-level edited sequences', valid for all variant lists.")
LEVEL_NOTE = ("Decides mask indicator-ness, side consistency, insertion order/selection, substitution addressing, roles, purity. "
              "Not decided: the cumulative-sum arithmetic choosing how many flank positions to trim beyond its confirmed form; "
              "equal positions in one insertion list (excluded by the property). Unmatched idioms give ANALYSIS-ERROR, not alarms.")
TECHNIQUE = "value-set abstract interpretation of indicator tensors + sibling-arm / ordering-idiom rules + alias analysis over ast"
