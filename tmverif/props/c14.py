"""C14 - TOMTOM scores and p-values match an independent complete-score reference (narrow structural clauses only)."""
import ast
from ..affine import Lin, ge, le, lt, decide, _infeasible
from ..front import dotted, const_value, unparse, walk_no_nested, parent_map, kwarg
from ..core import holds, violation, unrecognised
from ..flow import AbsInt
from ..rules import decide_states
from .. import terms

ID = "C14"
ANCHORS = 'tools.tomtom._p_values,tools.tomtom._merge_rc_results,tools.tomtom._p_value_backgrounds'.split(",")
MIN_INSTANCES = 8
# rule families whose findings in this module are derived by an engine (not by comparing spellings): exempt from the rewrite gate
SEMANTIC_RULES = {"LOOKUP-GUARD", "OVERLAP", "STATE"}
EXPLANATION = (
    "LOOKUP-GUARD: the null-CDF lookup B_cdfs[nt, uint64(score-1)] is reached only on paths where score-1 >= 0 is implied by the "
    "guards (an unsigned cast of a possibly negative index wraps to a huge column) - decided in the linear-constraint domain. "
    "R-TERM: _merge_rc_results combines the strands as p = 1 - (1 - min(p+, p-))^2 (polynomial normal form) and copies score, "
    "offset, overlap from the strand with the larger score, setting the strand flag accordingly. OVERLAP/OFFSET: the reported "
    "overlap expression equals min(k+1, nq, nt, nt+nq-1-k) and the offset k-nq+1 for every alignment k (piecewise-linear equality "
    "proved by case analysis over the min/max alternatives with Fourier-Motzkin). SCAN: the best alignment is replaced only when "
    "the score is not smaller, and the stored score/offset/overlap/p-value belong to the same alignment. R-SIB: the provisional "
    "and the final construction of the per-target-length null distribution cover the same target lengths."
)
ASSUMPTIONS = ["NOT decided (numerical identities against an independent reference; not applicable to static analysis): correctness of the "
               "null-distribution dynamic programme, the integerised similarity, the max-of-independent-variables recursion, monotonicity in "
               "Euclidean distance, self-match at offset 0"]
T = "tools.tomtom"


def run(repo, tier):
    out = []
    out += pvalues_rules(repo)
    out += merge_rules(repo)
    out += background_rules(repo)
    from ..rules import loop_headers_rule
    for q, exp, what in (
            ("_p_value_backgrounds", ["range(nq)", "range(i, nq)", "range(1, n_bins + 1)", "range(n_bins * j + 1)", "range(1, n_bins + 1)", "range(n_bins * (j + 1) + c)",
                                      None, "range(nq, t_max + 1)", None, "range(nq - i + 1)", "range(i - 1)", "range(B.shape[0])", "range(1, n)", "range(n)"],
             "every query span, score bin, target length and alignment class enters the null distribution"),
            ("_p_values", ["enumerate(T_lens)", "range(nt + nq - 1)", "range(nt)", "range(nq)", "range(nt + nq - 1)"],
             "every target, every target column, every query column and every relative offset is scanned"),
            ("_integer_distances_and_histogram", ["range(nq)", "range(Y.shape[-1])", "range(Y.shape[0])", "range(nq)", "range(nq)", "range(Y.shape[-1])"],
             "distances are computed for every query column x target column x alphabet row"),
            ("_binned_median", ["range(n)", "range(n_bins)"], "the binned median sees every value and scans every bin"),
            ("_merge_rc_results", ["range(n)"], "every target's strands are merged"),
            ("_pairwise_max", ["range(n)"], "the maximum distribution is computed for every score")):
        out += loop_headers_rule(repo.func(T + "." + q), exp, "LOOPS", what)
    out += integerise_rule(repo)
    return out


def integerise_rule(repo):
    """column similarities are integerised by floor(v * scale + 0.5) (round half UP), the rule of the reference implementation; python's and
    numpy's round() round halves to EVEN, which scores a similarity that lies exactly between two integers one lower"""
    from ..core import named
    fi = repo.func(T + "._integer_distances_and_histogram")
    role = "similarities are integerised by floor(v * bin_scale + 0.5) (round half up, as the reference does)"
    xs = [s_ for s_ in walk_no_nested(fi.node) if isinstance(s_, ast.Assign) and isinstance(s_.targets[0], ast.Name) and
          "bin_scale" in unparse(s_.value) and "gamma[" in unparse(s_.value)]
    if len(xs) != 1:
        return [unrecognised("INTEGERISE", fi, role, "integerisation statement not found (%d candidates)" % len(xs))]
    t = unparse(xs[0].value)
    if t == "math.floor((gamma[j, i] - medians[i]) * bin_scale + 0.5)":
        return [holds("INTEGERISE", fi, role, t, xs[0], nontrivial=False)]
    calls = [dotted(c.func) for c in ast.walk(xs[0].value) if isinstance(c, ast.Call)]
    if any(c in ("round", "numpy.round", "numpy.rint", "numpy.around", "torch.round") for c in calls):
        return [named("INTEGERISE", fi, role, "`%s` rounds halves to even: a similarity exactly between two integers is scored one lower than by "
                      "floor(v + 0.5), which shifts alignment scores and the null histogram" % t[:80], xs[0])]
    if any(c in ("int", "math.trunc", "math.ceil") for c in calls) and "+ 0.5" not in t:
        return [named("INTEGERISE", fi, role, "`%s` truncates instead of rounding to nearest" % t[:80], xs[0])]
    return [unrecognised("INTEGERISE", fi, role, t[:100], xs[0])]


def pvalues_rules(repo):
    fi = repo.func(T + "._p_values")
    out = []
    pm = parent_map(fi.node)
    ai = AbsInt(fi, int_params=set(fi.params) | {"score", "overlap", "k", "nt"})
    look = [n for n in walk_no_nested(fi.node) if isinstance(n, ast.Subscript) and unparse(n.value) == "B_cdfs" and isinstance(n.ctx, ast.Load)]
    role = "the null-CDF column index score-1 is non-negative wherever the lookup is executed"
    if len(look) != 1:
        out.append(unrecognised("LOOKUP-GUARD", fi, role, "expected one lookup into B_cdfs, found %d" % len(look)))
    else:
        lk = look[0]
        stmt = lk
        while not isinstance(stmt, ast.stmt):
            stmt = pm[stmt]
        idx = lk.slice.elts if isinstance(lk.slice, ast.Tuple) else [lk.slice]
        col = idx[1] if len(idx) == 2 else None
        inner = col
        while isinstance(inner, ast.Call) and dotted(inner.func) in ("uint64", "numpy.uint64", "int") and inner.args:
            inner = inner.args[0]
        if col is None:
            out.append(unrecognised("LOOKUP-GUARD", fi, role, unparse(lk)))
        else:
            def mk(st):
                e = ai.lin(st, inner)
                if e is None:
                    return None
                return [("column index >= 0 before the unsigned cast", e)]
            out.append(decide_states(ai, fi, stmt, mk, "LOOKUP-GUARD", role))
            role2 = "the p-value is read in the row of the target's length, one column below the best score"
            ok = unparse(idx[0]) == "nt" and unparse(inner) == "score - 1"
            if ok:
                out.append(holds("LOOKUP-GUARD", fi, role2, unparse(lk), lk, nontrivial=False))
            elif unparse(inner) in ("score", "score + 1"):
                out.append(violation("LOOKUP-GUARD", fi, role2, "column is `%s`: the CDF must be evaluated just below the best score (score - 1)" % unparse(inner), lk))
            else:
                out.append(unrecognised("LOOKUP-GUARD", fi, role2, unparse(lk)))
    # overlap / offset formulas
    src = {}
    for s in walk_no_nested(fi.node):
        if isinstance(s, ast.Assign) and len(s.targets) == 1:
            src.setdefault(unparse(s.targets[0]), []).append(s)
    role = "overlap of alignment k equals min(k+1, nq, nt, nt+nq-1-k)"
    ov = src.get("overlap", [])
    if len(ov) != 1:
        out.append(unrecognised("OVERLAP", fi, role, "overlap assignment not found"))
    else:
        s = ov[0]
        sts = ai.states_at(s)
        spec = ast.parse("min(min(k + 1, nq), min(nt, nt + nq - 1 - k))", mode="eval").body
        verdict = None
        for st in sts[:4]:
            st = st.copy()
            base = list(st.G)
            kk = ai.lin(st, ast.Name(id="k", ctx=ast.Load()))
            nq, nt = ai.lin(st, ast.Name(id="nq", ctx=ast.Load())), ai.lin(st, ast.Name(id="nt", ctx=ast.Load()))
            if None in (kk, nq, nt):
                verdict = unrecognised("OVERLAP", fi, role, "k / nq / nt not tracked", s)
                break
            dom = [ge(kk, 0), lt(kk, nt + nq - 1), ge(nq, 1), ge(nt, 1)]
            code = ai.lin_alts(st, s.value)
            ref = ai.lin_alts(st, spec)
            if code is None or ref is None:
                verdict = unrecognised("OVERLAP", fi, role, "expression outside the piecewise-linear fragment: %s" % unparse(s.value), s)
                break
            for a, ca in code:
                for b, cb in ref:
                    G = base + dom + [c for c in ca + cb if not c.is_const()]
                    if any(c.is_const() and c.c < 0 for c in ca + cb) or _infeasible(G):
                        continue
                    for e in (a - b, b - a):
                        v, model = decide(G, e)
                        if v == "REFUTED":
                            verdict = violation("OVERLAP", fi, role, "`%s` differs from the number of overlapping columns, e.g. %s" % (
                                unparse(s.value), {k_: x for k_, x in sorted(model.items()) if len(k_) < 12}), s, witness={"assignment": model})
                            break
                        if v != "PROVED":
                            verdict = unrecognised("OVERLAP", fi, role, "equality not proved on one case", s)
                    if verdict:
                        break
                if verdict:
                    break
            if verdict:
                break
        out.append(verdict or holds("OVERLAP", fi, role, "%s == min(k+1, nq, nt, nt+nq-1-k) on every case" % unparse(s.value), s))
    role = "stored offset is k - nq + 1 and stored overlap / score / p-value belong to the same alignment k"
    st_ = [s for s in walk_no_nested(fi.node) if isinstance(s, ast.Assign) and isinstance(s.targets[0], ast.Subscript) and unparse(s.targets[0].value) == "results"]
    upd = {unparse(s.targets[0]): unparse(s.value) for s in st_ if s.lineno > (ov[0].lineno if ov else 0)}
    want = {"results[i, 1]": "score", "results[i, 2]": "k - nq + 1", "results[i, 3]": "overlap"}
    if all(upd.get(k_) == v for k_, v in want.items()):
        out.append(holds("SCAN", fi, role, "; ".join("%s = %s" % kv for kv in want.items()), st_[-1]))
    elif upd.get("results[i, 2]") in ("k - nq", "k - nq - 1", "k", "nq - k - 1", "k - nt + 1"):
        out.append(violation("SCAN", fi, role, "offset is stored as `%s`" % upd.get("results[i, 2]"), st_[-1]))
    else:
        out.append(unrecognised("SCAN", fi, role, str(upd)))
    role = "the best alignment is replaced only by a score that is not smaller (reported score is the maximum over offsets)"
    scan = [n for n in walk_no_nested(fi.node) if isinstance(n, ast.If) and "score" in unparse(n.test) and "results[i, 1]" in unparse(n.test)
            and any(x in st_ for x in ast.walk(n))]
    t = unparse(scan[0].test) if scan else ""
    if t in ("score >= results[i, 1]", "results[i, 1] <= score", "score > results[i, 1]"):
        out.append(holds("SCAN", fi, role, t, scan[0]))
    elif t in ("score <= results[i, 1]", "score < results[i, 1]"):
        out.append(violation("SCAN", fi, role, "`%s` keeps the smallest score" % t, scan[0]))
    else:
        out.append(unrecognised("SCAN", fi, role, t))
    role = "every alignment k in [0, nt+nq-1) is scanned and scores start from nq*offset (unaligned columns)"
    loops = [unparse(l.iter) for l in walk_no_nested(fi.node) if isinstance(l, ast.For)]
    init = [unparse(s) for s in walk_no_nested(fi.node) if isinstance(s, ast.Assign) and unparse(s.targets[0]) == "t_sums[k]"]
    ok = loops.count("range(nt + nq - 1)") == 2 and init == ["t_sums[k] = nq * offset"]
    out.append((holds if ok else unrecognised)("SCAN", fi, role, "%s ; %s" % (loops, init), fi.node, nontrivial=False))
    return out


def merge_rules(repo):
    fi = repo.func(T + "._merge_rc_results")
    out = []
    role = "strands are merged as p = 1 - (1 - min(p+, p-))**2"
    loop = [n for n in fi.node.body if isinstance(n, ast.For)]
    if not loop:
        return [unrecognised("R-TERM", fi, role, "loop over targets not found")]
    loop = loop[0]
    te = terms.TermEval()
    pstore = None
    for s in loop.body:
        if isinstance(s, ast.Assign) and isinstance(s.targets[0], ast.Name):
            te.run([s])
        elif isinstance(s, ast.Assign) and unparse(s.targets[0]) == "results[i, 0]":
            pstore = s
            break
    if pstore is None:
        out.append(unrecognised("R-TERM", fi, role, "store of the merged p-value not found"))
    else:
        got = te.ev(pstore.value)
        exp, _ = terms.eval_source("m = min(results[i, 0], results[i + n, 0])\nreturn 1 - (1 - m) ** 2\n")
        alt, _ = terms.eval_source("m = min(results[i + n, 0], results[i, 0])\nreturn 1 - (1 - m) ** 2\n")
        if got.equals(exp) or got.equals(alt):
            out.append(holds("R-TERM", fi, role, "normal form equals 2m - m^2 with m = min of the two strands", pstore))
        elif any(a.startswith("?") for a in got.atoms()):
            out.append(unrecognised("R-TERM", fi, role, "opaque operators: %s" % sorted(te.opaque)[:2]))
        else:
            out.append(violation("R-TERM", fi, role, "merged p-value has a different normal form", pstore,
                                 semantic=terms.structural_difference(got, exp), witness={"got": terms.canon(got)[:200], "expected": terms.canon(exp)[:200]}))
    role = "score, offset, overlap are taken from the strand with the larger score and the strand flag says which"
    ifs = [n for n in loop.body if isinstance(n, ast.If)]
    if len(ifs) != 1:
        out.append(unrecognised("STRAND", fi, role, "strand selection `if` not found"))
    else:
        n = ifs[0]
        t = unparse(n.test)
        body = [unparse(s) for s in n.body]
        pre = [unparse(s) for s in loop.body if isinstance(s, ast.Assign) and unparse(s.targets[0]) == "results[i, 4]"]
        want = ["results[i, 1] = results[i + n, 1]", "results[i, 2] = results[i + n, 2]", "results[i, 3] = results[i + n, 3]", "results[i, 4] = 1"]
        if t in ("results[i, 1] <= results[i + n, 1]", "results[i, 1] < results[i + n, 1]", "results[i + n, 1] >= results[i, 1]", "results[i + n, 1] > results[i, 1]"):
            if body == want and pre == ["results[i, 4] = 0"]:
                out.append(holds("STRAND", fi, role, "%s: copy fields 1..3, flag 1; else flag 0" % t, n))
            elif "results[i, 4] = 1" not in body or pre != ["results[i, 4] = 0"]:
                out.append(violation("STRAND", fi, role, "strand flag is not set consistently (pre: %s, in branch: %s)" % (pre, [b for b in body if "4]" in b]), n))
            else:
                miss = [w for w in want if w not in body]
                out.append(violation("STRAND", fi, role, "field copy `%s` is missing: fields of the two strands are mixed" % miss[0], n))
        elif t in ("results[i, 1] >= results[i + n, 1]", "results[i, 1] > results[i + n, 1]"):
            out.append(violation("STRAND", fi, role, "`%s` copies the reverse strand when the forward strand scores higher" % t, n))
        elif "results[i, 0]" in t:
            out.append(violation("STRAND", fi, role, "strand is chosen by `%s` (p-values were already merged), not by score" % t, n))
        else:
            out.append(unrecognised("STRAND", fi, role, t))
    role = "forward strand rows are [0, n), reverse strand rows [n, 2n) with n = number of rows // 2"
    src = [unparse(s) for s in fi.node.body if isinstance(s, ast.Assign)]
    ok = "nt = results.shape[0]" in src and "n = nt // 2" in src and unparse(loop.iter) == "range(n)"
    out.append((holds if ok else unrecognised)("STRAND", fi, role, "; ".join(src), loop, nontrivial=False))
    return out


def background_rules(repo):
    fi = repo.func(T + "._p_value_backgrounds")
    out = []
    ai = AbsInt(fi, int_params=set(fi.params))
    role = "the provisional and the final construction of the null distribution cover the same target lengths 1 .. min(nq, t_max+1)-1"
    loops = [n for n in fi.node.body if isinstance(n, ast.For) and isinstance(n.target, ast.Name)
             and any(isinstance(x, ast.Call) and dotted(x.func) == "_pairwise_max" for x in ast.walk(n))]
    cand = [l for l in loops if isinstance(l.iter, ast.Call) and len(l.iter.args) == 2 and const_value(l.iter.args[0]) == 1]
    if len(cand) != 2:
        out.append(unrecognised("R-SIB", fi, role, "expected two loops `for i in range(1, ...)` calling _pairwise_max, found %d" % len(cand)))
    else:
        a, b = cand
        ta, tb = unparse(a.iter.args[1]), unparse(b.iter.args[1])
        if ta == tb:
            out.append(holds("R-SIB", fi, role, "both loops run over range(1, %s)" % ta, b))
        else:
            st = ai.states_at(a)
            s0 = st[0].copy() if st else ai.init.copy()
            la = ai._bound_list(s0, a.iter.args[1], "min", a)
            lb = ai._bound_list(s0, b.iter.args[1], "min", b)
            same = sorted(repr(x) for x in la) == sorted(repr(x) for x in lb) and la
            if same:
                out.append(holds("R-SIB", fi, role, "bounds %s and %s are equal linear forms" % (ta, tb), b))
            else:
                out.append(violation("R-SIB", fi, role, "first pass runs over range(1, %s) but the rebuild over range(1, %s): a target length covered by the first and not "
                                     "by the second keeps the provisional (overhang-only) distribution -> p-values too small" % (ta, tb), b,
                                     witness={"nq": "t_max + 2", "effect": "B[t_max] is never rebuilt"}))
        # the rebuild resets the row before accumulating
        role2 = "the rebuild starts every row from the neutral element (-1 marker) before taking maxima"
        first = b.body[0] if b.body else None
        ok = first is not None and unparse(first) == "B[i] = -1"
        out.append((holds if ok else violation)("R-SIB", fi, role2, unparse(first) if first is not None else "?", first or b))
    role = "the survival function is 1 - cumulative sum over every row and score column"
    tail = [n for n in fi.node.body if isinstance(n, ast.For) and unparse(n.iter) == "range(B.shape[0])"]
    if not tail:
        out.append(unrecognised("CDF", fi, role, "final loop over B.shape[0] not found"))
    else:
        inner = [(unparse(l.iter), [unparse(s) for s in l.body]) for l in tail[0].body if isinstance(l, ast.For)]
        ok = inner == [("range(1, n)", ["B[i, j] += B[i, j - 1]"]), ("range(n)", ["B[i, j] = 1 - B[i, j]"])]
        if ok:
            out.append(holds("CDF", fi, role, str(inner), tail[0]))
        elif inner and inner[0][0] == "range(1, n)" and len(inner) == 1:
            out.append(violation("CDF", fi, role, "the complement step is missing: B holds the CDF, not 1 - CDF", tail[0]))
        else:
            out.append(unrecognised("CDF", fi, role, str(inner)))
    role = "span score distributions start from the per-column histogram and are extended column by column (convolution with shift for unaligned columns)"
    src = [unparse(s) for s in walk_no_nested(fi.node) if isinstance(s, (ast.Assign, ast.AugAssign))]
    need = ["A[i, j, l + c] = f[j, l]", "a = A[i, j - 1, k + c + offset]", "A[i, j, l + k + c] += a * f[j, l]"]
    ok = [x for x in src if x in need] == need
    out.append((holds if ok else unrecognised)("CDF", fi, role, "; ".join(need), fi.node, nontrivial=False))
    return out


LEVEL_TEXT = ("Only the clauses whose truth is in the shape of the code: guarded CDF lookup (no wrapped unsigned index), the strand-merge "
              "formula and field selection, the overlap/offset formulas (piecewise-linear equality for all alignments), the arg-max scan "
              "protocol, agreement of the two passes that build the null distribution, and the final survival-function step.")
LEVEL_NOTE = ("Decides the listed structural clauses. NOT decided - not applicable to this family: correctness of the null-distribution "
              "dynamic programme, of the integerised similarity, of the maximum-of-independent-variables recursion, monotonicity in "
              "Euclidean distance, self-match at offset 0; these are numerical identities against an independent reference.")
TECHNIQUE = "abstract interpretation (guard entailment, piecewise-linear equality by case analysis) + term normal form + sibling-loop agreement"
