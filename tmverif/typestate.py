"""Typestate rules: R-RELEASE (acquire ... release on all exits, including exceptional ones)."""
import ast
from .front import dotted, unparse, walk_no_nested

SAFE_CALLS = {"len", "range", "min", "max", "int", "isinstance", "float", "bool", "abs", "enumerate", "zip",
              "list", "tuple", "dict", "set", "str", "print", "id", "type"}
SAFE_LIST_METHODS = {"append", "extend", "clear", "copy"}


def local_lists(fn):
    """names bound (anywhere in fn) only to list/tuple/dict literals or slices of such: cheap containers"""
    cand, bad = set(), set()
    for n in walk_no_nested(fn):
        if isinstance(n, ast.Assign):
            tg = []
            for t in n.targets:
                tg += t.elts if isinstance(t, (ast.Tuple, ast.List)) else [t]
            vals = n.value.elts if isinstance(n.value, (ast.Tuple, ast.List)) and len(tg) > 1 and \
                len(n.value.elts) == len(tg) else [n.value] * len(tg)
            for t, v in zip(tg, vals):
                if isinstance(t, ast.Name):
                    if isinstance(v, (ast.List, ast.Dict)) or \
                            (isinstance(v, ast.Subscript) and isinstance(v.value, ast.Name) and v.value.id == t.id
                             and isinstance(v.slice, ast.Slice)):
                        cand.add(t.id)
                    else:
                        bad.add(t.id)
    return cand - bad


def cannot_raise_expr(e, lists, ints):
    """conservative: True only for pure bookkeeping on local ints / local lists"""
    if e is None:
        return True
    if isinstance(e, ast.Constant):
        return True
    if isinstance(e, ast.Name):
        return True
    if isinstance(e, (ast.List, ast.Tuple)):
        return all(cannot_raise_expr(x, lists, ints) for x in e.elts)
    if isinstance(e, ast.Dict):
        return all(cannot_raise_expr(x, lists, ints) for x in list(e.keys) + list(e.values) if x is not None)
    if isinstance(e, ast.UnaryOp):
        return cannot_raise_expr(e.operand, lists, ints)
    if isinstance(e, ast.BoolOp):
        return all(cannot_raise_expr(x, lists, ints) for x in e.values)
    if isinstance(e, ast.BinOp):
        return _intish(e.left, ints) and _intish(e.right, ints)
    if isinstance(e, ast.Compare):
        return all(_intish(x, ints) or isinstance(x, ast.Constant) for x in [e.left] + e.comparators)
    if isinstance(e, ast.Call):
        d = dotted(e.func)
        if d == "len" and len(e.args) == 1 and isinstance(e.args[0], ast.Name) and e.args[0].id in lists:
            return True
        if isinstance(e.func, ast.Attribute) and isinstance(e.func.value, ast.Name) and e.func.value.id in lists \
                and e.func.attr in SAFE_LIST_METHODS:
            return all(cannot_raise_expr(a, lists, ints) for a in e.args)
        return False
    if isinstance(e, ast.Subscript):
        # slicing a local list never raises
        if isinstance(e.value, ast.Name) and e.value.id in lists and isinstance(e.slice, ast.Slice):
            return all(cannot_raise_expr(x, lists, ints) for x in (e.slice.lower, e.slice.upper, e.slice.step))
        return False
    return False


def _intish(e, ints):
    if isinstance(e, ast.Constant):
        return isinstance(e.value, (int, float)) and not isinstance(e.value, bool) or isinstance(e.value, bool)
    if isinstance(e, ast.Name):
        return e.id in ints
    if isinstance(e, ast.BinOp):
        return _intish(e.left, ints) and _intish(e.right, ints)
    if isinstance(e, ast.UnaryOp):
        return _intish(e.operand, ints)
    if isinstance(e, ast.Call) and dotted(e.func) == "len":
        return True
    return False


def local_ints(fn, int_params=()):
    """names only ever bound to integer expressions of other local ints (loop counters, sizes)"""
    ints = set(int_params)
    changed = True
    binds = {}
    for n in walk_no_nested(fn):
        if isinstance(n, ast.Assign):
            tg = []
            for t in n.targets:
                tg += t.elts if isinstance(t, (ast.Tuple, ast.List)) else [t]
            vals = n.value.elts if isinstance(n.value, (ast.Tuple, ast.List)) and len(tg) > 1 and \
                len(n.value.elts) == len(tg) else [n.value] * len(tg)
            for t, v in zip(tg, vals):
                if isinstance(t, ast.Name):
                    binds.setdefault(t.id, []).append(v)
        elif isinstance(n, ast.AugAssign) and isinstance(n.target, ast.Name):
            binds.setdefault(n.target.id, []).append(n.value)
        elif isinstance(n, ast.For):
            it = n.iter
            if isinstance(it, ast.Call) and dotted(it.func) in ("range", "trange", "tqdm.trange") and isinstance(n.target, ast.Name):
                binds.setdefault(n.target.id, []).append(ast.Constant(value=0))
            else:
                for x in ast.walk(n.target):
                    if isinstance(x, ast.Name):
                        binds.setdefault(x.id, []).append(None)
    while changed:
        changed = False
        for name, vs in binds.items():
            if name in ints:
                continue
            if all(v is not None and _intish(v, ints) for v in vs):
                ints.add(name)
                changed = True
    return ints


class ReleaseRule:
    """walk a function; report may-raise statements and exits in the held region not covered by a releasing
    handler / finally."""

    def __init__(self, fi, is_acquire, is_release, int_params=()):
        self.fi = fi
        self.is_acquire = is_acquire      # call -> bool
        self.is_release = is_release      # call -> bool
        self.lists = local_lists(fi.node)
        self.ints = local_ints(fi.node, int_params)
        self.uncovered = []               # (node, why)
        self.bad_exits = []               # (node, why)
        self.acquires = []
        self.releases = []
        self.covered = 0
        self.held_at_end = self.walk(fi.node.body, False, False, False)
        if self.held_at_end:
            self.bad_exits.append((fi.node.body[-1], "function end reached with the resource still held"))

    # ---- classification helpers
    def contains(self, node, pred):
        return any(isinstance(n, ast.Call) and pred(n) for n in walk_no_nested(node))

    def stmt_may_raise(self, s):
        if isinstance(s, ast.Assign):
            tg_ok = all(isinstance(t, ast.Name) or (isinstance(t, (ast.Tuple, ast.List)) and
                        all(isinstance(x, ast.Name) for x in t.elts)) for t in s.targets)
            return not (tg_ok and cannot_raise_expr(s.value, self.lists, self.ints))
        if isinstance(s, ast.AugAssign):
            return not (isinstance(s.target, ast.Name) and s.target.id in self.ints and _intish(s.value, self.ints))
        if isinstance(s, ast.Expr):
            return not cannot_raise_expr(s.value, self.lists, self.ints)
        if isinstance(s, (ast.Pass, ast.Break, ast.Continue)):
            return False
        return True

    def why(self, s):
        calls = [unparse(n.func) for n in walk_no_nested(s) if isinstance(n, ast.Call)]
        if calls:
            return "calls " + ", ".join(calls[:3])
        if any(isinstance(n, ast.Subscript) for n in walk_no_nested(s)):
            return "subscript may raise"
        return "may raise"

    def try_protects(self, t):
        """(protects exceptions, protects normal exits)"""
        fin = bool(t.finalbody) and self.block_must_release(t.finalbody)
        if fin:
            return True, True
        catch_all = False
        for h in t.handlers:
            names = []
            if h.type is None:
                names = ["BaseException"]
            elif isinstance(h.type, ast.Tuple):
                names = [dotted(x) for x in h.type.elts]
            else:
                names = [dotted(h.type)]
            if any(n in ("Exception", "BaseException") for n in names):
                if self.block_must_release(h.body):
                    catch_all = True
                break   # first catch-all handler decides
            # narrower handler before the catch-all: it must release too (or re-raise into ... no) else unprotected
            if not self.block_must_release(h.body):
                return False, False
        return catch_all, False

    def block_must_release(self, stmts):
        """release is executed on every path through stmts before any statement that may raise / exit"""
        for s in stmts:
            if isinstance(s, ast.Expr) and self.contains(s, self.is_release):
                return True
            if isinstance(s, ast.Assign) and self.contains(s, self.is_release):
                return True
            if isinstance(s, ast.If):
                if self.block_must_release(s.body) and s.orelse and self.block_must_release(s.orelse):
                    return True
                if self.expr_may_raise(s.test):
                    return False
                # an `if` that cannot raise and does not exit may precede the release
                if self.block_exits(s.body) or self.block_exits(s.orelse):
                    return False
                if any(self.stmt_may_raise(x) for x in s.body + s.orelse):
                    return False
                continue
            if isinstance(s, ast.Try):
                p, _ = self.try_protects(s)
                if p or (s.finalbody and self.block_must_release(s.finalbody)):
                    return True
                return False
            if self.stmt_may_raise(s):
                return False
        return False

    def expr_may_raise(self, e):
        return not cannot_raise_expr(e, self.lists, self.ints)

    def block_exits(self, stmts):
        return any(isinstance(n, (ast.Return, ast.Raise)) for s in stmts for n in walk_no_nested(s))

    # ---- the walk
    def note(self, held, prot, node, why):
        if not held:
            return
        if prot:
            self.covered += 1
        else:
            self.uncovered.append((node, why))

    def walk(self, stmts, held, prot_exc, prot_exit):
        for s in stmts:
            held = self.stmt(s, held, prot_exc, prot_exit)
        return held

    def stmt(self, s, held, prot_exc, prot_exit):
        if isinstance(s, ast.Try):
            pe, px = self.try_protects(s)
            h_body = self.walk(s.body, held, prot_exc or pe, prot_exit or px)
            h_else = self.walk(s.orelse, h_body, prot_exc or (px and pe), prot_exit or px) if s.orelse else h_body
            # handlers run with the resource possibly held (exception could come from anywhere in the body)
            may_hold = held or h_body or self.contains(ast.Module(body=s.body, type_ignores=[]), self.is_acquire)
            outs = [h_else]
            for h in s.handlers:
                outs.append(self.walk(h.body, may_hold, prot_exc or px, prot_exit or px))
            res = any(outs)
            if s.finalbody:
                res = self.walk(s.finalbody, res or may_hold, prot_exc, prot_exit)
            return res
        if isinstance(s, (ast.Expr, ast.Assign, ast.AugAssign, ast.AnnAssign, ast.Delete, ast.Assert)):
            acq = self.contains(s, self.is_acquire)
            rel = self.contains(s, self.is_release)
            if acq:
                self.acquires.append(s)
                # the acquiring statement itself can fail half-way
                self.note(True, prot_exc, s, "acquire may fail after partially acquiring")
                return True
            if rel:
                self.releases.append(s)
                return False
            if held and self.stmt_may_raise(s):
                self.note(held, prot_exc, s, self.why(s))
            return held
        if isinstance(s, ast.Return):
            if held:
                if s.value is not None and self.expr_may_raise(s.value):
                    self.note(held, prot_exc, s, self.why(s))
                if not prot_exit:
                    self.bad_exits.append((s, "return with the resource still held"))
            return False
        if isinstance(s, ast.Raise):
            if held and not prot_exc:
                self.uncovered.append((s, "explicit raise with the resource held"))
            return False
        if isinstance(s, ast.If):
            if held and self.expr_may_raise(s.test):
                self.note(held, prot_exc, s, "condition `%s` may raise" % unparse(s.test)[:50])
            a = self.walk(s.body, held, prot_exc, prot_exit)
            b = self.walk(s.orelse, held, prot_exc, prot_exit)
            return a or b
        if isinstance(s, (ast.For, ast.While)):
            hdr = s.iter if isinstance(s, ast.For) else s.test
            if held and self.expr_may_raise(hdr):
                self.note(held, prot_exc, s, "loop header `%s` may raise" % unparse(hdr)[:50])
            h = self.walk(s.body, held, prot_exc, prot_exit)
            h = self.walk(s.body, held or h, prot_exc, prot_exit) if (h and not held) else h
            h2 = self.walk(s.orelse, held or h, prot_exc, prot_exit) if s.orelse else (held or h)
            return h2
        if isinstance(s, ast.With):
            if held:
                self.note(held, prot_exc, s, "with-entry may raise")
            return self.walk(s.body, held, prot_exc, prot_exit)
        return held
