"""R-SCRATCH: region-based definite-initialisation (def-before-use) analysis for numba kernels.

Every access to a tracked array is abstracted to
    (kind R/W, per-axis index: linear form | slice [lo, hi) | unknown, G = linear path constraints at the statement)
so the set of cells an access touches over all loop iterations is  { idx(v) | G(v) }  with v the loop variables.
Calls to other package kernels are inlined (their accesses are re-expressed in the caller's terms: scalar parameters
are substituted by the actual argument forms, sub-array arguments such as A[0, i-1] or gamma[:, i] contribute index
prefixes).  A read is *covered* when an earlier write W (earlier statement, earlier iteration of a common loop, or the
same iteration and lexically earlier) satisfies:  for all v_r with G_r there are v_w with G_w and idx_w(v_w) containing
idx_r(v_r).  The existential is solved by unifying the write's private loop variables with the read's indices and
projecting out the remaining ones (Fourier-Motzkin); the resulting obligations are discharged by entailment from G_r.
A write under a condition the analysis could not capture is never used as a cover.
"""
import ast
import itertools
from .affine import Lin, ge, le, lt, gt, entails, decide, cone
from .front import dotted, const_value, unparse, walk_no_nested, parent_map, AnalysisError
from .flow import AbsInt, INT_CASTS

ALLOC_FUNCS = {"numpy.empty", "numpy.zeros", "numpy.ones", "numpy.empty_like", "numpy.zeros_like", "np.empty", "np.zeros"}
UNINIT_ALLOC = {"numpy.empty", "numpy.empty_like", "np.empty"}


class Access:
    __slots__ = ("kind", "arr", "idx", "G", "cond_ok", "loops", "node", "text", "order", "site", "func")

    def __init__(self, kind, arr, idx, G, cond_ok, loops, node, text, func, site=""):
        self.kind, self.arr, self.idx, self.G, self.cond_ok = kind, arr, idx, G, cond_ok
        self.loops, self.node, self.text, self.func, self.site = loops, node, text, func, site
        self.order = 0

    def describe(self):
        return "%s %s%s in %s (line %s)" % ("read" if self.kind == "R" else "write", self.arr, fmt_idx(self.idx), self.func,
                                             getattr(self.node, "lineno", "?"))


def fmt_idx(idx):
    parts = []
    for a in idx:
        if a[0] == "lin":
            parts.append(repr(a[1]))
        elif a[0] == "slice":
            parts.append("%s:%s" % ("" if a[1] is None else repr(a[1]), "" if a[2] is None else repr(a[2])))
        else:
            parts.append("?")
    return "[" + ", ".join(parts) + "]"


class KernelSummary:
    """ordered accesses of one function on its array parameters and local arrays"""

    def __init__(self, repo, fi, cache, depth=0, assume=()):
        self.repo, self.fi = repo, fi
        self.acc = []
        self.allocs = {}      # local array -> (dims [Lin|None], uninit: bool, node)
        if depth > 6:
            raise AnalysisError("kernel call depth exceeded at %s" % fi.qual)
        self.cache = cache
        self.depth = depth
        scalars = set(fi.params)
        self.ai = AbsInt(fi, int_params=scalars, assume=assume)
        self.pm = parent_map(fi.node)
        self.arrays = set()
        self.axioms = []
        self._find_arrays()
        self._walk(fi.node.body, [], True)
        self.axioms += [g for g in self.ai.axioms]

    # ---- which names are arrays: parameters that are subscripted / passed on as arrays, and local allocations
    def _find_arrays(self):
        fi = self.fi
        for n in walk_no_nested(fi.node):
            if isinstance(n, ast.Subscript) and isinstance(n.value, ast.Name) and n.value.id in fi.params:
                self.arrays.add(n.value.id)
            if isinstance(n, ast.Assign) and len(n.targets) == 1 and isinstance(n.targets[0], ast.Name) \
                    and isinstance(n.value, ast.Call) and dotted(n.value.func) in ALLOC_FUNCS:
                self.arrays.add(n.targets[0].id)
        # parameters passed to a callee position that the callee treats as an array
        changed = True
        while changed:
            changed = False
            for n in walk_no_nested(fi.node):
                if isinstance(n, ast.Call):
                    callee = self.repo.resolve_call(fi, n)
                    if callee is None or callee.numba is None:
                        continue
                    cs = summary(self.repo, callee, self.cache, self.depth + 1)
                    for p, a in zip(callee.params, n.args):
                        if p in cs.arrays:
                            base = a
                            while isinstance(base, ast.Subscript):
                                base = base.value
                            if isinstance(base, ast.Name) and base.id in fi.params and base.id not in self.arrays:
                                self.arrays.add(base.id)
                                changed = True

    # ---- helpers
    def _state(self, stmt):
        """representative state (first feasible one); all feasible states are kept in self._sts for _emit"""
        sts = self.ai.states_at(stmt)
        if not sts:
            return None
        if len(sts) > 1:
            from .affine import _infeasible
            feas = [x for x in sts if not _infeasible(_structural(x.G))]
            sts = feas or sts
        self._sts = [x.copy() for x in sts]
        return sts[0].copy()

    def _cond_captured(self, test, st):
        if self._value_dependent(test, st):
            return False
        t, f = self.ai.cond(st, test)
        return t != [[]] or f != [[]]

    def _idx(self, st, sub):
        """index descriptors of a Subscript whose base is a tracked array name"""
        sl = sub.slice
        elts = sl.elts if isinstance(sl, ast.Tuple) else [sl]
        out = []
        for e in elts:
            if isinstance(e, ast.Slice):
                if e.step is not None:
                    out.append(("unk",))
                    continue
                lo = self.ai.lin(st, e.lower) if e.lower is not None else None
                hi = self.ai.lin(st, e.upper) if e.upper is not None else None
                if (e.lower is not None and lo is None) or (e.upper is not None and hi is None):
                    out.append(("unk",))
                else:
                    out.append(("slice", lo, hi))
            else:
                if self._value_dependent(e, st):
                    out.append(("unk",))
                    continue
                l = self.ai.lin(st, e) if self.ai.intlike(st, e) or isinstance(e, ast.Name) else None
                out.append(("lin", l) if l is not None else ("unk",))
        return out

    def _value_dependent(self, e, st):
        """index computed from array contents / floats (not a function of loop variables and scalars)"""
        for n in ast.walk(e):
            if isinstance(n, ast.Subscript) and not (isinstance(n.value, ast.Attribute) and n.value.attr == "shape"):
                return True
            if isinstance(n, ast.Name) and n.id in self.tainted:
                return True
        return False

    # ---- walk
    tainted = frozenset()

    def _walk(self, stmts, loops, cond_ok):
        taint = set(self.tainted)
        for s in stmts:
            self.tainted = frozenset(taint)
            self._stmt(s, loops, cond_ok)
            # taint tracking: scalars assigned from array reads / float math are value-dependent
            if isinstance(s, ast.Assign):
                names = [n.id for t in s.targets for n in ast.walk(t) if isinstance(n, ast.Name) and isinstance(n.ctx, ast.Store)]
                dep = any((isinstance(n, ast.Subscript) and not (isinstance(n.value, ast.Attribute) and n.value.attr == "shape"))
                          or (isinstance(n, ast.Name) and n.id in taint)
                          or (isinstance(n, ast.Call) and (dotted(n.func) or "").startswith("math.")) for n in ast.walk(s.value))
                # tuple assignment: per element
                if len(s.targets) == 1 and isinstance(s.targets[0], ast.Tuple) and isinstance(s.value, ast.Tuple) \
                        and len(s.targets[0].elts) == len(s.value.elts):
                    for t, v in zip(s.targets[0].elts, s.value.elts):
                        d = any((isinstance(n, ast.Subscript) and not (isinstance(n.value, ast.Attribute) and n.value.attr == "shape"))
                                or (isinstance(n, ast.Name) and n.id in taint)
                                or (isinstance(n, ast.Call) and (dotted(n.func) or "").startswith("math.")) for n in ast.walk(v))
                        if isinstance(t, ast.Name):
                            (taint.add if d else taint.discard)(t.id)
                else:
                    for nm in names:
                        (taint.add if dep else taint.discard)(nm)
            elif isinstance(s, ast.AugAssign) and isinstance(s.target, ast.Name):
                dep = any(isinstance(n, ast.Subscript) or (isinstance(n, ast.Name) and n.id in taint) for n in ast.walk(s.value))
                if dep:
                    taint.add(s.target.id)
        self.tainted = frozenset(taint)

    _sts = None

    def _relevant(self, G, idx, loops, node):
        """constraints in the cone of influence of the index atoms, the enclosing loop variables and the atoms of
        enclosing `if` tests (unrelated branch outcomes only multiply identical accesses)"""
        seed = set()
        for a in idx:
            for l in a[1:]:
                if l is not None:
                    seed |= l.atoms()
        for _, v in loops:
            if v:
                seed.add(v)
        n = node
        st0 = (self._sts or [None])[0]
        while n in self.pm:
            n = self.pm[n]
            if isinstance(n, (ast.If, ast.While)):
                for x in ast.walk(n.test):
                    if isinstance(x, ast.Name) and st0 is not None:
                        l = st0.env.get(x.id)
                        seed |= (l.atoms() if l is not None else {st0.sver.get(x.id, x.id)})
        rel = set(seed)
        changed = True
        G = list(G)
        while changed:
            changed = False
            for g in G:
                a = g.atoms()
                if a & rel and not a <= rel:
                    rel |= a
                    changed = True
        # constraints over loop-invariant quantities only (flags, sizes) are kept as well: they carry the
        # conditions under which an alternative of an environment value (x if flag else y) was chosen
        return [g for g in G if g.atoms() & rel]

    def _emit(self, kind, arr, idx, st, cond_ok, loops, node):
        """one access per distinct (index, relevant constraints) among the feasible states reaching the statement
        (a write is only executed under its own state's constraints, so states are never merged)"""
        seen = set()
        sts = self._sts or [st]
        for x in sts:
            ix = self._idx(x, node) if isinstance(node, ast.Subscript) else idx
            G = self._relevant(_structural(x.G), ix, loops, node)
            key = (fmt_idx(ix), tuple(sorted(g.key() for g in G)))
            if key in seen:
                continue
            seen.add(key)
            self.acc.append(Access(kind, arr, ix, G, cond_ok, list(loops), node, unparse(node)[:70], self.fi.qual))

    def _reads_in(self, e, st, loops, cond_ok, stmt):
        """emit read accesses for an expression (also expands kernel calls)"""
        if e is None:
            return
        for n in self._ordered_nodes(e):
            if isinstance(n, ast.Call):
                callee = self.repo.resolve_call(self.fi, n)
                if callee is not None and callee.numba is not None:
                    self._inline(n, callee, st, loops, cond_ok, stmt)
            if isinstance(n, ast.Subscript) and isinstance(n.ctx, ast.Load) and isinstance(n.value, ast.Name) and n.value.id in self.arrays:
                if self._is_call_arg(n):
                    continue      # handled by the callee's summary
                self._emit("R", n.value.id, self._idx(st, n), st, cond_ok, loops, n)
            if isinstance(n, ast.Name) and isinstance(n.ctx, ast.Load) and n.id in self.arrays:
                p = self.pm.get(n)
                if isinstance(p, ast.Subscript) and p.value is n:
                    continue
                if isinstance(p, ast.Attribute) and p.attr in ("shape", "dtype", "ndim", "size"):
                    continue
                if isinstance(p, ast.Call) and dotted(p.func) in ("len",):
                    continue
                if self._is_call_arg(n):
                    continue
                # whole-array read (e.g. numpy.sum(x), enumerate(x), numpy.argsort(x))
                self._emit("R", n.id, [], st, cond_ok, loops, n)

    def _is_call_arg(self, n):
        p = self.pm.get(n)
        if isinstance(p, ast.Call) and n in p.args:
            callee = self.repo.resolve_call(self.fi, p)
            return callee is not None and callee.numba is not None
        return False

    def _ordered_nodes(self, e):
        return sorted((n for n in ast.walk(e) if hasattr(n, "lineno")), key=lambda n: (n.lineno, n.col_offset))

    def _stmt(self, s, loops, cond_ok):
        st = self._state(s)
        if st is None:
            return      # unreachable
        if isinstance(s, ast.Assign):
            v = s.value
            # allocation
            if len(s.targets) == 1 and isinstance(s.targets[0], ast.Name) and isinstance(v, ast.Call) and dotted(v.func) in ALLOC_FUNCS:
                dims = []
                if v.args:
                    sh = v.args[0]
                    for d in (sh.elts if isinstance(sh, ast.Tuple) else [sh]):
                        dims.append(self.ai.lin(st, d))
                self.allocs[s.targets[0].id] = (dims, dotted(v.func) in UNINIT_ALLOC, s)
                return
            self._reads_in(v, st, loops, cond_ok, s)
            for t in s.targets:
                self._store(t, st, loops, cond_ok, s)
            return
        if isinstance(s, ast.AugAssign):
            self._reads_in(s.value, st, loops, cond_ok, s)
            t = s.target
            if isinstance(t, ast.Subscript) and isinstance(t.value, ast.Name) and t.value.id in self.arrays:
                idx = self._idx(st, t)
                self._reads_in_index(t, st, loops, cond_ok, s)
                self._emit("R", t.value.id, idx, st, cond_ok, loops, t)
                self._emit("W", t.value.id, idx, st, cond_ok, loops, t)
            return
        if isinstance(s, (ast.Expr, ast.Return)):
            self._reads_in(s.value, st, loops, cond_ok, s)
            return
        if isinstance(s, ast.If):
            self._reads_in(s.test, st, loops, cond_ok, s)
            cap = self._cond_captured(s.test, st)
            n0 = len(self.acc)
            self._walk(s.body, loops, cond_ok and cap)
            n1 = len(self.acc)
            self._walk(s.orelse, loops, cond_ok and cap)
            n2 = len(self.acc)
            if not cap and s.orelse and cond_ok:
                # both arms write: a write of one arm contained in a write of the other arm happens on every path
                A = [a for a in self.acc[n0:n1] if a.kind == "W"]
                B = [a for a in self.acc[n1:n2] if a.kind == "W"]
                extra = []
                for wa in A:
                    for wb in B:
                        if wa.arr != wb.arr:
                            continue
                        if covers(wa, wb, {}, same_iter=True, ignore_cond=True)[0]:
                            extra.append(wb)
                        elif covers(wb, wa, {}, same_iter=True, ignore_cond=True)[0]:
                            extra.append(wa)
                for w in extra:
                    m = Access("W", w.arr, w.idx, w.G, True, w.loops, w.node, w.text + "  [both arms]", w.func)
                    self.acc.append(m)
            return
        if isinstance(s, ast.For):
            self._reads_in(s.iter, st, loops, cond_ok, s)
            # an early exit under an uncaptured condition makes later writes of the body conditional
            self._walk_loop_body(s, loops, cond_ok)
            return
        if isinstance(s, ast.While):
            self._walk_loop_body(s, loops, cond_ok)
            return
        if isinstance(s, (ast.Continue, ast.Break, ast.Pass)):
            return
        # anything else: scan for reads
        for c in ast.iter_child_nodes(s):
            if isinstance(c, ast.expr):
                self._reads_in(c, st, loops, cond_ok, s)

    def _walk_loop_body(self, loop, loops, cond_ok):
        if isinstance(loop, ast.For):
            it = loop.iter
            t = set(self.tainted)
            if isinstance(it, ast.Call) and dotted(it.func) == "enumerate" and isinstance(loop.target, ast.Tuple) and len(loop.target.elts) == 2:
                for n in ast.walk(loop.target.elts[1]):
                    if isinstance(n, ast.Name):
                        t.add(n.id)
            elif not (isinstance(it, ast.Call) and dotted(it.func) in ("range", "prange", "numba.prange")):
                for n in ast.walk(loop.target):
                    if isinstance(n, ast.Name):
                        t.add(n.id)
            self.tainted = frozenset(t)
        lv = None
        if isinstance(loop, ast.For) and isinstance(loop.target, ast.Name):
            lv = "%s~%d" % (loop.target.id, loop.lineno)
        elif isinstance(loop, ast.For) and isinstance(loop.target, ast.Tuple) and isinstance(loop.iter, ast.Call) \
                and dotted(loop.iter.func) == "enumerate" and isinstance(loop.target.elts[0], ast.Name):
            lv = "%s~%d" % (loop.target.elts[0].id, loop.lineno)
        inner = loops + [(loop, lv)]
        ok = cond_ok and id(loop) not in self.ai.imprecise_loops
        taint_before = self.tainted
        for k, s in enumerate(loop.body):
            st = self._state(s)
            self._walk([s], inner, ok)
            if isinstance(s, ast.If) and st is not None and not self._cond_captured(s.test, st) and \
                    any(isinstance(n, (ast.Continue, ast.Break, ast.Return)) for n in ast.walk(s)):
                ok = False   # the rest of the body runs only on some iterations
        self.tainted = taint_before | self.tainted

    def _reads_in_index(self, sub, st, loops, cond_ok, stmt):
        sl = sub.slice
        for e in (sl.elts if isinstance(sl, ast.Tuple) else [sl]):
            if not isinstance(e, ast.Slice):
                self._reads_in(e, st, loops, cond_ok, stmt)

    def _store(self, t, st, loops, cond_ok, stmt):
        if isinstance(t, ast.Subscript) and isinstance(t.value, ast.Name) and t.value.id in self.arrays:
            self._reads_in_index(t, st, loops, cond_ok, stmt)
            self._emit("W", t.value.id, self._idx(st, t), st, cond_ok, loops, t)
        elif isinstance(t, (ast.Tuple, ast.List)):
            for x in t.elts:
                self._store(x, st, loops, cond_ok, stmt)

    # ---- inlining of a kernel call
    def _inline(self, call, callee, st0, loops, cond_ok, stmt):
        seen = set()
        for st in (self._sts or [st0]):
            forms = []
            for a in call.args:
                l = self.ai.lin_alts(st, a) if not isinstance(a, ast.Starred) else None
                forms.append(repr(l[0][0]) if l and len(l) == 1 else unparse(a))
            seedidx = [("lin", l[0][0]) for a in call.args for l in [self.ai.lin_alts(st, a)] if l and len(l) == 1]
            G = self._relevant(_structural(st.G), seedidx, loops, call)
            key = (tuple(forms), tuple(sorted(g.key() for g in G)))
            if key in seen:
                continue
            seen.add(key)
            st2 = st.copy()
            st2.G = G
            self._inline1(call, callee, st2, loops, cond_ok, stmt)

    def _inline1(self, call, callee, st, loops, cond_ok, stmt):
        cs = summary(self.repo, callee, self.cache, self.depth + 1)
        tag = "c%d:" % call.lineno + ("%d:" % call.col_offset)
        # scalar parameter substitution
        sub = {}
        arrmap = {}     # callee array param -> (caller array, prefix idx)
        self._plain = {}
        for p, a in zip(callee.params, call.args):
            if isinstance(a, ast.Name):
                self._plain[p] = a.id
        for p, a in zip(callee.params, call.args):
            if p in cs.arrays:
                base = a
                chain_subs = []
                while isinstance(base, ast.Subscript):
                    chain_subs.append(base)
                    base = base.value
                if isinstance(base, ast.Name) and base.id in self.arrays:
                    prefix = []
                    for sb in reversed(chain_subs):
                        prefix += self._idx(st, sb)
                    arrmap[p] = (base.id, prefix)
                else:
                    arrmap[p] = None     # untracked array (inputs)
            else:
                l = self.ai.lin(st, a) if (self.ai.intlike(st, a) or isinstance(a, (ast.Name, ast.Constant, ast.UnaryOp, ast.Subscript))) else None
                if l is not None:
                    sub[p] = l        # a loop-invariant scalar (possibly read from an array once): one atom for all call sites
                else:
                    sub[p] = Lin.atom(tag + p + "?")

        def ren(l):
            if l is None:
                return None
            m = {}
            for a in l.atoms():
                if a in sub:
                    m[a] = sub[a]
                else:
                    m[a] = Lin.atom(self._rename_atom(a, tag, callee, arrmap, st))
            return l.subst(m)

        for ca in cs.acc:
            tgt = arrmap.get(ca.arr, "local")
            if tgt is None:
                continue
            if tgt == "local":
                arr, prefix = tag + ca.arr, []
                if ca.arr not in cs.allocs:
                    continue
            else:
                arr, prefix = tgt
            idx = self._merge_prefix(prefix, [self._ren_axis(a, ren) for a in ca.idx])
            G = list(st.G) + [ren(g) for g in ca.G]
            a = Access(ca.kind, arr, idx, G, cond_ok and ca.cond_ok, list(loops) + [(l, tag + v if v else None) for l, v in ca.loops],
                       ca.node, ca.text, ca.func, site=tag + ca.site)
            self.acc.append(a)
        for name, (dims, uninit, node) in cs.allocs.items():
            self.allocs[tag + name] = ([ren(d) for d in dims], uninit, node)
        for g in cs.axioms:
            rg = ren(g)
            if rg not in self.axioms:
                self.axioms.append(rg)

    def _rename_atom(self, a, tag, callee, arrmap, st):
        # shape atoms of callee array params map to the caller's array (with prefix axes removed): keep symbolic but caller-named
        for p, tgt in arrmap.items():
            if tgt and (a.startswith(p + ".shape[") or a == "len(%s)" % p):
                arr, prefix = tgt
                n_fixed = sum(1 for x in prefix if x[0] == "lin")
                if a.startswith("len("):
                    k = 0
                else:
                    k = int(a[a.index("[") + 1:a.index("]")])
                if k >= 0:
                    # k-th axis of the sub-array = (k-th non-fixed axis of the prefix) of the caller's array
                    free = [i for i, x in enumerate(prefix) if x[0] != "lin"]
                    if k < len(free):
                        ax = free[k]
                    else:
                        ax = len(prefix) + (k - len(free))
                    return "%s.shape[%d]" % (arr, ax)
                return "%s.shape[%d]" % (arr, k)
        import re
        for p, name in getattr(self, "_plain", {}).items():
            if re.fullmatch(r"(len|max|min)\(%s\)|%s\.shape\[-?\d+\]" % (re.escape(p), re.escape(p)), a):
                return re.sub(r"\b%s\b" % re.escape(p), name, a)
        return tag + a

    def _ren_axis(self, a, ren):
        if a[0] == "lin":
            return ("lin", ren(a[1]))
        if a[0] == "slice":
            return ("slice", ren(a[1]), ren(a[2]))
        return a

    def _merge_prefix(self, prefix, idx):
        """prefix like [lin 0, lin i-1] or [slice, lin i]; the callee's axes fill the slice positions first, then follow"""
        out = []
        it = iter(idx)
        for p in prefix:
            if p[0] == "lin" or p[0] == "unk":
                out.append(p)
            else:
                nxt = next(it, None)
                if nxt is None:
                    out.append(p)
                elif p[1] is None and p[2] is None:
                    out.append(nxt)
                else:
                    out.append(("unk",))     # offset slices of sub-arrays: not needed in this repository
        out.extend(it)
        return out


def _content_atom(a):
    """atom that denotes the *content* of an array cell (x[0], Q_lens[i~336]) rather than a shape"""
    import re
    t = re.sub(r"\.shape\[-?\d+\]", "", a)
    return "[" in t


def _structural(G):
    """drop constraints over array contents (value-dependent tests): they are never usable as facts here;
    accesses guarded by such tests carry cond_ok = False instead"""
    out = []
    for g in G:
        if any(_content_atom(a) for a in g.atoms()):
            continue
        out.append(g)
    return out


def summary(repo, fi, cache, depth=0):
    if fi.qual not in cache:
        cache[fi.qual] = KernelSummary(repo, fi, cache, depth)
    return cache[fi.qual]


# ---------------------------------------------------------------------------------------- coverage
def _private_atoms(W, R):
    """loop-variable atoms of W that are not loop variables shared with R (existentially quantified)"""
    rl = {v for _, v in R.loops if v}
    return [v for _, v in W.loops if v and v not in rl]


def _shared_loops(W, R):
    out = []
    for (lw, vw), (lr, vr) in zip(W.loops, R.loops):
        if lw is lr and vw == vr:
            out.append(vw)
        else:
            break
    return out


def project(G, atoms):
    """Fourier-Motzkin elimination of `atoms` from the constraint list G (rational projection)"""
    rows = list(G)
    for a in atoms:
        pos = [r for r in rows if r.t.get(a, 0) > 0]
        neg = [r for r in rows if r.t.get(a, 0) < 0]
        rest = [r for r in rows if r.t.get(a, 0) == 0]
        new = list(rest)
        for p in pos:
            for n in neg:
                ka, kb = -n.t[a], p.t[a]
                new.append(p.scale(ka) + n.scale(kb))
        rows = new
        if len(rows) > 3000:
            raise AnalysisError("projection blow-up")
    return [r for r in rows if not (r.is_const() and r.c >= 0)]


def covers(W, R, extents, same_iter=False, earlier_iter_depth=None, facts=(), ignore_cond=False):
    """does the write W (assumed to execute before the read R) define every cell R reads?
    -> (True, None) | (False, reason, kind) with kind REFUTED/UNKNOWN"""
    if not W.cond_ok and not ignore_cond:
        # a write that only happens under a value-dependent test can never guarantee coverage
        return (False, "write is conditional on a value-dependent test", "REFUTED")
    shared = _shared_loops(W, R)
    rename = {}
    # existential copies of W's loop atoms: private ones always; shared ones from depth `earlier_iter_depth` on
    wl = [v for _, v in W.loops if v]
    exist = []
    for k, v in enumerate(wl):
        if v in shared and (earlier_iter_depth is None or shared.index(v) < earlier_iter_depth):
            continue
        rename[v] = v + "'"
        exist.append(v + "'")
    m = {a: Lin.atom(b) for a, b in rename.items()}
    Gw = [g.subst(m) for g in W.G]
    widx = [_sub_axis(a, m) for a in W.idx]
    Gr = list(R.G) + list(facts)
    obligations = []
    # ordering constraint for loop-carried coverage
    if earlier_iter_depth is not None:
        v = shared[earlier_iter_depth]
        obligations.append(("earlier iteration", lt(Lin.atom(v + "'"), Lin.atom(v))))
    sub = {}
    nax = max(len(widx), len(R.idx))
    ext = extents.get(R.arr) or extents.get(W.arr) or []
    for k in range(nax):
        w = widx[k] if k < len(widx) else ("slice", None, None)
        r = R.idx[k] if k < len(R.idx) else ("slice", None, None)
        E = ext[k] if k < len(ext) else None
        if r[0] == "unk":
            # value-dependent read index: only a write of the whole axis covers it
            if w[0] == "slice" and w[1] is None and w[2] is None:
                continue
            if E is None:
                return (False, "read index on axis %d is value-dependent and the extent of the axis is unknown" % k, "UNKNOWN")
            r = ("slice", Lin(0), E)       # any cell of the axis may be read
        if w[0] == "unk":
            # a write at a value-dependent position can never guarantee coverage
            return (False, "write index on axis %d is value-dependent" % k, "REFUTED")
        if w[0] == "slice" and w[1] is None and w[2] is None:
            continue      # the whole axis is written
        if w[0] == "slice":
            wlo = w[1] if w[1] is not None else Lin(0)
            whi = w[2]
            if r[0] == "lin":
                rlo, rhi = r[1], r[1] + 1
            else:
                rlo = r[1] if r[1] is not None else Lin(0)
                rhi = r[2]
            obligations.append(("axis %d: read start >= write start" % k, rlo - wlo))
            if whi is not None:
                if rhi is None:
                    if E is None:
                        return (False, "read runs to the end of axis %d whose extent is unknown" % k, "UNKNOWN")
                    rhi = E
                obligations.append(("axis %d: read end <= write end" % k, whi - rhi))
        else:
            e_w = w[1]
            priv = [a for a in e_w.atoms() if a in exist and a not in sub]
            if r[0] == "lin":
                e_r = r[1]
                if len(priv) >= 1 and abs(e_w.t[priv[0]]) == 1:
                    v = priv[0]
                    c = e_w.t[v]
                    rest = e_w - Lin(0, {v: c})
                    sub[v] = (e_r - rest).scale(c)          # c = +-1
                    rest_priv = priv[1:]
                    if rest_priv:
                        return (False, "axis %d index mixes several private loop variables" % k, "UNKNOWN")
                else:
                    obligations.append(("axis %d: same cell" % k, e_w - e_r))
                    obligations.append(("axis %d: same cell'" % k, e_r - e_w))
            else:
                # the read spans a range on this axis; the write touches one cell per iteration of a private loop variable
                if len(priv) != 1 or abs(e_w.t[priv[0]]) != 1:
                    return (False, "a range is read on axis %d but the write addresses a single cell" % k, "REFUTED" if not priv else "UNKNOWN")
                v = priv[0]
                c = e_w.t[v]
                rest = e_w - Lin(0, {v: c})
                rlo = r[1] if r[1] is not None else Lin(0)
                rhi = r[2]
                if rhi is None:
                    if E is None:
                        return (False, "read runs to the end of axis %d whose extent is unknown" % k, "UNKNOWN")
                    rhi = E
                # introduce a universally quantified cell u in [rlo, rhi)
                u = Lin.atom("u%d?" % k)
                Gr = Gr + [ge(u, rlo), lt(u, rhi)]
                sub[v] = (u - rest).scale(c)
    # substitute and project
    Gw2 = [g.subst(sub) for g in Gw]
    obligations = [(lab, o.subst(sub)) for lab, o in obligations]
    left = [a for a in exist if a not in sub]
    if left:
        try:
            keep = [g for g in Gw2 if not (g.atoms() & set(left))]
            proj = project([g for g in Gw2 if g.atoms() & set(left)], left)
        except AnalysisError:
            return (False, "projection too large", "UNKNOWN")
        Gw2 = keep + proj
        if any(o.atoms() & set(left) for _, o in obligations):
            return (False, "ordering obligation depends on an unresolved loop variable", "UNKNOWN")
    known = {g.key() for g in Gr}
    for g in Gw2:
        if g.is_const():
            if g.c < 0:
                return (False, "write's path condition is infeasible", "UNKNOWN")
            continue
        if g.key() in known:
            continue
        obligations.append(("write executes / addresses this cell: %r >= 0" % g, g))
    unproved = []
    for lab, o in obligations:
        v, model = decide(Gr, o)
        if v == "PROVED":
            continue
        unproved.append((lab, o, v, model))
    if not unproved:
        return (True, None)
    refuted = [u for u in unproved if u[2] == "REFUTED"]
    lab, o, v, model = (refuted or unproved)[0]
    if refuted:
        reason = "%s fails, e.g. %s" % (lab, {k: x for k, x in sorted(model.items()) if not k.endswith("?")} or model)
    else:
        reason = "%s not proved" % lab
    return (False, reason, "REFUTED" if len(refuted) == len(unproved) else "UNKNOWN", unproved)


def _sub_axis(a, m):
    if a[0] == "lin":
        return ("lin", a[1].subst(m))
    if a[0] == "slice":
        return ("slice", a[1].subst(m) if a[1] is not None else None, a[2].subst(m) if a[2] is not None else None)
    return a


def merge_adjacent(ws):
    """two writes in the same loop nest whose regions are adjacent on the last axis ([0,X) by an innermost private loop and [X, end)
    by a slice) are fused into a full-axis write"""
    out = list(ws)
    for a in ws:
        for b in ws:
            if a is b or a.arr != b.arr or len(a.idx) != len(b.idx) or not a.idx:
                continue
            if a.idx[:-1] != b.idx[:-1]:
                continue
            la, lb = a.idx[-1], b.idx[-1]
            # a: slice [X, None) ; b: lin v with v in [0, X) innermost private loop of b
            if la[0] == "slice" and la[2] is None and la[1] is not None and lb[0] == "lin" and len(lb[1].t) == 1 and lb[1].c == 0:
                v = next(iter(lb[1].t))
                if lb[1].t[v] != 1 or not b.loops or b.loops[-1][1] != v:
                    continue
                if [x for x in a.loops] != [x for x in b.loops[:-1]]:
                    continue
                X = la[1]
                # b's loop range is [0, X): constraints v >= 0 and X - v - 1 >= 0 present
                has_lo = any(g.key() == ge(Lin.atom(v), 0).key() for g in b.G)
                has_hi = any(g.key() == lt(Lin.atom(v), X).key() for g in b.G)
                if has_lo and has_hi and a.cond_ok and b.cond_ok:
                    m = Access("W", a.arr, a.idx[:-1] + [("slice", None, None)], a.G, True, a.loops, b.node,
                               "%s  +  %s" % (a.text, b.text), a.func, a.site)
                    m.order = max(a.order, b.order)
                    out.append(m)
    return out


def _try_cover(ws_all, r, extents, facts, extra, depth, forbid=None):
    """-> (covered: bool, reasons, kinds)"""
    reasons, kinds = [], []
    best_split = None
    for w in ws_all:
        if w is r:
            continue
        attempts = []
        shared = _shared_loops(w, r)
        if w.order < r.order:
            attempts.append(None)
        attempts += [d for d in range(len(shared)) if shared[d] is not None and not (forbid is not None and shared[d] == forbid)]
        for d in attempts:
            res = covers(w, r, extents, earlier_iter_depth=d, facts=list(facts) + list(extra))
            if res[0]:
                return True, [], []
            if d is None:
                reasons.append("%s: %s" % (w.text, res[1]))
                kinds.append(res[2])
            if len(res) > 3 and len(res[3]) == 1 and depth < 4:
                lab, o, v, model = res[3][0]
                if best_split is None:
                    best_split = (w, o)
    if best_split is not None:
        w, o = best_split
        # covered where o >= 0 holds (by w); continue with the remaining cells  o <= -1
        rest = list(extra) + [(-o) - 1]
        from .affine import _infeasible
        if _infeasible(list(r.G) + list(facts) + rest):
            return True, [], []
        ok, rs, ks = _try_cover([x for x in ws_all if x is not w], r, extents, facts, rest, depth + 1, forbid)
        if ok:
            return True, [], []
        return False, reasons + ["after excluding cells written by `%s`: %s" % (w.text, "; ".join(rs[:2]))], kinds + ks
    return False, reasons, kinds


def _expand_small_axes(seq, ext):
    """a read that spans a whole axis of small constant extent is split into one read per index
    (so that per-column writes can cover it jointly)"""
    out = []
    for a in seq:
        if a.kind != "R":
            out.append(a)
            continue
        alts = [a.idx]
        for k, E in enumerate(ext):
            if E is None or not E.is_const() or not (1 <= E.c <= 8):
                continue
            nxt = []
            for ix in alts:
                ax = ix[k] if k < len(ix) else ("slice", None, None)
                if ax[0] == "slice" and ax[1] is None and ax[2] is None:
                    for c in range(E.c):
                        full = list(ix) + [("slice", None, None)] * (k + 1 - len(ix))
                        full[k] = ("lin", Lin(c))
                        nxt.append(full)
                else:
                    nxt.append(ix)
            alts = nxt
        if len(alts) == 1:
            out.append(a)
        else:
            for ix in alts:
                out.append(Access("R", a.arr, ix, a.G, a.cond_ok, a.loops, a.node, a.text, a.func, a.site))
    return out


def check_array(accs, arr, extents, facts=(), forbid=None):
    """-> (problems [(read access, status, reasons)], number of reads, number of writes)"""
    seq = _expand_small_axes([a for a in accs if a.arr == arr], extents.get(arr) or [])
    for k, a in enumerate(seq):
        a.order = k
    ws_all = merge_adjacent([a for a in seq if a.kind == "W"])
    problems = []
    n_reads = 0
    for r in seq:
        if r.kind != "R":
            continue
        n_reads += 1
        ok, reasons, kinds = _try_cover(ws_all, r, extents, facts, [], 0, forbid)
        if not ok:
            status = "REFUTED" if (not kinds or all(k == "REFUTED" for k in kinds)) else "UNKNOWN"
            problems.append((r, status, reasons[:4]))
    return problems, n_reads, len(ws_all)
