"""False-alarm sweep (development aid + thorough-tier evidence): generate BEHAVIOUR-PRESERVING first-order rewrites of the functions
a property is anchored in and run the property's check on each (scratch copy, nothing is executed).  Expected verdict: exit 0.
  SILENT      exit 0: the check tolerates the rewrite                               (wanted)
  ERROR       exit 2: shape not recognised - no verdict, a human re-confirms         (tolerated, but each one is a frozen form)
  VIOLATION   exit 1: FALSE ALARM - the check must be corrected                       (never acceptable)
Rewrites (each preserves the value of every expression and the order of all side effects):
  cmp-flip      a < b           ->  b > a              (operands are pure: names, constants, attributes, subscripts, len()/shape)
  arm-swap      if c: A else: B ->  if not c: B else: A   (c a single comparison: the operator is negated instead)
  rename        one local variable renamed consistently (not a parameter, not global/nonlocal, not captured by a nested scope)
  hoist-return  return E        ->  _ret = E; return _ret
  hoist-store   X[i] = E        ->  _val = E; X[i] = _val     (python evaluates the right-hand side first)
  range0        range(a)        ->  range(0, a)
  idx-commute   a + b           ->  b + a              (only inside subscripts / slices / range(): integer arithmetic on pure operands)
  nop           a no-op statement `_unused = None` inserted after the docstring
  swap-adjacent two adjacent pure assignments to different names that do not read each other are exchanged
  drop-else-after-exit   if c: ...; return/raise/continue/break  else: B   ->   if c: ...exit ; B
  split-or-guard         if a or b: exit        ->   if a: exit ; if b: exit
  ifexp-to-if            t = A if c else B      ->   if c: t = A else: t = B
  reword-error           the text of an error message is changed (type unchanged)
  exchange / aliasparam / deadbranch / wraptrue / pluszero / demorgan / shapesize / shapeidx / lenshape / kwpos / dimaxis / unpackshape / enumloop / torchdual / ndim : adversarial-style rewrites (names of two locals exchanged
                         consistently, a parameter read through an alias, `if False: raise`, body wrapped in `if True:`, `e + 0` in an
                         index, De Morgan on a two-operand test, `p.shape[k]` of a torch parameter
                         read as `p.size(k)`, `p.shape[-1]` of a
                         parameter documented with rank 3 read as `p.shape[2]`, `p.shape[0]` of a tensor parameter read as `len(p)` and back, one argument of a
                         call of a package function moved between positional and keyword form, the
                         dimension argument of a torch reduction spelled dim= / axis= / positionally, the extents of a parameter of documented rank read
                         through `a, b, c = p.shape`, `for i in range(len(xs))` with xs[i] <-> `for i, x in enumerate(xs)`, `torch.f(x, ..)` <-> `x.f(..)`, `len(x.shape)` <-> `x.ndim`)
usage: python -m tmverif.preserve <PID> --funcs mod.func,mod.func [--jobs 16] [--json out.json]
"""
import ast, copy, json, os, shutil, subprocess, sys, tempfile
from concurrent.futures import ProcessPoolExecutor
VERIF = os.path.dirname(os.path.dirname(os.path.abspath(__file__)))
REPO = os.environ.get("TMVERIF_REPO", "/repo")

FLIP = {ast.Lt: ast.Gt, ast.LtE: ast.GtE, ast.Gt: ast.Lt, ast.GtE: ast.LtE, ast.Eq: ast.Eq, ast.NotEq: ast.NotEq}
NEG = {ast.Lt: ast.GtE, ast.LtE: ast.Gt, ast.Gt: ast.LtE, ast.GtE: ast.Lt, ast.Eq: ast.NotEq, ast.NotEq: ast.Eq,
       ast.Is: ast.IsNot, ast.IsNot: ast.Is, ast.In: ast.NotIn, ast.NotIn: ast.In}


def pure(e):
    """expression without side effects whose evaluation order relative to a sibling does not matter"""
    for n in ast.walk(e):
        if isinstance(n, ast.Call):
            f = ast.unparse(n.func)
            if f not in ("len", "int", "float", "min", "max", "abs"):
                return False
        elif isinstance(n, (ast.NamedExpr, ast.Yield, ast.YieldFrom, ast.Await, ast.Lambda, ast.ListComp, ast.SetComp, ast.DictComp,
                            ast.GeneratorExp, ast.IfExp, ast.BoolOp)):
            return False
    return True


def int_context_nodes(func):
    """BinOp(+) nodes that sit inside a subscript index, a slice bound or a range() argument"""
    out = []
    for n in ast.walk(func):
        roots = []
        if isinstance(n, ast.Subscript):
            roots.append(n.slice)
        elif isinstance(n, ast.Call) and isinstance(n.func, ast.Name) and n.func.id in ("range", "prange", "trange"):
            roots += n.args
        for r in roots:
            for x in ast.walk(r):
                if isinstance(x, ast.BinOp) and isinstance(x.op, ast.Add) and pure(x.left) and pure(x.right) and \
                        not any(isinstance(y, (ast.Constant,)) and isinstance(y.value, str) for y in ast.walk(x)) and \
                        not any(isinstance(y, (ast.List, ast.Tuple)) for y in ast.walk(x)):
                    out.append(x)
    seen, uniq = set(), []
    for x in out:
        if id(x) not in seen:
            seen.add(id(x))
            uniq.append(x)
    return uniq


def local_names(func):
    """locals that may be renamed: assigned by plain Name stores in this function, not parameters, not declared global/nonlocal,
    not used inside a nested function / lambda / comprehension / class (scoping), not used as keyword names"""
    params = {a.arg for a in func.args.args + func.args.kwonlyargs + func.args.posonlyargs}
    if func.args.vararg:
        params.add(func.args.vararg.arg)
    if func.args.kwarg:
        params.add(func.args.kwarg.arg)
    stores, banned = set(), set(params)
    nested = []

    def walk(n, depth):
        for c in ast.iter_child_nodes(n):
            if isinstance(c, (ast.FunctionDef, ast.AsyncFunctionDef, ast.Lambda, ast.ClassDef, ast.ListComp, ast.SetComp, ast.DictComp, ast.GeneratorExp)):
                nested.append(c)
                continue
            if isinstance(c, (ast.Global, ast.Nonlocal)):
                banned.update(c.names)
            if isinstance(c, ast.Name) and isinstance(c.ctx, ast.Store):
                stores.add(c.id)
            if isinstance(c, (ast.Import, ast.ImportFrom)):
                for a in c.names:
                    banned.add((a.asname or a.name).split(".")[0])
            if isinstance(c, ast.ExceptHandler) and c.name:
                banned.add(c.name)
            walk(c, depth + 1)
    walk(func, 0)
    for nd in nested:
        for x in ast.walk(nd):
            if isinstance(x, ast.Name):
                banned.add(x.id)
            if isinstance(x, ast.arg):
                banned.add(x.arg)
    return sorted(stores - banned)


def rewrites_of(func):
    out = []
    nodes = list(ast.walk(func))
    for idx, n in enumerate(nodes):
        if isinstance(n, ast.Compare) and len(n.ops) == 1 and type(n.ops[0]) in FLIP and pure(n.left) and pure(n.comparators[0]):
            out.append(("cmp-flip @%d `%s`" % (n.lineno, ast.unparse(n)[:50]), ("cmpflip", idx)))
        if isinstance(n, ast.If) and n.orelse and not (len(n.orelse) == 1 and isinstance(n.orelse[0], ast.If)) and \
                isinstance(n.test, ast.Compare) and len(n.test.ops) == 1 and type(n.test.ops[0]) in NEG:
            out.append(("arm-swap @%d `if %s`" % (n.lineno, ast.unparse(n.test)[:50]), ("armswap", idx)))
        if isinstance(n, ast.Return) and n.value is not None and not isinstance(n.value, (ast.Name, ast.Constant)):
            out.append(("hoist-return @%d `%s`" % (n.lineno, ast.unparse(n)[:50]), ("hoistret", idx)))
        if isinstance(n, ast.Assign) and len(n.targets) == 1 and isinstance(n.targets[0], ast.Subscript) and \
                not isinstance(n.value, (ast.Name, ast.Constant)):
            out.append(("hoist-store @%d `%s`" % (n.lineno, ast.unparse(n)[:50]), ("hoiststore", idx)))
        if isinstance(n, ast.Call) and isinstance(n.func, ast.Name) and n.func.id in ("range", "prange", "trange") and len(n.args) == 1 and not n.keywords:
            out.append(("range0 @%d `%s`" % (n.lineno, ast.unparse(n)[:50]), ("range0", idx)))
    # statement-level rewrites
    for p in ast.walk(func):
        for f in ("body", "orelse", "finalbody"):
            b = getattr(p, f, None)
            if not isinstance(b, list):
                continue
            for i, s in enumerate(b):
                key = (id(b), i)
                if i + 1 < len(b) and _independent(s, b[i + 1]):
                    out.append(("swap-adjacent @%d `%s` <-> `%s`" % (s.lineno, ast.unparse(s)[:30], ast.unparse(b[i + 1])[:30]), ("swapadj", _block_path(func, b), i)))
                if isinstance(s, ast.If) and s.orelse and s.body and isinstance(s.body[-1], (ast.Return, ast.Raise, ast.Continue, ast.Break)) \
                        and not (len(s.orelse) == 1 and isinstance(s.orelse[0], ast.If)):
                    out.append(("drop-else-after-exit @%d `if %s`" % (s.lineno, ast.unparse(s.test)[:40]), ("dropelse", _block_path(func, b), i)))
                if isinstance(s, ast.If) and not s.orelse and isinstance(s.test, ast.BoolOp) and isinstance(s.test.op, ast.Or) \
                        and len(s.body) == 1 and isinstance(s.body[0], (ast.Raise, ast.Continue, ast.Break, ast.Return)) and \
                        (not isinstance(s.body[0], ast.Return) or s.body[0].value is None or pure(s.body[0].value)):
                    out.append(("split-or-guard @%d `if %s`" % (s.lineno, ast.unparse(s.test)[:40]), ("splitor", _block_path(func, b), i)))
                if isinstance(s, ast.Assign) and len(s.targets) == 1 and isinstance(s.targets[0], ast.Name) and isinstance(s.value, ast.IfExp):
                    out.append(("ifexp-to-if @%d `%s`" % (s.lineno, ast.unparse(s)[:50]), ("ifexp", _block_path(func, b), i)))
                if isinstance(s, ast.Raise) and s.exc is not None and any(isinstance(x, ast.Constant) and isinstance(x.value, str) for x in ast.walk(s.exc)):
                    out.append(("reword-error @%d" % s.lineno, ("reword", _block_path(func, b), i)))
    for k, x in enumerate(int_context_nodes(func)):
        out.append(("idx-commute @%d `%s`" % (x.lineno, ast.unparse(x)[:50]), ("commute", k)))
    for name in local_names(func):
        out.append(("rename local `%s` -> `%s_v`" % (name, name), ("rename", name)))
    # adversarial-style rewrites
    ln = local_names(func)
    for a_, b_ in list(zip(ln, ln[1:]))[:6]:
        out.append(("exchange the names of locals `%s` and `%s`" % (a_, b_), ("exchange", a_, b_)))
    params = [a.arg for a in func.args.args]
    stores = {n.id for n in ast.walk(func) if isinstance(n, ast.Name) and isinstance(n.ctx, ast.Store)}
    nested_names = {x.id for nd in ast.walk(func) if isinstance(nd, (ast.Lambda, ast.ListComp, ast.SetComp, ast.DictComp, ast.GeneratorExp, ast.FunctionDef))
                    and nd is not func for x in ast.walk(nd) if isinstance(x, ast.Name)}
    for p_ in params[:4]:
        if p_ not in stores and p_ not in nested_names and any(isinstance(n, ast.Name) and n.id == p_ for n in ast.walk(func)):
            out.append(("alias parameter `%s` through a local" % p_, ("aliasparam", p_)))
    out.append(("unreachable branch `if False: raise` at the top", ("deadbranch", 0)))
    out.append(("wrap the body in `if True:`", ("wraptrue", 0)))
    for k, x in enumerate(int_context_nodes(func)[:6]):
        out.append(("plus-zero @%d `%s`" % (x.lineno, ast.unparse(x)[:40]), ("pluszero", k)))
    for idx, n in enumerate(nodes):
        if isinstance(n, ast.If) and isinstance(n.test, ast.BoolOp) and len(n.test.values) == 2:
            out.append(("de-morgan @%d `if %s`" % (n.lineno, ast.unparse(n.test)[:40]), ("demorgan", idx)))
    for k, x in enumerate(shape_nodes(func)[:6]):
        out.append(("shape-size @%d `%s` -> .size(k)" % (x.lineno, ast.unparse(x)), ("shapesize", k)))
    for k, (x, v, alt) in enumerate(shape_index_nodes(func)[:6]):
        out.append(("shape-index @%d `%s` -> [%d]" % (x.lineno, ast.unparse(x), alt), ("shapeidx", k)))
    for k, x in enumerate(len_shape_nodes(func)[:6]):
        out.append(("len-shape @%d `%s`" % (x.lineno, ast.unparse(x)), ("lenshape", k)))
    for k, (x, how) in enumerate(kwpos_nodes(func)[:8]):
        out.append(("kw/pos @%d `%s` %s" % (x.lineno, ast.unparse(x.func), how), ("kwpos", k)))
    for k, (x, how) in enumerate(dimaxis_nodes(func)[:8]):
        out.append(("dim/axis @%d `%s` %s" % (x.lineno, ast.unparse(x)[:40], how), ("dimaxis", k)))
    for k, (st, p_, r) in enumerate(unpack_sites(func)[:6]):
        out.append(("unpack-shape @%d `%s.shape` read through `_d0..` before `%s`" % (st.lineno, p_, ast.unparse(st)[:30]), ("unpackshape", k)))
    for k, (lp, how) in enumerate(enum_loops(func)[:8]):
        out.append(("loop-form @%d `for %s in %s` %s" % (lp.lineno, ast.unparse(lp.target), ast.unparse(lp.iter)[:30], how), ("enumloop", k)))
    for k, x in enumerate(torch_dual_nodes(func)[:8]):
        out.append(("torch-dual @%d `%s` -> method form" % (x.lineno, ast.unparse(x)[:40]), ("torchdual", k)))
    for k, x in enumerate(ndim_nodes(func)[:4]):
        out.append(("ndim @%d `%s`" % (x.lineno, ast.unparse(x)[:40]), ("ndim", k)))
    out.append(("nop statement at the top", ("nop", 0)))
    return out


def torch_dual_nodes(func):
    """torch.f(x, ..) calls of an operation that also exists as the tensor method x.f(..)"""
    from .canon import TORCH_DUAL
    return sorted([n for n in ast.walk(func) if isinstance(n, ast.Call) and isinstance(n.func, ast.Attribute) and n.func.attr in TORCH_DUAL and
                   isinstance(n.func.value, ast.Name) and n.func.value.id == "torch" and n.args and
                   isinstance(n.args[0], (ast.Name, ast.Subscript, ast.Attribute)) and not any(k.arg in ("input", "out") for k in n.keywords)],
                  key=lambda n: (n.lineno, n.col_offset))


def ndim_nodes(func):
    """len(x.shape) / x.ndim reads"""
    out = [n for n in ast.walk(func) if isinstance(n, ast.Attribute) and n.attr == "ndim" and isinstance(n.ctx, ast.Load)]
    out += [n for n in ast.walk(func) if isinstance(n, ast.Call) and isinstance(n.func, ast.Name) and n.func.id == "len" and len(n.args) == 1 and
            isinstance(n.args[0], ast.Attribute) and n.args[0].attr == "shape"]
    return sorted(out, key=lambda n: (n.lineno, n.col_offset))


from .canon import _untouched


def enum_loops(func):
    out = []
    for lp in ast.walk(func):
        if not isinstance(lp, ast.For) or lp.orelse:
            continue
        it = lp.iter
        if isinstance(it, ast.Call) and isinstance(it.func, ast.Name) and it.func.id == "enumerate" and len(it.args) == 1 and not it.keywords \
                and isinstance(it.args[0], ast.Name) and isinstance(lp.target, ast.Tuple) and len(lp.target.elts) == 2 and \
                isinstance(lp.target.elts[0], ast.Name):
            e, i = it.args[0].id, lp.target.elts[0].id
            if _untouched(lp.body, e) and _untouched(lp.body, i) and e != i:
                out.append((lp, "enumerate -> range(len())"))
        elif isinstance(it, ast.Call) and isinstance(it.func, ast.Name) and it.func.id == "range" and len(it.args) == 1 and \
                isinstance(lp.target, ast.Name):
            a = it.args[0]
            e = None
            if isinstance(a, ast.Call) and isinstance(a.func, ast.Name) and a.func.id == "len" and len(a.args) == 1 and isinstance(a.args[0], ast.Name):
                e = a.args[0].id
            elif isinstance(a, ast.Subscript) and isinstance(a.value, ast.Attribute) and a.value.attr == "shape" and \
                    isinstance(a.value.value, ast.Name) and isinstance(a.slice, ast.Constant) and a.slice.value == 0:
                e = a.value.value.id
            i = lp.target.id
            reads = [x for st in lp.body for x in ast.walk(st) if isinstance(x, ast.Subscript) and isinstance(x.ctx, ast.Load) and
                     isinstance(x.value, ast.Name) and x.value.id == e and isinstance(x.slice, ast.Name) and x.slice.id == i]
            if e and e != i and reads and _untouched(lp.body, i) and _untouched([s for s in lp.body], e):
                out.append((lp, "range(len()) -> enumerate"))
    return sorted(out, key=lambda t: t[0].lineno)


def unpack_sites(func):
    """simple statements that read p.shape[k] of a parameter with documented rank r: `_d0, .., _d{r-1} = p.shape` placed directly
    before the statement yields the same extents"""
    from .canon import _doc_ranks, _shape_reads, rank_stable
    out = []
    ranks = {p_: r for p_, r in _doc_ranks(func).items() if p_ in {a.arg for a in func.args.args} and rank_stable(func, p_)}
    for st in ast.walk(func):
        if isinstance(st, (ast.Assign, ast.AugAssign, ast.Return, ast.Expr)) and not any(
                isinstance(x, (ast.Lambda, ast.ListComp, ast.GeneratorExp, ast.SetComp, ast.DictComp, ast.IfExp, ast.BoolOp)) for x in ast.walk(st)):
            for p_, r in sorted(ranks.items()):
                if any(-r <= v < r for _, v in _shape_reads(st, p_)) and not any(
                        isinstance(x, ast.Name) and x.id == p_ and isinstance(x.ctx, ast.Store) for x in ast.walk(st)):
                    out.append((st, p_, r))
    return sorted(out, key=lambda t: (t[0].lineno, t[1]))


DIM_FUNCS = ("sum", "mean", "max", "min", "argmax", "argmin", "cumsum", "any", "all", "prod", "cat", "stack", "softmax", "log_softmax",
             "logsumexp", "flip", "std", "var", "amax", "amin")


def dimaxis_nodes(func):
    """torch reductions / concatenations whose dimension argument can be spelled dim=, axis= or positionally"""
    out = []
    for n in ast.walk(func):
        if not (isinstance(n, ast.Call) and isinstance(n.func, ast.Attribute) and n.func.attr in DIM_FUNCS):
            continue
        fn = isinstance(n.func.value, ast.Name) and n.func.value.id == "torch"
        if isinstance(n.func.value, ast.Name) and n.func.value.id in ("numpy", "np", "math"):
            continue
        kw = [k for k in n.keywords if k.arg in ("dim", "axis")]
        if len(kw) != 1 or any(isinstance(a, ast.Starred) for a in n.args):
            continue
        torchish = fn or kw[0].arg == "dim"
        if not torchish:
            continue
        out.append((n, "dim= -> axis=" if kw[0].arg == "dim" else "axis= -> dim="))
        if len(n.args) == (1 if fn else 0) and n.func.attr not in ("flip",):
            out.append((n, "keyword -> positional"))
    return sorted(out, key=lambda t: (t[0].lineno, t[0].col_offset, t[1]))


_SIGS = None


def package_signatures():
    """module-level function name -> positional parameter names, for names with ONE definition in the package"""
    global _SIGS
    if _SIGS is None:
        seen = {}
        for dp, dn, fn in os.walk(os.path.join(REPO, "tangermeme")):
            for f in fn:
                if f.endswith(".py"):
                    try:
                        t = ast.parse(open(os.path.join(dp, f)).read())
                    except (OSError, SyntaxError):
                        continue
                    for n in t.body:
                        if isinstance(n, ast.FunctionDef) and not n.args.posonlyargs:
                            seen.setdefault(n.name, []).append([a.arg for a in n.args.args])
        _SIGS = {k: v[0] for k, v in seen.items() if len(v) == 1}
    return _SIGS


def kwpos_nodes(func):
    """calls of package functions where one argument can change between positional and keyword form without changing the binding"""
    sig = package_signatures()
    shadow = {n.id for n in ast.walk(func) if isinstance(n, ast.Name) and isinstance(n.ctx, ast.Store)} | {a.arg for a in func.args.args}
    out = []
    for n in ast.walk(func):
        if isinstance(n, ast.Call) and isinstance(n.func, ast.Name) and n.func.id in sig and n.func.id not in shadow and \
                not any(isinstance(a, ast.Starred) for a in n.args):
            ps = sig[n.func.id]
            k = len(n.args)
            if k < len(ps) and any(kw.arg == ps[k] for kw in n.keywords):
                out.append((n, "keyword `%s` -> positional" % ps[k]))
            elif 1 <= k <= len(ps) and not any(kw.arg is None for kw in n.keywords):
                out.append((n, "last positional -> keyword `%s`" % ps[k - 1]))
    return sorted(out, key=lambda t: (t[0].lineno, t[0].col_offset))


def len_shape_nodes(func):
    """`p.shape[0]` / `len(p)` of a parameter the docstring types as a tensor / array"""
    from .canon import _doc_tensors, _shape_reads, rank_stable
    out = []
    for p_, r in sorted(_doc_tensors(func).items()):
        if p_ in {a.arg for a in func.args.args} and rank_stable(func, p_) and (r is None or r >= 1):
            out += [n for n, v in _shape_reads(func, p_) if v == 0]
            out += [n for n in ast.walk(func) if isinstance(n, ast.Call) and isinstance(n.func, ast.Name) and n.func.id == "len" and
                    len(n.args) == 1 and isinstance(n.args[0], ast.Name) and n.args[0].id == p_]
    return sorted(out, key=lambda t: (t.lineno, t.col_offset))


def _replace_node(func, x, new):
    for parent in ast.walk(func):
        for fld, val in ast.iter_fields(parent):
            if val is x:
                setattr(parent, fld, new)
            elif isinstance(val, list) and any(v is x for v in val):
                val[:] = [new if v is x else v for v in val]


def shape_index_nodes(func):
    """`p.shape[k]` of a parameter with a documented rank r that keeps its rank: the same extent is p.shape[k - r] / p.shape[k + r]"""
    from .canon import _doc_ranks, _shape_reads, rank_stable
    out = []
    for p_, r in sorted(_doc_ranks(func).items()):
        if p_ in {a.arg for a in func.args.args} and rank_stable(func, p_):
            for n, v in _shape_reads(func, p_):
                if -r <= v < r:
                    out.append((n, v, v - r if v >= 0 else v + r))
    return sorted(out, key=lambda t: (t[0].lineno, t[0].col_offset))


def shape_nodes(func):
    """`p.shape[k]` reads of a torch-tensor parameter (the docstring says torch and the function is not a numba kernel)"""
    doc = ast.get_docstring(func) or ""
    if "torch" not in doc or any("jit" in ast.unparse(d) for d in func.decorator_list):
        return []
    params = {a.arg for a in func.args.args}
    return [n for n in ast.walk(func) if isinstance(n, ast.Subscript) and isinstance(n.ctx, ast.Load) and isinstance(n.value, ast.Attribute)
            and n.value.attr == "shape" and isinstance(n.value.value, ast.Name) and n.value.value.id in params
            and ((isinstance(n.slice, ast.Constant) and isinstance(n.slice.value, int)) or
                 (isinstance(n.slice, ast.UnaryOp) and isinstance(n.slice.op, ast.USub) and isinstance(n.slice.operand, ast.Constant)))]


def _block_path(func, block):
    """stable address of a statement list: index in the walk order"""
    k = 0
    for p in ast.walk(func):
        for f in ("body", "orelse", "finalbody"):
            b = getattr(p, f, None)
            if isinstance(b, list):
                if b is block:
                    return k
                k += 1
    return -1


def _block_at(func, path):
    k = 0
    for p in ast.walk(func):
        for f in ("body", "orelse", "finalbody"):
            b = getattr(p, f, None)
            if isinstance(b, list):
                if k == path:
                    return b
                k += 1
    return None


def _names(e, ctx):
    return {n.id for n in ast.walk(e) if isinstance(n, ast.Name) and isinstance(n.ctx, ctx)}


def _independent(a, b):
    """two adjacent plain assignments to different names, both pure, neither reads what the other writes"""
    for s in (a, b):
        if not (isinstance(s, ast.Assign) and len(s.targets) == 1 and isinstance(s.targets[0], ast.Name) and pure(s.value)):
            return False
        if any(isinstance(n, (ast.Subscript, ast.Attribute, ast.Call)) for n in ast.walk(s.value)):
            return False
    ta, tb = a.targets[0].id, b.targets[0].id
    if ta == tb:
        return False
    return ta not in _names(b.value, ast.Load) and tb not in _names(a.value, ast.Load)


def _containing_block(root, stmt):
    for p in ast.walk(root):
        for f in ("body", "orelse", "finalbody"):
            b = getattr(p, f, None)
            if isinstance(b, list) and any(x is stmt for x in b):
                return b
    return None


def apply(func, spec):
    nodes = list(ast.walk(func))
    kind = spec[0]
    if kind == "cmpflip":
        n = nodes[spec[1]]
        n.left, n.comparators[0] = n.comparators[0], n.left
        n.ops = [FLIP[type(n.ops[0])]()]
    elif kind == "armswap":
        n = nodes[spec[1]]
        n.test.ops = [NEG[type(n.test.ops[0])]()]
        n.body, n.orelse = n.orelse, n.body
    elif kind == "hoistret":
        n = nodes[spec[1]]
        b = _containing_block(func, n)
        i = [k for k, x in enumerate(b) if x is n][0]
        b.insert(i, ast.Assign(targets=[ast.Name(id="_ret", ctx=ast.Store())], value=n.value, lineno=n.lineno))
        n.value = ast.Name(id="_ret", ctx=ast.Load())
    elif kind == "hoiststore":
        n = nodes[spec[1]]
        b = _containing_block(func, n)
        i = [k for k, x in enumerate(b) if x is n][0]
        b.insert(i, ast.Assign(targets=[ast.Name(id="_val", ctx=ast.Store())], value=n.value, lineno=n.lineno))
        n.value = ast.Name(id="_val", ctx=ast.Load())
    elif kind == "range0":
        n = nodes[spec[1]]
        n.args = [ast.Constant(value=0), n.args[0]]
    elif kind == "commute":
        x = int_context_nodes(func)[spec[1]]
        x.left, x.right = x.right, x.left
    elif kind == "rename":
        old = spec[1]
        for x in ast.walk(func):
            if isinstance(x, ast.Name) and x.id == old:
                x.id = old + "_v"
    elif kind in ("swapadj", "dropelse", "splitor", "ifexp", "reword"):
        b = _block_at(func, spec[1])
        i = spec[2]
        st = b[i]
        if kind == "swapadj":
            b[i], b[i + 1] = b[i + 1], b[i]
        elif kind == "dropelse":
            rest = st.orelse
            st.orelse = []
            b[i + 1:i + 1] = rest
        elif kind == "splitor":
            new = [ast.copy_location(ast.If(test=v, body=[copy.deepcopy(st.body[0])], orelse=[]), st) for v in st.test.values]
            b[i:i + 1] = new
        elif kind == "ifexp":
            tgt = st.targets[0]
            new = ast.copy_location(ast.If(test=st.value.test,
                                           body=[ast.Assign(targets=[copy.deepcopy(tgt)], value=st.value.body, lineno=st.lineno)],
                                           orelse=[ast.Assign(targets=[copy.deepcopy(tgt)], value=st.value.orelse, lineno=st.lineno)]), st)
            b[i] = new
        elif kind == "reword":
            for x in ast.walk(st.exc):
                if isinstance(x, ast.Constant) and isinstance(x.value, str):
                    x.value = x.value + " (see the documentation)"
                    break
    elif kind == "exchange":
        a_, b_ = spec[1], spec[2]
        for x in ast.walk(func):
            if isinstance(x, ast.Name) and x.id in (a_, b_):
                x.id = b_ if x.id == a_ else a_
    elif kind == "aliasparam":
        p_ = spec[1]
        alias = p_ + "_in"
        for x in ast.walk(func):
            if isinstance(x, ast.Name) and x.id == p_:
                x.id = alias
        k = 1 if (func.body and isinstance(func.body[0], ast.Expr) and isinstance(func.body[0].value, ast.Constant)) else 0
        func.body.insert(k, ast.Assign(targets=[ast.Name(id=alias, ctx=ast.Store())], value=ast.Name(id=p_, ctx=ast.Load()), lineno=func.lineno))
    elif kind == "deadbranch":
        k = 1 if (func.body and isinstance(func.body[0], ast.Expr) and isinstance(func.body[0].value, ast.Constant)) else 0
        func.body.insert(k, ast.If(test=ast.Constant(value=False), body=[ast.Raise(exc=ast.Call(func=ast.Name(id="ValueError", ctx=ast.Load()),
                         args=[ast.Constant(value="unreachable")], keywords=[]), cause=None)], orelse=[]))
    elif kind == "wraptrue":
        k = 1 if (func.body and isinstance(func.body[0], ast.Expr) and isinstance(func.body[0].value, ast.Constant)) else 0
        body = func.body[k:]
        func.body[k:] = [ast.If(test=ast.Constant(value=True), body=body, orelse=[])]
    elif kind == "pluszero":
        x = int_context_nodes(func)[spec[1]]
        x.right = ast.BinOp(left=x.right, op=ast.Add(), right=ast.Constant(value=0))
    elif kind == "shapesize":
        x = shape_nodes(func)[spec[1]]
        call = ast.Call(func=ast.Attribute(value=x.value.value, attr="size", ctx=ast.Load()), args=[x.slice], keywords=[])
        for parent in ast.walk(func):
            for fld, val in ast.iter_fields(parent):
                if val is x:
                    setattr(parent, fld, call)
                elif isinstance(val, list) and any(v is x for v in val):
                    val[:] = [call if v is x else v for v in val]
    elif kind == "shapeidx":
        x, v, alt = shape_index_nodes(func)[spec[1]]
        x.slice = ast.Constant(value=alt) if alt >= 0 else ast.UnaryOp(op=ast.USub(), operand=ast.Constant(value=-alt))
    elif kind == "lenshape":
        x = len_shape_nodes(func)[spec[1]]
        if isinstance(x, ast.Call):
            new = ast.Subscript(value=ast.Attribute(value=x.args[0], attr="shape", ctx=ast.Load()), slice=ast.Constant(value=0), ctx=ast.Load())
        else:
            new = ast.Call(func=ast.Name(id="len", ctx=ast.Load()), args=[x.value.value], keywords=[])
        _replace_node(func, x, new)
    elif kind == "kwpos":
        x, how = kwpos_nodes(func)[spec[1]]
        ps = package_signatures()[x.func.id]
        k = len(x.args)
        if how.startswith("keyword"):
            kw = [w for w in x.keywords if w.arg == ps[k]][0]
            x.keywords.remove(kw)
            x.args.append(kw.value)
        else:
            v = x.args.pop()
            x.keywords.insert(0, ast.keyword(arg=ps[k - 1], value=v))
    elif kind == "dimaxis":
        x, how = dimaxis_nodes(func)[spec[1]]
        kw = [k for k in x.keywords if k.arg in ("dim", "axis")][0]
        if how == "keyword -> positional":
            x.keywords.remove(kw)
            x.args.append(kw.value)
        else:
            kw.arg = "axis" if kw.arg == "dim" else "dim"
    elif kind == "unpackshape":
        from .canon import _shape_reads
        st, p_, r = unpack_sites(func)[spec[1]]
        for n_, v in _shape_reads(st, p_):
            if -r <= v < r:
                _replace_node(st, n_, ast.Name(id="_d%d" % (v % r), ctx=ast.Load()))
        unpack = ast.Assign(targets=[ast.Tuple(elts=[ast.Name(id="_d%d" % k, ctx=ast.Store()) for k in range(r)], ctx=ast.Store())],
                            value=ast.Attribute(value=ast.Name(id=p_, ctx=ast.Load()), attr="shape", ctx=ast.Load()), lineno=st.lineno)
        blk = _containing_block(func, st)
        blk.insert([i for i, x in enumerate(blk) if x is st][0], unpack)
    elif kind == "enumloop":
        lp, how = enum_loops(func)[spec[1]]
        if how.startswith("enumerate"):
            e, i, x = lp.iter.args[0], lp.target.elts[0], lp.target.elts[1]
            lp.iter = ast.Call(func=ast.Name(id="range", ctx=ast.Load()), args=[ast.Call(func=ast.Name(id="len", ctx=ast.Load()), args=[e], keywords=[])], keywords=[])
            lp.target = ast.Name(id=i.id, ctx=ast.Store())
            lp.body.insert(0, ast.Assign(targets=[x], value=ast.Subscript(value=ast.Name(id=e.id, ctx=ast.Load()), slice=ast.Name(id=i.id, ctx=ast.Load()), ctx=ast.Load()), lineno=lp.lineno))
        else:
            a = lp.iter.args[0]
            e = a.args[0].id if isinstance(a, ast.Call) else a.value.value.id
            i = lp.target.id
            for st in lp.body:
                for x in [x for x in ast.walk(st) if isinstance(x, ast.Subscript) and isinstance(x.ctx, ast.Load) and isinstance(x.value, ast.Name)
                          and x.value.id == e and isinstance(x.slice, ast.Name) and x.slice.id == i]:
                    _replace_node(st, x, ast.Name(id="_item", ctx=ast.Load()))
            lp.iter = ast.Call(func=ast.Name(id="enumerate", ctx=ast.Load()), args=[ast.Name(id=e, ctx=ast.Load())], keywords=[])
            lp.target = ast.Tuple(elts=[ast.Name(id=i, ctx=ast.Store()), ast.Name(id="_item", ctx=ast.Store())], ctx=ast.Store())
    elif kind == "torchdual":
        x = torch_dual_nodes(func)[spec[1]]
        recv = x.args[0]
        x.args = list(x.args[1:])
        x.func = ast.Attribute(value=recv, attr=x.func.attr, ctx=ast.Load())
    elif kind == "ndim":
        x = ndim_nodes(func)[spec[1]]
        if isinstance(x, ast.Attribute):
            new = ast.Call(func=ast.Name(id="len", ctx=ast.Load()), args=[ast.Attribute(value=x.value, attr="shape", ctx=ast.Load())], keywords=[])
        else:
            new = ast.Attribute(value=x.args[0].value, attr="ndim", ctx=ast.Load())
        _replace_node(func, x, new)
    elif kind == "demorgan":
        n = nodes[spec[1]]
        t = n.test
        inv = ast.And if isinstance(t.op, ast.Or) else ast.Or
        n.test = ast.UnaryOp(op=ast.Not(), operand=ast.BoolOp(op=inv(), values=[ast.UnaryOp(op=ast.Not(), operand=v) for v in t.values]))
    elif kind == "nop":
        k = 1 if (func.body and isinstance(func.body[0], ast.Expr) and isinstance(func.body[0].value, ast.Constant)) else 0
        func.body.insert(k, ast.Assign(targets=[ast.Name(id="_unused", ctx=ast.Store())], value=ast.Constant(value=None), lineno=func.lineno))
    ast.fix_missing_locations(func)


def run_one(args):
    pid, relpath, fname, spec, desc = args
    tmp = tempfile.mkdtemp(prefix="preserve-")
    try:
        shutil.copytree(os.path.join(REPO, "tangermeme"), os.path.join(tmp, "tangermeme"), ignore=shutil.ignore_patterns("__pycache__"))
        path = os.path.join(tmp, relpath)
        src = open(path).read()
        tree = ast.parse(src)
        f = [n for n in tree.body if isinstance(n, ast.FunctionDef) and n.name == fname][0]
        apply(f, spec)
        try:
            new = ast.unparse(tree)
            compile(new, path, "exec")
        except Exception as e:
            return desc, "INVALID", str(e)[:80]
        if ast.dump(ast.parse(new)) == ast.dump(ast.parse(src)):
            return desc, "INVALID", "no change"
        open(path, "w").write(new)
        r = subprocess.run([os.path.join(VERIF, "check"), pid, "--repo", tmp, "--no-evidence"], capture_output=True, text=True, timeout=900)
        if r.returncode == 1:
            lines = [l.strip()[:260] for l in r.stdout.split("\n") if l.strip().startswith("[VIOLATION]")]
            return desc, "VIOLATION", " || ".join(lines[:2])
        if r.returncode == 0:
            return desc, "SILENT", ""
        return desc, "ERROR", "; ".join(l[:200] for l in r.stdout.split("\n") if l.startswith("ANALYSIS-ERROR"))[:400]
    finally:
        shutil.rmtree(tmp, ignore_errors=True)


def tasks_for(pid, funcs):
    tasks = []
    for q in funcs:
        mod, fname = q.rsplit(".", 1)
        rel = os.path.join("tangermeme", *mod.split(".")) + ".py"
        try:
            tree = ast.parse(open(os.path.join(REPO, rel)).read())
        except OSError:
            continue
        f = [n for n in tree.body if isinstance(n, ast.FunctionDef) and n.name == fname]
        if not f:
            continue
        for desc, spec in rewrites_of(f[0]):
            tasks.append((pid, rel, fname, spec, "%s: %s" % (q, desc)))
    return tasks


def sample_sweep(pid, funcs, k=32, seed=0, jobs=16):
    import random
    tasks = tasks_for(pid, funcs)
    n_all = len(tasks)
    rnd = random.Random(seed)
    rnd.shuffle(tasks)
    tasks = tasks[:k]
    res = []
    if tasks:
        with ProcessPoolExecutor(max_workers=min(jobs, len(tasks))) as ex:
            res = list(ex.map(run_one, tasks))
    counts = {}
    for d, s_, x in res:
        counts[s_] = counts.get(s_, 0) + 1
    return {"rewrites_available": n_all, "sampled": len(res), "counts": counts,
            "false_alarms": ["%s -> %s" % (d, x) for d, s_, x in res if s_ == "VIOLATION"],
            "unrecognised_examples": ["%s -> %s" % (d, x[:120]) for d, s_, x in res if s_ == "ERROR"][:12],
            "note": "behaviour-preserving rewrites: SILENT (exit 0) is the wanted verdict, ERROR = exit 2 (no verdict), VIOLATION = false alarm"}


def main():
    pid = sys.argv[1]
    funcs, jobs, limit, jout, kinds = [], 16, None, None, None
    a = sys.argv[2:]
    while a:
        x = a.pop(0)
        if x == "--funcs":
            funcs = a.pop(0).split(",")
        elif x == "--jobs":
            jobs = int(a.pop(0))
        elif x == "--limit":
            limit = int(a.pop(0))
        elif x == "--json":
            jout = a.pop(0)
        elif x == "--kinds":
            kinds = set(a.pop(0).split(","))
    tasks = tasks_for(pid, funcs)
    if kinds:
        tasks = [t for t in tasks if t[3][0] in kinds]
    if limit:
        tasks = tasks[:limit]
    with ProcessPoolExecutor(max_workers=jobs) as ex:
        res = list(ex.map(run_one, tasks))
    counts = {}
    for d, s, x in res:
        counts[s] = counts.get(s, 0) + 1
    print("preserve-sweep %s: %d rewrites -> %s" % (pid, len(res), counts))
    for d, s, x in res:
        if s == "VIOLATION":
            print("  FALSE-ALARM", d, "|", x)
    for d, s, x in res:
        if s == "ERROR":
            print("  UNRECOGNISED", d, "|", x[:260])
    if jout:
        json.dump({"property": pid, "counts": counts, "results": res}, open(jout, "w"), indent=1)


if __name__ == "__main__":
    main()
