"""Layout helpers (R-AXES): decompose method chains, label reshape dimensions, apply permutations."""
import ast
from .front import dotted, const_value, unparse

PERMUTERS = {"transpose", "permute", "swapaxes", "swapdims", "movedim", "moveaxis", "T", "mT", "t"}


def chain(e):
    """x.f(a).g(b) -> (x, [('f', call), ('g', call)]) ; attribute access without call yields (attr, None)"""
    ops = []
    while True:
        if isinstance(e, ast.Call) and isinstance(e.func, ast.Attribute) and isinstance(e.func.value, ast.Name) \
                and e.func.value.id in ("torch", "numpy", "np", "F", "math", "itertools", "pandas"):
            break   # module-level function call: this is the base of the chain
        if isinstance(e, ast.Call) and isinstance(e.func, ast.Attribute):
            ops.append((e.func.attr, e))
            e = e.func.value
        elif isinstance(e, ast.Attribute) and e.attr in ("T", "mT"):
            ops.append((e.attr, None))
            e = e.value
        else:
            break
    return e, list(reversed(ops))


def flat_args(call):
    """positional args with Starred kept as ('*', expr)"""
    out = []
    for a in call.args:
        if isinstance(a, ast.Starred):
            out.append(("*", a.value))
        else:
            out.append(("", a))
    return out


def apply_perm(labels, method, call):
    """apply transpose/permute/... to a list of labels; returns new list or None if not understood"""
    n = len(labels)
    lab = list(labels)

    def idx(v):
        if not isinstance(v, int):
            return None
        return v if v >= 0 else n + v
    if method in ("transpose", "swapaxes", "swapdims"):
        if call is None or len(call.args) != 2:
            return None
        a, b = idx(const_value(call.args[0])), idx(const_value(call.args[1]))
        if a is None or b is None or a >= n or b >= n:
            return None
        lab[a], lab[b] = lab[b], lab[a]
        return lab
    if method == "permute":
        args = call.args
        if len(args) == 1 and isinstance(args[0], (ast.Tuple, ast.List)):
            args = args[0].elts
        p = [idx(const_value(a)) for a in args]
        if None in p or sorted(p) != list(range(len(p))) or len(p) > n:
            return None
        return [lab[i] for i in p] + lab[len(p):]
    if method in ("movedim", "moveaxis"):
        if len(call.args) != 2:
            return None
        a, b = idx(const_value(call.args[0])), idx(const_value(call.args[1]))
        if a is None or b is None:
            return None
        x = lab.pop(a)
        lab.insert(b, x)
        return lab
    if method in ("T", "mT", "t"):
        if n < 2:
            return None
        if method == "T":
            return list(reversed(lab))
        lab[-1], lab[-2] = lab[-2], lab[-1]
        return lab
    return None
