"""Generic rule helpers shared by the per-property checkers."""
import ast
from .affine import Lin, ge, le, entails, find_counter_model, decide
from .front import dotted, const_value, unparse, AnalysisError, parent_map, walk_no_nested
from .core import holds, violation, unrecognised
from .flow import AbsInt
from . import effects


# ------------------------------------------------------------------ affine obligations
import re as _re
_OPAQUE_CALL = _re.compile(r"\.(argmin|argmax|item|nonzero|unique|argsort|searchsorted|index|find|count)\(")
TRUSTED_LOCAL_EXTENTS = set()      # locals whose extents a property module has tied to parameters by its own facts
KNOWN_BOUNDED_PREFIXES = [r"p_value(@\d+)?\["]        # c19: argmin over a row of the p-value matrix is < l (allocation confirmed there)


def decide_states(ai, fi, stmt, mk_obls, rule, role, scope=(-3, 8), extra_facts=None):
    """For every abstract state reaching `stmt` decide each obligation  lin >= 0.

    mk_obls(state) -> list of (label, Lin) | None (shape not recognised).
    VIOLATION needs an exhibited counter-model of (path constraints and not obligation);
    HOLDS needs every obligation proved (Fourier-Motzkin) or at least model-free in the scope."""
    states = ai.states_at(stmt)
    if not states:
        return unrecognised(rule, fi, role, "site is unreachable in the abstract interpretation", stmt)
    facts = []
    n_obl = 0
    bounded = 0
    for st in states:
        st = st.copy()
        obls = mk_obls(st)
        if obls is None:
            return unrecognised(rule, fi, role, "index expression outside the linear fragment: %s" % unparse(stmt)[:80], stmt)
        for label, e in obls:
            n_obl += 1
            verdict, model = decide(st.G, e, scope=scope)
            if verdict == "REFUTED":
                rel = relevant_atoms(st.G, e)
                wit = {k: v for k, v in sorted(model.items()) if k in rel}
                # a counter-model that has to pick the value of a call result the engine knows nothing about (x.argmin(), x.item(), ...)
                # is not evidence: the engine has no bounds for it.  Module-specific axioms can declare prefixes whose bounds are known.
                op = [a for a in rel if _OPAQUE_CALL.search(a) and not any(_re.match(p_, a) for p_ in KNOWN_BOUNDED_PREFIXES)]
                op += [a for a in rel if a in getattr(ai, "free_atoms", ())]      # loop variable over a domain the engine could not read
                # extent of a LOCAL array / sequence the engine has no model for (its shape is whatever built it)
                params_ = set(fi.params)
                exts, local_exts = [], []
                for a in rel:
                    m_ = _re.match(r"^(?:len\()?(\w+?)(?:[@~]\d+)?(?:\.shape\[|\))", a)
                    if m_ and "//" not in a:
                        exts.append(a)
                        if m_.group(1) not in params_ and m_.group(1) not in TRUSTED_LOCAL_EXTENTS:
                            local_exts.append(a)
                # the extent of a LOCAL array next to another extent: the engine has no model of how the two are related
                if local_exts and len(set(exts)) >= 2:
                    op.append(local_exts[0])
                if op:
                    return unrecognised(rule, fi, role, "obligation `%s` depends on `%s`, a call result the engine has no bounds for" % (label, op[0]), stmt)
                return violation(rule, fi, role,
                                 "obligation `%s` i.e. %r >= 0 is not implied by the guards on path %s" % (
                                     label, e, fmt_trace(st.trace)),
                                 stmt, semantic=True, witness={"assignment": wit, "obligation": label,
                                                "guards": [repr(g) + " >= 0" for g in relevant_guards(st.G, e)]})
            if verdict == "UNKNOWN":
                return unrecognised(rule, fi, role, "obligation `%s` neither proved nor refuted within the search budget" % label, stmt)
            if verdict == "BOUNDED":
                bounded += 1
            if len(facts) < 6:
                facts.append("%s: %r >= 0 [%s] path %s" % (label, e, verdict, fmt_trace(st.trace)))
    if n_obl == 0:
        return unrecognised(rule, fi, role, "no obligation generated", stmt)
    detail = "%d obligations over %d abstract states proved" % (n_obl, len(states))
    if bounded:
        detail += " (%d only model-free in scope %s)" % (bounded, list(scope))
    return holds(rule, fi, role, detail, stmt, facts=(extra_facts or []) + facts)


def relevant_atoms(G, e):
    rel = set(e.atoms())
    changed = True
    while changed:
        changed = False
        for g in G:
            a = g.atoms()
            if a & rel and not a <= rel:
                rel |= a
                changed = True
    return rel


def relevant_guards(G, e):
    rel = relevant_atoms(G, e)
    return [g for g in G if g.atoms() & rel]


def fmt_trace(tr):
    return "/".join("%s%d" % (k, l) for k, l in tr) or "entry"


def last_axis_slice(sub):
    """for a Subscript return the index element applying to the last axis if it is a Slice
    written in last position (after explicit slices or an Ellipsis), else None"""
    idx = sub.slice.elts if isinstance(sub.slice, ast.Tuple) else [sub.slice]
    return idx


def subscript_bounds_obligations(ai, st, sub, axis_extent, which, strict=False):
    """obligations that slice `which` (an ast.Slice) stays inside [0, E]:  0 <= lo <= hi <= E"""
    E = axis_extent
    obls = []
    lo = hi = None
    if which.lower is not None:
        lo = neg_aware(ai, st, which.lower, E)
        if lo is None:
            return None
        obls.append(("0 <= %s" % unparse(which.lower), lo))
        obls.append(("%s <= extent" % unparse(which.lower), E - lo))
    if which.upper is not None:
        hi = neg_aware(ai, st, which.upper, E)
        if hi is None:
            return None
        obls.append(("%s <= extent" % unparse(which.upper), E - hi))
        obls.append(("0 <= %s" % unparse(which.upper), hi))
    if lo is not None and hi is not None:
        obls.append(("%s <= %s" % (unparse(which.lower), unparse(which.upper)), hi - lo - (1 if strict else 0)))
    return obls


def neg_aware(ai, st, e, E):
    """python slice bound semantic *without* wrap: the raw value must itself be in range,
    a syntactically negative constant is a from-the-end offset."""
    v = ai.lin(st, e)
    if v is None:
        return None
    if v.is_const() and v.c < 0:
        return E + v.c
    return v


# ------------------------------------------------------------------ purity
def pure_params(repo, fi, params, rule="R-PURE", why=""):
    """R-PURE: no in-place sink reaches storage that may alias `params` of fi"""
    summ = effects.summaries(repo)
    ev = summ.events[fi.qual]
    out = []
    for p in params:
        if p not in fi.params:
            out.append(unrecognised(rule, fi, "parameter `%s`" % p, "parameter no longer exists"))
            continue
        hits = [(n, k) for (r, n, k, c) in ev.sinks if r == p]
        if hits:
            n, k = hits[0]
            out.append(violation(rule, fi, "parameter `%s` is never written in place" % p,
                                 "%s reaches caller-owned `%s`: `%s`%s" % (
                                     k, p, unparse(n)[:90], " (+%d more)" % (len(hits) - 1) if len(hits) > 1 else ""),
                                 n, semantic=True, witness={"sinks": ["%s: %s" % (fi.line(x), kk) for x, kk in hits[:5]]}))
        else:
            out.append(holds(rule, fi, "parameter `%s` is never written in place" % p,
                             "alias analysis: no in-place sink (subscript store, op=, method_(), out=, writing callee) "
                             "reaches a value that may share storage with `%s`" % p, fi.node))
    return out


# ------------------------------------------------------------------ dominance (must-pass-through)
class Must:
    """forward must-analysis over the structured statement tree: which 'facts' (labels produced by
    a matcher on statements) hold on *every* path reaching a statement / a normal return."""

    def __init__(self, fi, matcher):
        self.fi = fi
        self.matcher = matcher       # stmt -> set(labels) generated by executing stmt (top-level effect)
        self.before = {}             # id(stmt) -> frozenset
        self.return_facts = []       # (Return node or None for fall-through, facts)
        out = self.block(fi.node.body, frozenset())
        if out is not None:
            self.return_facts.append((None, out))

    def block(self, stmts, facts):
        for s in stmts:
            if facts is None:
                return None
            facts = self.stmt(s, facts)
        return facts

    def stmt(self, s, facts):
        self.before[id(s)] = facts
        if isinstance(s, ast.Return):
            self.return_facts.append((s, facts | self.matcher(s)))
            return None
        if isinstance(s, (ast.Raise, ast.Break, ast.Continue)):
            return None
        if isinstance(s, ast.If):
            a = self.block(s.body, facts | self.matcher_expr(s.test))
            b = self.block(s.orelse, facts | self.matcher_expr(s.test))
            if a is None:
                return b
            if b is None:
                return a
            return a & b
        if isinstance(s, (ast.For, ast.While)):
            hdr = self.matcher_expr(s.iter if isinstance(s, ast.For) else s.test)
            self.block(s.body, facts | hdr)
            out = facts | hdr
            if s.orelse:
                o = self.block(s.orelse, out)
                out = o if o is not None else out
            if isinstance(s, ast.While) and isinstance(s.test, ast.Constant) and s.test.value is True:
                return out   # leaves via break: facts at loop entry (conservative)
            return out
        if isinstance(s, ast.With):
            f = facts
            for it in s.items:
                f = f | self.matcher_expr(it.context_expr)
            return self.block(s.body, f)
        if isinstance(s, ast.Try):
            a = self.block(s.body, facts)
            outs = []
            if a is not None:
                o = self.block(s.orelse, a) if s.orelse else a
                if o is not None:
                    outs.append(o)
            for h in s.handlers:
                o = self.block(h.body, facts)
                if o is not None:
                    outs.append(o)
            if not outs:
                res = None
            else:
                res = outs[0]
                for o in outs[1:]:
                    res = res & o
            if s.finalbody:
                res2 = self.block(s.finalbody, res if res is not None else facts)
                return res2 if res is not None else None
            return res
        return facts | self.matcher(s)

    def matcher_expr(self, e):
        fake = ast.Expr(value=e)
        return self.matcher(fake)


def call_matcher(patterns):
    """patterns: label -> predicate(call_node) ; matcher returns labels of calls contained in stmt"""
    def m(stmt):
        out = set()
        for n in walk_no_nested(stmt):
            if isinstance(n, ast.Call):
                for label, pred in patterns.items():
                    if pred(n):
                        out.add(label)
        return frozenset(out)
    return m


# ------------------------------------------------------------------ tiny def-use helper
def single_def(fi, name):
    """the defining expression of a local that is bound exactly once in the function (else None)"""
    defs = []
    for n in walk_no_nested(fi.node):
        if isinstance(n, ast.Assign):
            for t in n.targets:
                if isinstance(t, ast.Name) and t.id == name:
                    defs.append(n.value)
                elif isinstance(t, (ast.Tuple, ast.List)):
                    for k, tt in enumerate(t.elts):
                        if isinstance(tt, ast.Name) and tt.id == name:
                            if isinstance(n.value, (ast.Tuple, ast.List)) and len(n.value.elts) == len(t.elts):
                                defs.append(n.value.elts[k])
                            else:
                                defs.append(None)
        elif isinstance(n, (ast.AugAssign, ast.AnnAssign)) and isinstance(n.target, ast.Name) and n.target.id == name:
            defs.append(None)
        elif isinstance(n, (ast.For, ast.comprehension)):
            if any(isinstance(x, ast.Name) and x.id == name for x in ast.walk(n.target)):
                defs.append(None)
        elif isinstance(n, ast.With):
            for it in n.items:
                if it.optional_vars is not None and any(isinstance(x, ast.Name) and x.id == name for x in ast.walk(it.optional_vars)):
                    defs.append(None)
    if name in fi.params:
        defs.append(None)
    if len(defs) == 1 and defs[0] is not None:
        return defs[0]
    return None


def inline_locals(fi, e, depth=3):
    """replace Names bound exactly once by their defining expression (bounded depth)"""
    if depth == 0:
        return e
    if isinstance(e, ast.Name):
        d = single_def(fi, e.id)
        if d is not None:
            return inline_locals(fi, d, depth - 1)
    return e


# ------------------------------------------------------------------ reaching definitions of one variable
def reaching_defs(fi, var):
    """id(stmt) -> frozenset of definition sites (line numbers; 0 = parameter/unbound) of `var` reaching stmt"""
    out = {}

    def defines(s):
        if isinstance(s, ast.Assign):
            for t in s.targets:
                for n in ast.walk(t):
                    if isinstance(n, ast.Name) and n.id == var and isinstance(n.ctx, ast.Store):
                        return True
        if isinstance(s, (ast.AugAssign, ast.AnnAssign)) and isinstance(s.target, ast.Name) and s.target.id == var:
            return True
        return False

    def block(stmts, cur):
        for s in stmts:
            cur = stmt(s, cur)
        return cur

    def stmt(s, cur):
        out[id(s)] = cur
        if isinstance(s, ast.If):
            a = block(s.body, cur)
            b = block(s.orelse, cur)
            return a | b
        if isinstance(s, (ast.For, ast.While)):
            c = cur
            if isinstance(s, ast.For) and any(isinstance(n, ast.Name) and n.id == var for n in ast.walk(s.target)):
                c = frozenset([s.lineno])
            for _ in range(2):
                c = c | block(s.body, c)
            return c | block(s.orelse, c) if s.orelse else c | cur
        if isinstance(s, ast.With):
            return block(s.body, cur)
        if isinstance(s, ast.Try):
            a = block(s.body, cur)
            r = a
            for h in s.handlers:
                r = r | block(h.body, cur | a)
            r = block(s.orelse, r) if s.orelse else r
            return block(s.finalbody, r) if s.finalbody else r
        if isinstance(s, (ast.Return, ast.Raise)):
            return frozenset()
        if defines(s):
            if isinstance(s, ast.AugAssign):
                return frozenset([s.lineno])
            return frozenset([s.lineno])
        return cur

    block(fi.node.body, frozenset([0]))
    return out


# ------------------------------------------------------------------ module-level state (memo caches): history independence
MUTABLE_CTORS = {"dict", "list", "set", "collections.OrderedDict", "collections.defaultdict", "OrderedDict", "defaultdict"}
DIGESTS = ("tobytes", "hash(", "hashlib", "digest", "tostring", "data.tobytes", "id(")


def module_state_rule(repo, modshort, rule="STATE"):
    """results of a module's functions may depend on module-level mutable state only through a cache whose key determines the
    cached value: every parameter the stored value depends on must reach the key (scalars by value, arrays/dicts by a content digest)"""
    m = repo.mod(modshort)
    conts = {}
    for s in m.tree.body:
        if isinstance(s, ast.Assign) and len(s.targets) == 1 and isinstance(s.targets[0], ast.Name):
            v = s.value
            if isinstance(v, (ast.Dict, ast.List, ast.Set)) or (isinstance(v, ast.Call) and dotted(v.func) in MUTABLE_CTORS):
                conts[s.targets[0].id] = s
    out = []
    role = "results do not depend on what earlier calls left in module-level state"
    used = []
    for f in m.funcs.values():
        local = {n.id for n in ast.walk(f.node) if isinstance(n, ast.Name) and isinstance(n.ctx, ast.Store)} | set(f.params)
        for n in walk_no_nested(f.node):
            if isinstance(n, ast.Name) and n.id in conts and n.id not in local:
                used.append((f, n))
    lru = [f for f in m.funcs.values() if any((dotted(d.func) if isinstance(d, ast.Call) else dotted(d)) in
                                              ("functools.lru_cache", "lru_cache", "functools.cache", "cache") for d in f.node.decorator_list)]
    if not used and not lru:
        anyf = next(iter(m.funcs.values()))
        return [holds(rule, anyf.qual.rsplit(".", 1)[0] + ".<module>", role, "no module-level mutable container is read or written by any function of tangermeme/%s.py" % modshort.replace(".", "/"),
                      nontrivial=False)]
    pm_cache = {}
    for f, n in used:
        pm = pm_cache.setdefault(f.qual, parent_map(f.node))
        p = pm.get(n)
        # writes: D[k] = v
        if isinstance(p, ast.Subscript) and isinstance(p.ctx, ast.Store):
            st = pm.get(p)
            while st is not None and not isinstance(st, ast.stmt):
                st = pm.get(st)
            if isinstance(st, ast.Assign):
                kdeps = _param_deps(f, p.slice, at=st.lineno)
                vdeps = _param_deps(f, st.value, at=st.lineno)
                ktext = _slice_text(f, p.slice)
                missing = sorted(vdeps - kdeps)
                if missing:
                    out.append(violation(rule, f, role, "`%s[...]` memoises a value that depends on parameter(s) %s but the key `%s` ignores them: a later "
                                         "call with different %s gets the stale entry" % (n.id, missing, unparse(p.slice)[:50], missing[0]), st,
                                         semantic=True, witness={"cache": n.id, "value_depends_on": sorted(vdeps), "key_depends_on": sorted(kdeps)}))
                    continue
                arrays = [q for q in sorted(vdeps) if not _scalar_param(f, q)]
                weak = [q for q in arrays if not any(d in ktext for d in DIGESTS)]
                if weak:
                    out.append(violation(rule, f, role, "`%s[...]` is keyed by names / shapes of `%s` only (no content digest): same-named inputs with different "
                                         "values share an entry" % (n.id, weak[0]), st, semantic=True, witness={"cache": n.id, "key": ktext[:120]}))
                    continue
                out.append(holds(rule, f, role, "cache `%s`: key covers %s" % (n.id, sorted(vdeps)), st))
        elif isinstance(p, ast.Attribute) and p.attr in ("append", "extend", "update", "setdefault", "add", "insert", "pop", "clear"):
            out.append(violation(rule, f, role, "module-level `%s` is mutated by `.%s(...)`: later calls observe earlier ones" % (n.id, p.attr), n))
    for f in lru:
        # the cached object is shared by every later call with equal arguments: a caller that writes into it changes their result
        hit = None
        for g in m.funcs.values():
            for st in walk_no_nested(g.node):
                if isinstance(st, ast.Assign) and len(st.targets) == 1 and isinstance(st.targets[0], ast.Name) and isinstance(st.value, ast.Call) \
                        and isinstance(st.value.func, ast.Name) and st.value.func.id == f.name:
                    v = st.targets[0].id
                    for n in walk_no_nested(g.node):
                        w = None
                        if isinstance(n, (ast.Subscript, ast.Attribute)) and isinstance(n.ctx, ast.Store):
                            b = n
                            while isinstance(b, (ast.Subscript, ast.Attribute)):
                                b = b.value
                            if isinstance(b, ast.Name) and b.id == v and n.lineno > st.lineno:
                                w = n
                        elif isinstance(n, ast.AugAssign) and isinstance(n.target, ast.Name) and n.target.id == v and n.lineno > st.lineno:
                            w = n
                        elif isinstance(n, ast.Call) and isinstance(n.func, ast.Attribute) and isinstance(n.func.value, ast.Name) and n.func.value.id == v \
                                and (n.func.attr.endswith("_") or n.func.attr in ("append", "extend", "update", "pop", "insert", "clear", "sort", "fill")) and n.lineno > st.lineno:
                            w = n
                        if w is not None and hit is None:
                            hit = (g, v, w)
        if hit:
            from .core import named
            g, v, w = hit
            out.append(named(rule, g, role, "`%s` is the object cached by `%s` (functools cache) and `%s` writes into it: every later call with the same "
                             "arguments sees the modification (history dependence)" % (v, f.name, unparse(w)[:50]), w))
        else:
            out.append(unrecognised(rule, f, role, "functools cache on `%s`: key = arguments by hash; re-confirm that arguments are value-hashable" % f.name))
    if not out:
        f, n = used[0]
        out.append(holds(rule, f, role, "module-level containers are only read", n, nontrivial=False))
    return out


def _slice_text(f, e):
    """key expression with single-definition locals inlined"""
    class T(ast.NodeTransformer):
        def visit_Name(self, n):
            d = single_def(f, n.id)
            return T().visit(copy.deepcopy(d)) if d is not None and depth[0] < 6 else n
    import copy
    depth = [0]
    return unparse(T().visit(copy.deepcopy(e)))


def _param_deps(f, e, _seen=None, at=None):
    """parameters an expression depends on: backward slice through the function's assignments.  Flow-sensitive for straight-line code: a
    name read at line `at` is resolved to the definitions textually before it, and an unconditional top-level assignment kills the
    earlier ones (so `k = digest(x); x = g(x, eps); cache[k] = h(x)` gives k a dependence on the OLD x only)."""
    top = set(id(s) for s in f.node.body)
    defs = {}
    for s in walk_no_nested(f.node):
        if isinstance(s, ast.Assign):
            for t in s.targets:
                for x in ast.walk(t):
                    if isinstance(x, ast.Name) and isinstance(x.ctx, ast.Store):
                        defs.setdefault(x.id, []).append((s.lineno, s.value, id(s) in top))
        elif isinstance(s, ast.AugAssign) and isinstance(s.target, ast.Name):
            defs.setdefault(s.target.id, []).append((s.lineno, ast.BinOp(left=ast.Name(id=s.target.id, ctx=ast.Load()), op=s.op, right=s.value), False))
        elif isinstance(s, (ast.For, ast.comprehension)):
            for x in ast.walk(s.target):
                if isinstance(x, ast.Name):
                    defs.setdefault(x.id, []).append((getattr(s, "lineno", 0), s.iter, False))
    deps = set()
    seen = set()

    def visit(expr, pos):
        for n in ast.walk(expr):
            if not isinstance(n, ast.Name) or not isinstance(n.ctx, ast.Load):
                continue
            v = n.id
            here = pos if pos is not None else getattr(n, "lineno", None)
            cands = sorted([d for d in defs.get(v, []) if here is None or d[0] < here], key=lambda d: d[0])
            if here is not None and not cands and v in defs and v not in f.params:
                cands = sorted(defs[v], key=lambda d: d[0])       # defined later only (loop-carried): keep everything
            kill = [k for k, d in enumerate(cands) if d[2]]
            is_param_live = v in f.params and not kill
            if kill:
                cands = cands[kill[-1]:]
            if v in f.params and (is_param_live or not cands):
                deps.add(v)
            for ln, val, _ in cands:
                key = (v, ln)
                if key in seen:
                    continue
                seen.add(key)
                visit(val, ln)
    visit(e, at)
    return deps


def _scalar_param(f, p):
    d = f.defaults.get(p)
    if isinstance(d, ast.Constant) and isinstance(d.value, (int, float, bool, str)):
        return True
    k = f.docparams().get(p, {}).get("kind")
    return k in ("int", "bool") or "float" in f.docparams().get(p, {}).get("type", "")


# ------------------------------------------------------------------ loop headers of a kernel against their confirmed extents
def loop_headers_rule(fi, expected, rule, role):
    """the loops of fi, in source order, run over the confirmed ranges.  Headers are compared as linear forms over names
    (range(0, n) == range(n)); a header that differs by a provable constant is a VIOLATION (an element is skipped or an extra one
    visited), any other difference is UNRECOGNISED."""
    loops = [n for n in walk_no_nested(fi.node) if isinstance(n, ast.For)]
    got = [unparse(l.iter) for l in loops]
    if len(got) == len(expected):
        expected = [g if e is None else e for g, e in zip(got, expected)]     # None = decided by another rule
    if got == expected:
        return [holds(rule, fi, role, "%d loop headers as confirmed" % len(got), fi.node, nontrivial=False)]
    if len(got) != len(expected):
        return [unrecognised(rule, fi, role, "loop structure changed: %s" % got)]
    ai = AbsInt(fi)
    st = ai.init.copy()

    def rng(text):
        e = ast.parse(text, mode="eval").body
        if isinstance(e, ast.Call) and dotted(e.func) in ("range", "numba.prange", "prange", "trange") and not e.keywords:
            a = e.args
            lo, hi, step = (ast.Constant(value=0), a[0], ast.Constant(value=1)) if len(a) == 1 else (a[0], a[1], a[2] if len(a) > 2 else ast.Constant(value=1))
            return tuple(ai.lin(st.copy(), x) for x in (lo, hi, step))
        return None
    for l, g, e in zip(loops, got, expected):
        if g == e:
            continue
        rg, re_ = rng(g), rng(e)
        if rg is None or re_ is None or None in rg or None in re_:
            return [unrecognised(rule, fi, role, "loop `%s` (confirmed: `%s`)" % (g, e), l)]
        if all(a == b for a, b in zip(rg, re_)):
            continue
        diffs = [(a - b) for a, b in zip(rg, re_)]
        if all(d.is_const() for d in diffs):
            return [violation(rule, fi, role, "loop runs over `%s` instead of `%s`: %s" % (g, e, "an element is skipped" if (diffs[1].c < 0 or diffs[0].c > 0) else "an element outside the confirmed range is visited"), l,
                              semantic=True, witness={"got": g, "confirmed": e})]
        return [unrecognised(rule, fi, role, "loop `%s` (confirmed: `%s`)" % (g, e), l)]
    return [holds(rule, fi, role, "%d loop headers equal the confirmed ranges as linear forms" % len(got), fi.node, nontrivial=False)]


# ------------------------------------------------------------------ value of a scalar local at the end of a straight-line block
def block_value_rule(fi, stmts, name, expected_src, rule, role, node=None, named=None):
    """Evaluate the statements symbolically (R-TERM fragment: +,-,*,/ over atoms, rational normal form) and compare the final value of
    `name` with the expression `expected_src`.  EQUAL -> HOLDS whatever the spelling (temporaries, re-association, += chains);
    DIFFERENT -> VIOLATION (the two are different polynomials over the same atoms); anything opaque -> UNRECOGNISED."""
    from .terms import TermEval, compare, canon
    from .core import holds, violation, unrecognised
    te = TermEval()
    r = te.run([s for s in stmts if not isinstance(s, (ast.Expr, ast.Pass))] if False else _prefix_until_opaque(stmts))
    got = te.env.get(name)
    if got is None:
        return unrecognised(rule, fi, role, "`%s` is not assigned in the block" % name, node)
    exp = TermEval().ev(ast.parse(expected_src, mode="eval").body)
    res = compare(got, exp, te)
    if res == "EQUAL":
        return holds(rule, fi, role, "%s == %s" % (name, expected_src), node)
    if res == "DIFFERENT":
        from .terms import structural_difference
        return violation(rule, fi, role, "`%s` evaluates to %s, expected %s" % (name, canon(got)[:120], expected_src), node,
                         semantic=structural_difference(got, exp), witness={"got": canon(got)[:200], "expected": canon(exp)[:200]})
    return unrecognised(rule, fi, role, "`%s` = %s (outside the arithmetic fragment)" % (name, canon(got)[:120]), node)


def _prefix_until_opaque(stmts):
    out = []
    for s in stmts:
        if isinstance(s, (ast.Assign, ast.AugAssign, ast.If)):
            out.append(s)
        elif isinstance(s, (ast.Expr, ast.Pass)):
            continue
        else:
            break
    return out


# ------------------------------------------------------------------ x[..., -e:] / x[..., :-e] with a computed e
def negative_slice_rule(fi, rule="R-SLICE0", ai=None, int_params=()):
    """A slice bound written `-e` means "e from the end" only for e >= 1: `-0` is `0`, so `x[:-e]` is EMPTY and `x[-e:]` is EVERYTHING when e
    evaluates to 0.  For every slice bound of that form with a non-constant e, e >= 1 is decided on every path (tensor extents are >= 1)."""
    from .core import holds, unrecognised
    from .affine import ge as _ge, Lin as _Lin
    ai = ai or AbsInt(fi, int_params=set(int_params))
    pm = parent_map(fi.node)
    out = []
    for n in walk_no_nested(fi.node):
        if not isinstance(n, ast.Subscript):
            continue
        sls = n.slice.elts if isinstance(n.slice, ast.Tuple) else [n.slice]
        for sl in sls:
            if not isinstance(sl, ast.Slice):
                continue
            for which in ("lower", "upper"):
                b = getattr(sl, which)
                if isinstance(b, ast.UnaryOp) and isinstance(b.op, ast.USub) and not isinstance(b.operand, ast.Constant):
                    st_ = n
                    while st_ in pm and not isinstance(st_, ast.stmt):
                        st_ = pm[st_]
                    role = "`%s` in `%s`: the offset from the end is at least 1 on every path (-0 would select %s)" % (
                        unparse(b), unparse(n)[:50], "nothing" if which == "upper" else "everything")

                    def mk(st, e=b.operand):
                        v = ai.lin(st, e)
                        if v is None:
                            return None
                        for a in list(v.atoms()) + [a_ for g in st.G for a_ in g.atoms()]:
                            if ".shape[" in a and "//" not in a:
                                st.add(_ge(_Lin.atom(a), 1))
                        return [("offset >= 1", v - 1)]
                    out.append(decide_states(ai, fi, st_, mk, rule, role))
    return out


# ------------------------------------------------------------------ KNOB: a tuning / diagnostic parameter must not influence results
KNOB_SINKS = {"Parallel", "joblib.Parallel", "numba.set_num_threads", "set_num_threads", "tqdm", "trange", "tqdm.tqdm", "tqdm.trange",
              "print", "warnings.warn", "logging.info", "logging.debug", "logging.warning", "min", "max", "int", "range"}
_PRINTERS = {"print", "warnings.warn", "logging.info", "logging.debug", "logging.warning", "sys.stdout.write", "sys.stderr.write"}


def _arms_call_differently(fi, if_node):
    """both arms of an if/else call the same module-level function (directly or through `f = delayed(g)`): -> (callee, difference text) when
    the parameters they bind (or the expressions bound to them) differ, else None"""
    funcs = fi.mod.funcs
    alias = {}
    for n in ast.walk(fi.node):
        if isinstance(n, ast.Assign) and len(n.targets) == 1 and isinstance(n.targets[0], ast.Name) and isinstance(n.value, ast.Call) and \
                dotted(n.value.func) in ("delayed", "joblib.delayed") and n.value.args and isinstance(n.value.args[0], ast.Name):
            alias[n.targets[0].id] = n.value.args[0].id

    def calls(stmts):
        out = {}
        for st in stmts:
            for c in ast.walk(st):
                if isinstance(c, ast.Call) and isinstance(c.func, ast.Name):
                    g = alias.get(c.func.id, c.func.id)
                    if g in funcs and not any(isinstance(a, ast.Starred) for a in c.args) and not any(k.arg is None for k in c.keywords):
                        ps = funcs[g].params
                        b = {}
                        for i, a in enumerate(c.args):
                            if i < len(ps):
                                b[ps[i]] = unparse(a)
                        for k in c.keywords:
                            b[k.arg] = unparse(k.value)
                        out.setdefault(g, []).append(b)
        return out
    a, b = calls(if_node.body), calls(if_node.orelse)
    for g in sorted(set(a) & set(b)):
        if len(a[g]) == 1 and len(b[g]) == 1 and a[g][0] != b[g][0]:
            x, y = a[g][0], b[g][0]
            only = sorted(set(x) ^ set(y))
            diff = ["`%s` is passed in one arm only" % k for k in only] + ["`%s` is `%s` vs `%s`" % (k, x[k][:20], y[k][:20]) for k in sorted(set(x) & set(y)) if x[k] != y[k]]
            return g, "; ".join(diff[:3])
    return None


def knob_rule(fi, param, rule="KNOB", forward_ok=True):
    """Non-interference of a knob (`n_jobs`, `verbose`): results are the same whatever its value.  Every read of the parameter (and of a
    local that merely copies it) must be one of
      * an argument of a sink that consumes it without changing results: Parallel(n_jobs=..), numba.set_num_threads(..), tqdm / trange
        (disable= / desc=), print / warnings.warn;
      * forwarded under its own name to another call (`verbose=verbose`): that callee is judged where it is analysed;
      * a validation test whose body only raises;
      * the test of an `if` whose body only prints / warns (locals assigned there must not be read outside it).
    An `if` WITHOUT else whose test reads the knob and whose body rebinds or mutates a name that is read after the `if` makes data depend on
    the knob: named violation.  Anything else (alternative implementations under if/else, arithmetic on the knob) is not judged."""
    from .core import named
    role = "results do not depend on `%s` (it only reaches schedulers, progress bars and messages)" % param
    if param not in fi.params:
        return [unrecognised(rule, fi, role, "parameter `%s` no longer exists" % param, fi.node)]
    pm = parent_map(fi.node)
    knobs = {param}
    for n in ast.walk(fi.node):
        if isinstance(n, ast.Assign) and len(n.targets) == 1 and isinstance(n.targets[0], ast.Name):
            v = n.value.operand if isinstance(n.value, ast.UnaryOp) and isinstance(n.value.op, ast.Not) else n.value
            if isinstance(v, ast.Name) and v.id in knobs:
                knobs.add(n.targets[0].id)
    reads = [n for n in ast.walk(fi.node) if isinstance(n, ast.Name) and n.id in knobs and isinstance(n.ctx, ast.Load)]
    out, n_ok = [], 0

    MUTATORS = ("sort", "reverse", "append", "extend", "insert", "pop", "remove", "clear", "update", "shuffle", "add", "discard", "setdefault",
                "fill", "fill_", "zero_", "copy_", "add_", "mul_", "sub_", "div_")

    def in_sink(n):
        x = n
        while x in pm and not isinstance(pm[x], ast.stmt):
            x = pm[x]
            if isinstance(x, ast.Call) and dotted(x.func) in KNOB_SINKS and dotted(x.func) not in ("min", "max", "int", "range"):
                return True
        return False

    def escaping(block, end_line):
        """-> (names changed in the block that a later read can observe, statement the rule cannot classify | None)"""
        stored, mutated, fresh = set(), set(), set()
        unknown = None
        for st in block:
            # `it = tqdm(it, ..)`: the progress wrapper yields the elements of what it wraps
            if isinstance(st, ast.Assign) and len(st.targets) == 1 and isinstance(st.targets[0], ast.Name) and isinstance(st.value, ast.Call) and \
                    dotted(st.value.func) in ("tqdm", "tqdm.tqdm", "tqdm.auto.tqdm") and st.value.args and isinstance(st.value.args[0], ast.Name) and \
                    st.value.args[0].id == st.targets[0].id:
                continue
            for x in ast.walk(st):
                if isinstance(x, ast.Name) and isinstance(x.ctx, ast.Store):
                    stored.add(x.id)
                elif isinstance(x, (ast.Subscript, ast.Attribute)) and isinstance(x.ctx, (ast.Store, ast.Del)):
                    b_ = x
                    while isinstance(b_, (ast.Subscript, ast.Attribute)):
                        b_ = b_.value
                    if isinstance(b_, ast.Name):
                        mutated.add(b_.id)
                    else:
                        unknown = unknown or st
                elif isinstance(x, ast.Call) and isinstance(x.func, ast.Attribute) and isinstance(x.func.value, ast.Name) and x.func.attr in MUTATORS:
                    mutated.add(x.func.value.id)
                elif isinstance(x, (ast.Return, ast.Break, ast.Continue, ast.Raise, ast.Global, ast.Nonlocal, ast.Yield, ast.YieldFrom)):
                    unknown = unknown or st
        first_line = min([st.lineno for st in block] or [0])
        # objects created inside the block may be mutated there freely
        for nm in list(mutated):
            pre = [x for x in ast.walk(fi.node) if isinstance(x, ast.Name) and x.id == nm and isinstance(x.ctx, ast.Store) and x.lineno < first_line]
            if not pre and nm not in fi.params and nm in stored:
                mutated.discard(nm)
        hit = set(mutated)
        for nm in stored:
            for x in ast.walk(fi.node):
                if isinstance(x, ast.Name) and x.id == nm and isinstance(x.ctx, ast.Load) and getattr(x, "lineno", 0) > end_line and not in_sink(x):
                    redefined = any(isinstance(y, ast.Name) and y.id == nm and isinstance(y.ctx, ast.Store) and end_line < y.lineno <= x.lineno
                                    for y in ast.walk(fi.node))
                    if not redefined:
                        hit.add(nm)
                        break
        return hit, unknown

    for r in reads:
        node, verdict = r, None
        while node in pm and verdict is None:
            par = pm[node]
            if isinstance(par, ast.Assign) and len(par.targets) == 1 and isinstance(par.targets[0], ast.Name) and par.targets[0].id in knobs and \
                    (par.value is r or (isinstance(par.value, ast.UnaryOp) and par.value.operand is r)):
                verdict = "ok"       # the copy itself; its reads are judged on their own
            elif isinstance(par, ast.keyword) and forward_ok and par.arg == r.id and par.value is r:
                verdict = "ok"
            elif isinstance(par, ast.Call) and node is not par.func and dotted(par.func) in KNOB_SINKS and dotted(par.func) not in ("min", "max", "int", "range"):
                verdict = "ok"
            elif isinstance(par, ast.Call) and isinstance(par.func, ast.Call) and dotted(par.func.func) in KNOB_SINKS and node is par.func:
                verdict = "ok"       # Parallel(n_jobs=..)(..): the knob sits in the inner call
            elif isinstance(par, ast.IfExp) and node is par.test:
                # `tqdm(E) if verbose else E`: the progress wrapper yields the elements of what it wraps
                def unwrap(e_):
                    if isinstance(e_, ast.Call) and dotted(e_.func) in ("tqdm", "tqdm.tqdm", "tqdm.auto.tqdm") and e_.args:
                        return unparse(e_.args[0])
                    return unparse(e_)
                verdict = "ok" if unwrap(par.body) == unwrap(par.orelse) else "unknown"
            elif isinstance(par, ast.If) and node is par.test:
                end = par.end_lineno or par.lineno
                if all(isinstance(st, ast.Raise) for st in par.body) and not par.orelse:
                    verdict = "ok"
                else:
                    hb, ub = escaping(par.body, end)
                    ho, uo = escaping(par.orelse, end) if par.orelse else (set(), None)
                    if not hb and not ho and ub is None and uo is None:
                        verdict = "ok"       # whatever the arms compute stays inside them (messages, local bookkeeping)
                    elif par.orelse and _arms_call_differently(fi, par) is not None:
                        d_ = _arms_call_differently(fi, par)
                        out.append(named(rule, fi, role, "the two implementations selected by `%s` call `%s` with different arguments: %s - what is computed "
                                         "depends on `%s`" % (unparse(par.test)[:40], d_[0], d_[1], param), par))
                        verdict = "reported"
                    elif not par.orelse and hb and ub is None:
                        out.append(named(rule, fi, role, "`if %s:` (no else) changes `%s`, which is read afterwards: the data the result is built from "
                                         "depends on `%s`" % (unparse(par.test)[:40], ", ".join(sorted(hb)[:3]), param), par))
                        verdict = "reported"
                    else:
                        verdict = "unknown"
            elif isinstance(par, ast.stmt):
                verdict = "unknown"
            node = par
        if verdict == "ok":
            n_ok += 1
        elif verdict != "reported":
            s = r
            while not isinstance(s, ast.stmt):
                s = pm[s]
            out.append(unrecognised(rule, fi, role, "`%s` is read in `%s`: not one of the recognised result-neutral uses" % (r.id, unparse(s)[:70]), s))
    if not out:
        out.append(holds(rule, fi, role, "%d read(s) of `%s`: scheduler / progress / message sinks and same-name forwarding only" % (n_ok, param),
                         fi.node, nontrivial=bool(reads)))
    return out


# ------------------------------------------------------------------ NONE-TEST: an optional numeric / array parameter is tested with `is None`
def none_test_rule(fi, rule="NONE-TEST"):
    """A parameter whose default is None and that the docstring types as a number, tensor, array or list means "not given" only when it IS
    None.  A truthiness test (`if p:`, `not p`, `p or default`, `p and ..`) also fires for 0, 0.0, an empty list - and raises for a tensor
    with more than one element: a value the caller passed on purpose is silently replaced / skipped.  Named deviation; `is None` /
    `is not None` / isinstance tests are what the rule expects."""
    from .core import named
    a = fi.node.args
    defaults = dict(zip([x.arg for x in a.args][len(a.args) - len(a.defaults):], a.defaults))
    dp = fi.docparams()
    cand = []
    for k, v in defaults.items():
        if isinstance(v, ast.Constant) and v.value is None:
            d = dp.get(k, {})
            t = d.get("type", "").lower()
            if d.get("kind") in ("tensor", "int") or any(w in t for w in ("float", "array", "list", "tuple", "int")):
                cand.append(k)
        elif isinstance(v, ast.Constant) and isinstance(v.value, int) and not isinstance(v.value, bool) and dp.get(k, {}).get("kind") == "int":
            cand.append(k)          # an index / count with an integer default: 0 is a value like any other
    if not cand:
        return []
    pm = parent_map(fi.node)
    out = []
    for p in cand:
        role = "optional parameter `%s` is recognised as absent by `is None` only (0 / empty / a tensor are values, not absence)" % p
        if not (isinstance(defaults[p], ast.Constant) and defaults[p].value is None):
            role = "integer parameter `%s` is never tested by truth value (0 is a value like any other)" % p
        stores = [n for n in ast.walk(fi.node) if isinstance(n, ast.Name) and n.id == p and isinstance(n.ctx, ast.Store)]
        bad = None
        n_tests = 0
        for n in ast.walk(fi.node):
            if isinstance(n, ast.Name) and n.id == p and isinstance(n.ctx, ast.Load):
                par = pm.get(n)
                if isinstance(par, ast.Compare) and any(isinstance(o, (ast.Is, ast.IsNot)) for o in par.ops):
                    n_tests += 1
                    continue
                truthy = (isinstance(par, (ast.If, ast.While, ast.IfExp)) and par.test is n) or \
                         (isinstance(par, ast.UnaryOp) and isinstance(par.op, ast.Not)) or \
                         (isinstance(par, ast.BoolOp) and n in par.values and (n is not par.values[-1] or isinstance(pm.get(par), (ast.If, ast.While, ast.IfExp, ast.UnaryOp))))
                if truthy and not any(s.lineno < n.lineno for s in stores):
                    bad = bad or (n, par)
        if bad:
            s = bad[0]
            while not isinstance(s, ast.stmt):
                s = pm[s]
            out.append(named(rule, fi, role, "`%s` tests the truth value of `%s`: a caller who passes 0 / 0.0 / an empty sequence gets the default behaviour, "
                             "a multi-element tensor raises" % (unparse(bad[1])[:60], p), s))
        elif n_tests:
            out.append(holds(rule, fi, role, "%d identity test(s) against None" % n_tests, fi.node, nontrivial=False))
    return out


# ------------------------------------------------------------------ MUTABLE-DEFAULT: a default object that the function writes into is shared state
_DEFAULT_MUTATORS = ("setdefault", "update", "append", "extend", "insert", "pop", "popitem", "remove", "clear", "add", "discard", "sort", "reverse", "__setitem__")


def mutable_default_rule(fi, rule="STATE"):
    """A default value is created once, at definition time.  A parameter whose default is a mutable display / constructor ({}, [], set(),
    dict(), list()) and that the function writes into (subscript store, mutating method) keeps what one call wrote for every later call
    that relies on the default: results depend on the call history.  Reading such a default is fine."""
    from .core import named
    a = fi.node.args
    pos = a.posonlyargs + a.args
    defaults = dict(zip([x.arg for x in pos][len(pos) - len(a.defaults):], a.defaults))
    defaults.update({k.arg: d for k, d in zip(a.kwonlyargs, a.kw_defaults) if d is not None})
    out = []
    for p, d in defaults.items():
        mutable = isinstance(d, (ast.Dict, ast.List, ast.Set)) or (isinstance(d, ast.Call) and dotted(d.func) in ("dict", "list", "set", "collections.defaultdict", "defaultdict"))
        if not mutable:
            continue
        role = "the default object of `%s` is never written into (a default is shared by all calls)" % p
        rebound_before = {}
        writes = []
        for n in ast.walk(fi.node):
            if isinstance(n, (ast.Subscript, ast.Attribute)) and isinstance(n.ctx, (ast.Store, ast.Del)):
                b = n
                while isinstance(b, (ast.Subscript, ast.Attribute)):
                    b = b.value
                if isinstance(b, ast.Name) and b.id == p:
                    writes.append(n)
            elif isinstance(n, ast.Call) and isinstance(n.func, ast.Attribute) and isinstance(n.func.value, ast.Name) and n.func.value.id == p \
                    and n.func.attr in _DEFAULT_MUTATORS:
                writes.append(n)
        stores = [n for n in ast.walk(fi.node) if isinstance(n, ast.Name) and n.id == p and isinstance(n.ctx, ast.Store)]
        writes = [w for w in writes if not any(s_.lineno < w.lineno for s_ in stores)]      # after a rebinding it is the function's own object
        if writes:
            out.append(named(rule, fi, role, "`%s` writes into the parameter whose default is the shared object `%s`: what one call stores is seen by "
                             "every later call that uses the default" % (unparse(writes[0])[:50], unparse(d)[:30]), writes[0]))
        else:
            out.append(holds(rule, fi, role, "default `%s` is only read" % unparse(d)[:40], fi.node, nontrivial=False))
    return out


# ------------------------------------------------------------------ SET-ORDER: an unordered collection consumed where order matters
def set_order_rule(fi, rule="SET-ORDER"):
    """The iteration order of a set follows hash values and insertion history ({7, 8} iterates 8, 7; strings differ between processes).
    A `for` over `set(..)` / a set display / a set comprehension whose body builds an ordered result (append / extend / insert / yield /
    a positional store), a list / tuple built directly from a set, or `''.join(set(..))` makes the ORDER of the result depend on it.
    `sorted(set(..))`, membership tests, len / min / max / any / all are not affected and a loop whose body is order-insensitive is
    not judged.  Only emitted when such a construct exists (no instance otherwise)."""
    from .core import named
    role = "no ordered result is built by iterating an unordered set"
    pm = parent_map(fi.node)

    def is_set_expr(e):
        if isinstance(e, (ast.Set, ast.SetComp)):
            return True
        if isinstance(e, ast.Call) and dotted(e.func) in ("set", "frozenset"):
            return True
        return False
    out = []
    for n in ast.walk(fi.node):
        hit = None
        if isinstance(n, ast.For) and is_set_expr(n.iter):
            ordered = False
            for st in n.body:
                for x in ast.walk(st):
                    if isinstance(x, ast.Call) and isinstance(x.func, ast.Attribute) and x.func.attr in ("append", "extend", "insert", "write", "appendleft"):
                        ordered = True
                    if isinstance(x, (ast.Yield, ast.YieldFrom)):
                        ordered = True
                    if isinstance(x, ast.AugAssign) and isinstance(x.op, ast.Add) and isinstance(x.value, (ast.List, ast.Tuple, ast.Constant)) and \
                            not isinstance(getattr(x.value, "value", None), (int, float)):
                        ordered = True
            if ordered:
                hit = (n, "`for %s in %s:` appends to an ordered result" % (unparse(n.target)[:20], unparse(n.iter)[:40]))
        elif isinstance(n, (ast.ListComp, ast.GeneratorExp)) and n.generators and is_set_expr(n.generators[0].iter):
            par = pm.get(n)
            if isinstance(n, ast.ListComp) or (isinstance(par, ast.Call) and dotted(par.func) in ("list", "tuple", "torch.stack", "torch.cat", "numpy.array", "numpy.stack")):
                if not (isinstance(par, ast.Call) and dotted(par.func) in ("sorted", "set", "frozenset", "sum", "min", "max", "any", "all", "len")):
                    hit = (n, "`%s` lists the elements of a set in iteration order" % unparse(n)[:60])
        elif isinstance(n, ast.Call) and dotted(n.func) in ("list", "tuple") and len(n.args) == 1 and is_set_expr(n.args[0]):
            par = pm.get(n)
            if not (isinstance(par, ast.Call) and dotted(par.func) in ("sorted", "len", "set")):
                hit = (n, "`%s` lists the elements of a set in iteration order" % unparse(n)[:60])
        elif isinstance(n, ast.Call) and isinstance(n.func, ast.Attribute) and n.func.attr == "join" and len(n.args) == 1 and is_set_expr(n.args[0]):
            hit = (n, "`%s` concatenates the elements of a set in iteration order" % unparse(n)[:60])
        if hit:
            s = hit[0]
            while not isinstance(s, ast.stmt):
                s = pm[s]
            out.append(named(rule, fi, role, "%s: the order of a set follows hash values / insertion history, not the order of the elements "
                             "(`sorted(..)` or a list keeps it defined)" % hit[1], s))
            break
    return out


# ------------------------------------------------------------------ IDENTITY-KEY: memory addresses are not content
def identity_key_rule(fi, rule="STATE"):
    """`t.data_ptr()` is the address of the first element of a tensor's storage view and `id(x)` the address of an object: two different
    views that start at the same element (X[i, :, s:e] and X[i, :, s:e2]), or an object allocated where a dead one used to be, have the
    same value.  Used as a dictionary key / membership test (a memo) they make one input stand in for another.  Only emitted when such a
    key exists."""
    from .core import named
    role = "no cache / dictionary is keyed by a memory address (data_ptr(), id())"
    pm = parent_map(fi.node)
    for n in ast.walk(fi.node):
        is_addr = isinstance(n, ast.Call) and ((isinstance(n.func, ast.Attribute) and n.func.attr == "data_ptr" and not n.args) or
                                              (isinstance(n.func, ast.Name) and n.func.id == "id" and len(n.args) == 1))
        if not is_addr:
            continue
        x = n
        keyed = False
        while x in pm and not isinstance(pm[x], ast.stmt):
            par = pm[x]
            if isinstance(par, ast.Subscript) and par.slice is x or (isinstance(par, ast.Subscript) and isinstance(par.slice, ast.Tuple) and any(e is x for e in par.slice.elts)):
                keyed = True
            if isinstance(par, ast.Compare) and any(isinstance(o, (ast.In, ast.NotIn)) for o in par.ops):
                keyed = True
            if isinstance(par, ast.Call) and isinstance(par.func, ast.Attribute) and par.func.attr in ("get", "setdefault", "pop", "add", "__contains__") and x in par.args:
                keyed = True
            if isinstance(par, ast.Dict) and x in par.keys:
                keyed = True
            x = par
        if not keyed:
            # key = t.data_ptr() ; cache[key]
            s = n
            while not isinstance(s, ast.stmt):
                s = pm[s]
            if isinstance(s, ast.Assign) and len(s.targets) == 1 and isinstance(s.targets[0], ast.Name):
                k = s.targets[0].id
                keyed = any(isinstance(y, ast.Subscript) and any(isinstance(z, ast.Name) and z.id == k for z in ast.walk(y.slice)) for y in ast.walk(fi.node))
        if keyed:
            s = n
            while not isinstance(s, ast.stmt):
                s = pm[s]
            return [named(rule, fi, role, "`%s` is used as a key: it identifies where a value starts in memory, not the value (two slices of one row that begin "
                          "at the same position, or a new object at a recycled address, share it)" % unparse(n)[:40], s)]
    return []
