"""May-alias / in-place effect analysis (rules R-PURE and the write summaries used by R-MODEL).

Flow-sensitive per function, inter-procedural through bottom-up summaries:

  writes[f]    parameters of f that f may write in place
  retalias[f]  parameters of f that f's return value may alias

Abstract value of a local variable: the set of *caller-owned roots* (parameter
names) whose storage it may share.  Transfer functions come from a table of
torch / numpy API summaries (views vs. fresh storage, in-place sinks).
"""
import ast
from .front import dotted, const_value, unparse, walk_no_nested

VIEW_METHODS = {
    "view", "reshape", "flatten", "permute", "transpose", "unsqueeze", "squeeze", "expand",
    "expand_as", "unfold", "chunk", "split", "moveaxis", "movedim", "swapaxes", "detach", "numpy",
    "to", "cpu", "cuda", "type", "contiguous", "requires_grad_", "float", "double", "half", "int",
    "long", "bool", "T", "t", "narrow", "select", "unbind", "view_as", "reshape_as", "ravel",
    "astype_view", "values", "data", "diagonal", "as_strided", "byte", "short", "type_as",
    "squeeze_", "unsqueeze_", "items", "keys", "tolist_view", "real", "imag", "mT", "H",
    "tensor_split", "hsplit", "vsplit", "dsplit", "unflatten", "index_select_view", "numpy_T",
    "get", "setdefault", "__getitem__",
}
FRESH_METHODS = {
    "clone", "repeat", "repeat_interleave", "sum", "mean", "max", "min", "argmax", "argmin",
    "cumsum", "cumprod", "flip", "abs", "copy", "astype", "item", "tolist", "any", "all", "std",
    "var", "prod", "nonzero", "unique", "sort", "argsort", "topk", "log", "exp", "sqrt", "pow",
    "round", "floor", "ceil", "clamp", "clip", "masked_fill", "index_select", "gather", "scatter",
    "scatter_add", "nansum", "dot", "matmul", "mm", "bmm", "sign", "neg", "where", "size", "dim",
    "numel", "count", "index", "upper", "lower", "strip", "split_str", "join", "format", "replace",
    "nan_to_num", "isnan", "isinf", "logical_not", "logical_and", "logical_or", "eq", "ne", "lt",
    "le", "gt", "ge", "softmax", "log_softmax", "relu", "sigmoid", "tanh", "median", "quantile",
    "tile", "roll", "triu", "tril", "new_zeros", "new_ones", "new_empty", "new_full", "cat",
    "stack", "norm", "add", "sub", "mul", "div", "true_divide", "type_fresh", "searchsorted",
    "histc", "bincount", "cumulative_trapezoid", "take", "take_along_dim", "masked_select",
    "encode", "decode", "startswith", "endswith", "isin", "conj_physical", "trace", "outer",
}
VIEW_FUNCS = {
    "torch.from_numpy", "torch.as_tensor", "torch.transpose", "torch.reshape", "torch.squeeze",
    "torch.unsqueeze", "torch.flatten", "torch.chunk", "torch.split", "torch.narrow", "torch.t",
    "torch.movedim", "torch.moveaxis", "torch.swapaxes", "torch.atleast_1d", "torch.atleast_2d",
    "torch.atleast_3d", "torch.broadcast_to", "torch.permute", "torch.unbind", "torch.detach",
    "numpy.asarray", "numpy.reshape", "numpy.transpose", "numpy.ravel", "numpy.squeeze",
    "numpy.frombuffer", "numpy.ascontiguousarray", "numpy.moveaxis", "numpy.swapaxes",
    "numpy.atleast_1d", "numpy.atleast_2d", "numpy.expand_dims", "numpy.broadcast_to",
    "numpy.asanyarray", "torch.Tensor", "torch.view_as_real", "torch.select", "torch.diagonal",
    "tuple", "list", "iter", "reversed", "zip", "enumerate", "tqdm", "tqdm.tqdm", "numpy.split",
    "torch.tensor_split", "numpy.array_split", "itertools.product", "itertools.chain", "cast",
    "typing.cast", "dict", "sorted_view",
}
# everything else called as torch.* / numpy.* / F.* is taken to return fresh storage
INPLACE_FUNC_FIRST_ARG = {
    "numpy.add.at", "numpy.subtract.at", "numpy.put", "numpy.place", "numpy.putmask", "numpy.copyto",
    "numpy.fill_diagonal", "numpy.random.shuffle", "torch.nn.init.zeros_", "random.shuffle",
}
INPLACE_METHODS_NO_UNDERSCORE = {"fill", "sort", "resize", "put", "itemset", "setflags", "partition",
                                 "byteswap_inplace",
                                 # python containers handed in by the caller (lists of spacings/motifs, kwargs dicts)
                                 "append", "extend", "insert", "pop", "remove", "reverse", "clear", "update", "popitem"}
INPLACE_OBJ_METHOD_ARG0 = {"shuffle"}      # random_state.shuffle(x) permutes x in place
NOT_INPLACE_UNDERSCORE = set()             # dunder handled separately


class Summaries:
    def __init__(self, repo):
        self.repo = repo
        self.writes = {}
        self.retalias = {}
        self.events = {}
        funcs = list(repo.all_funcs())
        for f in funcs:
            self.writes[f.qual] = set()
            self.retalias[f.qual] = set()
        for _ in range(4):
            changed = False
            for f in funcs:
                a = Effects(repo, f, self)
                w = {p for (p, _n, _k, _c) in a.sinks}
                r = a.return_alias
                if w != self.writes[f.qual] or r != self.retalias[f.qual]:
                    changed = True
                self.writes[f.qual] = w
                self.retalias[f.qual] = r
                self.events[f.qual] = a
            if not changed:
                break


class Effects:
    """analyse one function: self.sinks = [(root_param, node, kind, certain)]"""

    def __init__(self, repo, fi, summaries=None, roots=None):
        self.repo = repo
        self.fi = fi
        self.summ = summaries
        self.sinks = []
        self.return_alias = set()
        self.unknown_methods = []
        self.roots = set(fi.params) if roots is None else set(roots)
        if fi.vararg:
            self.roots.add(fi.vararg)
        if fi.kwarg:
            self.roots.add(fi.kwarg)
        env = {p: {p} for p in self.roots}
        self.intvars = set()
        self.block(fi.node.body, env)

    # ---- alias of an expression
    def alias(self, e, env):
        if e is None:
            return set()
        if isinstance(e, ast.Name):
            return set(env.get(e.id, set()))
        if isinstance(e, ast.Constant):
            return set()
        if isinstance(e, ast.Starred):
            return self.alias(e.value, env)
        if isinstance(e, ast.Attribute):
            if e.attr in ("shape", "dtype", "device", "ndim", "size"):
                return set()
            return self.alias(e.value, env)
        if isinstance(e, ast.Subscript):
            base = self.alias(e.value, env)
            if not base:
                return set()
            if self.is_advanced_index(e.slice, env):
                return set()
            return base
        if isinstance(e, (ast.Tuple, ast.List, ast.Set)):
            out = set()
            for x in e.elts:
                out |= self.alias(x, env)
            return out
        if isinstance(e, ast.Dict):
            out = set()
            for x in e.values:
                out |= self.alias(x, env)
            return out
        if isinstance(e, ast.IfExp):
            return self.alias(e.body, env) | self.alias(e.orelse, env)
        if isinstance(e, ast.BoolOp):
            out = set()
            for x in e.values:
                out |= self.alias(x, env)
            return out
        if isinstance(e, (ast.BinOp, ast.UnaryOp, ast.Compare, ast.JoinedStr, ast.Lambda)):
            return set()
        if isinstance(e, ast.NamedExpr):
            return self.alias(e.value, env)
        if isinstance(e, (ast.ListComp, ast.GeneratorExp, ast.SetComp)):
            env2 = dict(env)
            for g in e.generators:
                self.bind_target(g.target, self.alias(g.iter, env2), env2)
            return self.alias(e.elt, env2)
        if isinstance(e, ast.DictComp):
            env2 = dict(env)
            for g in e.generators:
                self.bind_target(g.target, self.alias(g.iter, env2), env2)
            return self.alias(e.value, env2)
        if isinstance(e, ast.Call):
            return self.call_alias(e, env)
        return set()

    def is_advanced_index(self, sl, env):
        idx = sl.elts if isinstance(sl, ast.Tuple) else [sl]
        for i in idx:
            if isinstance(i, ast.Slice):
                continue
            if isinstance(i, ast.Constant):
                continue
            if isinstance(i, (ast.List, ast.ListComp)):
                return True
            if self.intish(i, env):
                continue
            # a name / call / comparison used as index that is not integer-like: tensor or list index
            return True
        return False

    def intish(self, e, env):
        if isinstance(e, ast.Constant):
            return isinstance(e.value, int) or e.value is None or e.value is Ellipsis
        if isinstance(e, ast.Name):
            return e.id in self.intvars
        if isinstance(e, ast.UnaryOp):
            return self.intish(e.operand, env)
        if isinstance(e, ast.BinOp):
            return self.intish(e.left, env) and self.intish(e.right, env)
        if isinstance(e, ast.Call):
            d = dotted(e.func)
            if d in ("int", "len", "max", "min", "numpy.uint64", "uint64", "numpy.int64", "abs"):
                return True
            if isinstance(e.func, ast.Attribute) and e.func.attr == "item":
                return True
        if isinstance(e, ast.Subscript) and isinstance(e.value, ast.Attribute) and e.value.attr == "shape":
            return True
        return False

    def call_alias(self, e, env):
        d = dotted(e.func)
        callee = self.repo.resolve_call(self.fi, e) if self.repo else None
        if callee is not None and self.summ is not None:
            out = set()
            ra = self.summ.retalias.get(callee.qual, set())
            for pname, arg in self.map_args(callee, e):
                if pname in ra:
                    out |= self.alias(arg, env)
            return out
        if d in VIEW_FUNCS:
            out = set()
            for a in e.args:
                out |= self.alias(a, env)
            return out
        if isinstance(e.func, ast.Attribute):
            m = e.func.attr
            base = self.alias(e.func.value, env)
            if not base:
                return set()
            if m in VIEW_METHODS:
                return base
            if m in FRESH_METHODS:
                return set()
            if m.endswith("_") and not m.endswith("__"):
                return base      # in-place ops return self
            if d and (d.startswith("torch.") or d.startswith("numpy.") or d.startswith("F.")
                      or d.startswith("np.") or d.startswith("math.") or d.startswith("pandas.")):
                return set()
            self.unknown_methods.append((m, e))
            return set()
        return set()

    def map_args(self, callee, call):
        out = []
        params = callee.params
        for i, a in enumerate(call.args):
            if isinstance(a, ast.Starred):
                for p in params[i:]:
                    out.append((p, a.value))
                break
            if i < len(params):
                out.append((params[i], a))
        for kw in call.keywords:
            if kw.arg is None:
                for p in params:
                    out.append((p, kw.value))
            elif kw.arg in params:
                out.append((kw.arg, kw.value))
        return out

    # ---- statements
    def bind_target(self, tgt, al, env):
        if isinstance(tgt, ast.Name):
            env[tgt.id] = set(al)
        elif isinstance(tgt, (ast.Tuple, ast.List)):
            for t in tgt.elts:
                self.bind_target(t, al, env)
        elif isinstance(tgt, ast.Starred):
            self.bind_target(tgt.value, al, env)

    def sink(self, roots, node, kind):
        for r in sorted(roots):
            self.sinks.append((r, node, kind, True))

    def scan_calls(self, node, env):
        """find in-place effects in expression context"""
        for n in walk_no_nested(node):
            if not isinstance(n, ast.Call):
                continue
            d = dotted(n.func)
            if isinstance(n.func, ast.Attribute):
                m = n.func.attr
                base = self.alias(n.func.value, env)
                if base and ((m.endswith("_") and not m.startswith("__")) or m in INPLACE_METHODS_NO_UNDERSCORE):
                    self.sink(base, n, "in-place method .%s()" % m)
                if m in INPLACE_OBJ_METHOD_ARG0 and n.args:
                    al = self.alias(n.args[0], env)
                    if al:
                        self.sink(al, n, "in-place %s(arg)" % m)
            if d in INPLACE_FUNC_FIRST_ARG and n.args:
                al = self.alias(n.args[0], env)
                if al:
                    self.sink(al, n, "in-place %s" % d)
            for kw in n.keywords:
                if kw.arg == "out":
                    al = self.alias(kw.value, env)
                    if al:
                        self.sink(al, n, "out= argument")
            callee = self.repo.resolve_call(self.fi, n) if self.repo else None
            if callee is not None and self.summ is not None:
                w = self.summ.writes.get(callee.qual, set())
                if w:
                    for pname, arg in self.map_args(callee, n):
                        if pname in w:
                            al = self.alias(arg, env)
                            if al:
                                self.sink(al, n, "passed to %s which writes its parameter `%s`" % (callee.qual, pname))

    def store_target(self, tgt, env, node, aug=False):
        if isinstance(tgt, ast.Subscript):
            al = self.alias(tgt.value, env)
            if al:
                self.sink(al, node, "subscript store `%s`" % unparse(tgt))
        elif isinstance(tgt, ast.Attribute):
            if tgt.attr in ("data", "grad", "requires_grad"):
                al = self.alias(tgt.value, env)
                if al:
                    self.sink(al, node, "attribute store .%s" % tgt.attr)
        elif isinstance(tgt, (ast.Tuple, ast.List)):
            for t in tgt.elts:
                self.store_target(t, env, node)

    def block(self, stmts, env):
        for s in stmts:
            self.stmt(s, env)

    def merge(self, env, a, b):
        keys = set(a) | set(b)
        env.clear()
        for k in keys:
            env[k] = set(a.get(k, set())) | set(b.get(k, set()))

    def stmt(self, s, env):
        if isinstance(s, ast.Assign):
            self.scan_calls(s.value, env)
            al = self.alias(s.value, env)
            isint = self.intish(s.value, env)
            for t in s.targets:
                self.store_target(t, env, s)
                if isinstance(t, ast.Name):
                    if isint:
                        self.intvars.add(t.id)
                    else:
                        self.intvars.discard(t.id)
                if isinstance(t, (ast.Tuple, ast.List)) and isinstance(s.value, (ast.Tuple, ast.List)) \
                        and len(t.elts) == len(s.value.elts):
                    als = [self.alias(v, env) for v in s.value.elts]
                    for tt, a, v in zip(t.elts, als, s.value.elts):
                        self.bind_target(tt, a, env)
                        if isinstance(tt, ast.Name) and self.intish(v, env):
                            self.intvars.add(tt.id)
                else:
                    if isinstance(t, (ast.Tuple, ast.List)) and isinstance(s.value, ast.Attribute) and s.value.attr == "shape":
                        for tt in t.elts:
                            if isinstance(tt, ast.Name):
                                self.intvars.add(tt.id)
                    self.bind_target(t, al, env)
            return
        if isinstance(s, ast.AugAssign):
            self.scan_calls(s.value, env)
            if isinstance(s.target, ast.Name):
                if s.target.id in self.intvars or self.intish(s.value, env) and s.target.id not in env:
                    return
                al = env.get(s.target.id, set())
                if al and not self.scalar_name(s.target.id):
                    self.sink(al, s, "augmented assignment `%s %s= ...`" % (s.target.id, _op(s.op)))
            else:
                self.store_target(s.target, env, s, aug=True)
            return
        if isinstance(s, ast.AnnAssign):
            if s.value is not None and isinstance(s.target, ast.Name):
                self.scan_calls(s.value, env)
                env[s.target.id] = self.alias(s.value, env)
            return
        if isinstance(s, ast.Expr):
            self.scan_calls(s.value, env)
            return
        if isinstance(s, ast.Return):
            if s.value is not None:
                self.scan_calls(s.value, env)
                self.return_alias |= (self.alias(s.value, env) & self.roots)
            return
        if isinstance(s, ast.Delete):
            for t in s.targets:
                if isinstance(t, ast.Subscript):
                    al = self.alias(t.value, env)
                    if al:
                        self.sink(al, s, "del of element")
            return
        if isinstance(s, ast.If):
            self.scan_calls(s.test, env)
            a = {k: set(v) for k, v in env.items()}
            b = {k: set(v) for k, v in env.items()}
            self.block(s.body, a)
            self.block(s.orelse, b)
            self.merge(env, a, b)
            return
        if isinstance(s, (ast.For, ast.While)):
            if isinstance(s, ast.For):
                self.scan_calls(s.iter, env)
                it = s.iter
                if isinstance(it, ast.Call) and dotted(it.func) in ("range", "trange", "numba.prange", "prange"):
                    for n in ast.walk(s.target):
                        if isinstance(n, ast.Name):
                            self.intvars.add(n.id)
                    self.bind_target(s.target, set(), env)
                elif isinstance(it, ast.Call) and dotted(it.func) == "enumerate" and isinstance(s.target, ast.Tuple) \
                        and len(s.target.elts) == 2:
                    if isinstance(s.target.elts[0], ast.Name):
                        self.intvars.add(s.target.elts[0].id)
                        env[s.target.elts[0].id] = set()
                    self.bind_target(s.target.elts[1], self.alias(it.args[0], env) if it.args else set(), env)
                else:
                    self.bind_target(s.target, self.alias(it, env), env)
                    # `for idx, start, end in annotations` : integer triples
                    if isinstance(s.target, ast.Tuple):
                        for n in s.target.elts:
                            if isinstance(n, ast.Name):
                                self.intvars.add(n.id)
            else:
                self.scan_calls(s.test, env)
            for _ in range(2):
                before = {k: set(v) for k, v in env.items()}
                nsinks = len(self.sinks)
                self.block(s.body, env)
                self.merge(env, env.copy(), before)
                if _ == 0:
                    del self.sinks[nsinks:]   # second pass re-records with loop-carried aliases
            self.block(s.orelse, env)
            return
        if isinstance(s, ast.With):
            for it in s.items:
                self.scan_calls(it.context_expr, env)
                if it.optional_vars is not None:
                    self.bind_target(it.optional_vars, self.alias(it.context_expr, env), env)
            self.block(s.body, env)
            return
        if isinstance(s, ast.Try):
            self.block(s.body, env)
            for h in s.handlers:
                self.block(h.body, env)
            self.block(s.orelse, env)
            self.block(s.finalbody, env)
            return
        if isinstance(s, (ast.Raise, ast.Assert)):
            for n in ast.iter_child_nodes(s):
                if isinstance(n, ast.expr):
                    self.scan_calls(n, env)
            return

    def scalar_name(self, name):
        dp = self.fi.docparams()
        k = dp.get(name, {}).get("kind")
        return k in ("int", "bool")


def _op(op):
    return {ast.Add: "+", ast.Sub: "-", ast.Mult: "*", ast.Div: "/", ast.FloorDiv: "//", ast.Mod: "%",
            ast.BitOr: "|", ast.BitAnd: "&", ast.BitXor: "^", ast.Pow: "**", ast.MatMult: "@",
            ast.LShift: "<<", ast.RShift: ">>"}.get(type(op), "?")


_CACHE = {}


def summaries(repo):
    k = id(repo)
    if k not in _CACHE:
        _CACHE[k] = Summaries(repo)
    return _CACHE[k]
