"""Self-test corpus: source edits of the current tree (see selftest.py).

expect = VIOLATION : breaking edit, the property's check must report it (rule/func narrow what must be named)
expect = HOLDS     : behaviour-preserving edit, the check must stay silent
"""
E = "tangermeme/ersatz.py"
CORPUS = []


def case(pid, cid, expect, edits, rule=None, func=None, note=""):
    CORPUS.append({"property": pid, "id": cid, "expect": expect, "rule": rule, "func": func, "note": note,
                   "edits": [{"file": f, "old": o, "new": n} for (f, o, n) in edits]})


# ------------------------------------------------------------------ C01
SUB_GUARD = "\t\tif start < 0 or start > (X.shape[-1] - motif.shape[-1]):\n\t\t\traise ValueError(\"Provided start falls off the end of the sequence\")\n\telse:\n\t\tstart = X.shape[-1] // 2 - motif.shape[-1] // 2"
case("C01", "sub-drop-neg-guard", "VIOLATION", [(E, SUB_GUARD, SUB_GUARD.replace("start < 0 or ", ""))], "R-GUARD", "ersatz.substitute")
case("C01", "sub-guard-L-not-L-m", "VIOLATION", [(E, SUB_GUARD, SUB_GUARD.replace("start > (X.shape[-1] - motif.shape[-1])", "start > X.shape[-1]"))], "R-GUARD", "ersatz.substitute")
case("C01", "sub-guard-clip", "VIOLATION", [(E, SUB_GUARD, SUB_GUARD.replace("raise ValueError(\"Provided start falls off the end of the sequence\")", "start = max(start, 0)"))], "R-GUARD", "ersatz.substitute")
case("C01", "sub-no-clone", "VIOLATION", [(E, "\tX = torch.clone(X)\n\tX[:, :, start:start+n] = motif", "\tX[:, :, start:start+n] = motif")], "R-PURE", "ersatz.substitute")
case("C01", "sub-store-off-by-one", "VIOLATION", [(E, "X[:, :, start:start+n] = motif", "X[:, :, start:start+n-1] = motif[:, :, :-1]")], None, "ersatz.substitute")
case("C01", "sub-default-start-wrong", "VIOLATION", [(E, "start = X.shape[-1] // 2 - motif.shape[-1] // 2\n\n\n\tn", "start = X.shape[-1] // 2 + motif.shape[-1] // 2\n\n\n\tn")], "R-GUARD", "ersatz.substitute")
case("C01", "sub-validate-after", "VIOLATION", [(E, "\t_validate_input(X, \"X\", ohe=True)\n\t_validate_input(motif, \"motif\", shape=(-1, X.shape[1], -1), ohe=True)\n\n\tif motif.shape[-1] > X.shape[-1]:", "\t_validate_input(X, \"X\", ohe=True)\n\n\tif motif.shape[-1] > X.shape[-1]:")], "MUST-VALIDATE", "ersatz.substitute")
case("C01", "sub-equiv-guard", "HOLDS", [(E, SUB_GUARD, SUB_GUARD.replace("start < 0 or start > (X.shape[-1] - motif.shape[-1])", "not (0 <= start <= X.shape[-1] - motif.shape[-1])"))])
case("C01", "sub-split-guard", "HOLDS", [(E, SUB_GUARD, "\t\tif start < 0:\n\t\t\traise ValueError(\"neg\")\n\t\tif start + motif.shape[-1] > X.shape[-1]:\n\t\t\traise ValueError(\"Provided start falls off the end of the sequence\")\n\telse:\n\t\tstart = X.shape[-1] // 2 - motif.shape[-1] // 2")])
case("C01", "sub-clone-method", "HOLDS", [(E, "\tX = torch.clone(X)\n\tX[:, :, start:start+n] = motif", "\tX_out = X.clone()\n\tend_ = start + motif.shape[-1]\n\tX_out[:, :, start:end_] = motif\n\tX = X_out")])
INS_RET = "return torch.cat([X[:, :, :start], motif, X[:, :, start:]], dim=-1)"
case("C01", "ins-swap-pieces", "VIOLATION", [(E, INS_RET, "return torch.cat([X[:, :, start:], motif, X[:, :, :start]], dim=-1)")], "R-LEN", "ersatz.insert")
case("C01", "ins-overwrite", "VIOLATION", [(E, INS_RET, "return torch.cat([X[:, :, :start], motif, X[:, :, start+1:]], dim=-1)")], "R-LEN", "ersatz.insert")
case("C01", "ins-no-neg-guard", "VIOLATION", [(E, "\tif start is not None:\n\t\tif start < 0 or start > (X.shape[-1] - motif.shape[-1]):\n\t\t\traise ValueError(\"Provided start falls off the end of the sequence\")\n\telse:\n\t\tstart = X.shape[-1] // 2\n", "\tif start is not None:\n\t\tif start > (X.shape[-1] - motif.shape[-1]):\n\t\t\traise ValueError(\"Provided start falls off the end of the sequence\")\n\telse:\n\t\tstart = X.shape[-1] // 2\n")], "R-GUARD", "ersatz.insert")
case("C01", "ins-local-names", "HOLDS", [(E, INS_RET, "left, right = X[:, :, :start], X[:, :, start:]\n\treturn torch.cat([left, motif, right], dim=-1)")], note="pieces through locals: composition rule must follow the locals or stay silent")
DEL_G = "\tif end < 0 or end > X.shape[-1] or end <= start:"
case("C01", "del-end-le", "VIOLATION", [(E, DEL_G, "\tif end < 0 or end > X.shape[-1] + 1 or end <= start:")], "R-GUARD", "ersatz.delete")
case("C01", "del-no-order", "VIOLATION", [(E, DEL_G, "\tif end < 0 or end > X.shape[-1]:")], "R-GUARD", "ersatz.delete")
case("C01", "del-keep-end", "VIOLATION", [(E, "return torch.cat([X[:, :, :start], X[:, :, end:]], dim=-1)", "return torch.cat([X[:, :, :start], X[:, :, end-1:]], dim=-1)")], "R-LEN", "ersatz.delete")
case("C01", "rand-wrong-start", "VIOLATION", [(E, "X_rand = substitute(X, substitute_ohe, start=start)", "X_rand = substitute(X, substitute_ohe, start=start+1)")], "R-GUARD", "ersatz.randomize")
case("C01", "rand-wrong-width", "VIOLATION", [(E, "probs.shape[1], end-start)", "probs.shape[1], end-start+1)")], "R-GUARD", "ersatz.randomize")
case("C01", "multi-advance-no-spacing", "VIOLATION", [(E, "start += motif_lengths[i] + spacing[i]", "start += motif_lengths[i]")], "R-LEN", "ersatz.multisubstitute")
case("C01", "multi-advance-wrong-index", "VIOLATION", [(E, "start += motif_lengths[i] + spacing[i]", "start += motif_lengths[i] + spacing[0]")], "R-LEN", "ersatz.multisubstitute")
case("C01", "multi-advance-equiv", "HOLDS", [(E, "start += motif_lengths[i] + spacing[i]", "start = start + spacing[i] + motif_lengths[i]")])
case("C01", "multi-spacing-guard", "VIOLATION", [(E, "if l < 0 or l >= X.shape[-1]:", "if l >= X.shape[-1]:")], "R-GUARD", "ersatz.multisubstitute")
